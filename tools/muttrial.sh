#!/bin/bash
# usage: tools/muttrial.sh <PID> <file-relative-to-repo> <python-expr-old> <python-expr-new>   (scratch copy under /tmp, removed afterwards)
set -e
PID=$1; F=$2; OLD=$3; NEW=$4
D=$(mktemp -d /tmp/vtmut.XXXX)
rsync -a --exclude tests --exclude .git /repo/tensorly $D/
python3 - "$D/$F" "$OLD" "$NEW" <<'PY'
import sys
p,old,new=sys.argv[1:4]
s=open(p).read()
assert old in s, "pattern not found"
open(p,'w').write(s.replace(old,new,1))
PY
cd /verif && VT_REPO=$D python3-vt -m vt.check $PID --no-evidence 2>&1 | grep "VIOLATION\|UNDECIDED\|ERROR\|^\[" | cut -c1-260 | head -${5:-4}
rm -rf $D
