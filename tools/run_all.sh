#!/bin/bash
# runs every claimed check (quick tier) and prints the summary lines; non-zero exit if any check is not clean
cd /verif
rc=0
for p in $(python3 -c "import json;print(' '.join(c['property_id'] for c in json.load(open('MANIFEST.json'))['checks']))"); do
  out=$(python3-vt -m vt.check $p --tier ${1:-quick} 2>&1); e=$?
  echo "$out" | grep "^\[$p" ; [ $e -ne 0 ] && { rc=1; echo "$out" | grep "VIOLATION\|UNDECIDED\|ERROR" | cut -c1-300 | head -5; }
done
exit $rc
