#!/bin/bash
# usage: tools/seed_eval.sh <PID> <seed_dir> [tier]   -- applies the patch to /repo, runs demo + check, reverts. Prints a summary line.
PID=$1; D=$2; TIER=${3:-quick}
cd /repo || exit 9
if ! git diff --quiet; then echo "REPO DIRTY"; exit 9; fi
git apply "$D/patch.diff" || { echo "$D: patch does not apply"; exit 8; }
(cd /repo && PYTHONPATH=/repo /venv/bin/python "$D/demo.py") >/tmp/seed_demo.out 2>&1; DEMO_MUT=$?
(cd /verif && python3-vt -m vt.check $PID --tier $TIER --no-evidence > /tmp/seed_check.out 2>&1); CHECK=$?
git checkout -- . 
(cd /repo && PYTHONPATH=/repo /venv/bin/python "$D/demo.py") >/tmp/seed_demo_clean.out 2>&1; DEMO_CLEAN=$?
NV=$(grep -c "^VIOLATION" /tmp/seed_check.out)
echo "$D: demo(mutated)=$DEMO_MUT demo(clean)=$DEMO_CLEAN check_exit=$CHECK violations=$NV :: $(grep -m1 '^VIOLATION' /tmp/seed_check.out | sed -E 's/.*obligation=//' | cut -c1-200)"
