#!/usr/bin/env python3
"""usage: tools/seed_finish_wt.py <worktree> <PID> [<PID of the check to run> ...]
For every <worktree>/_seeded/<PID>_*: confirm it (full test-suite + demo with the change, demo without) in the scratch worktree, run the property's quick
check against that tree (VT_REPO=<worktree>, so /repo is never touched), copy patch / demo / meta to /verif/seeded/<id>/ and record the outcome in meta.json.
The worktree is removed afterwards."""
import glob, json, os, re, shutil, subprocess, sys

def sh(cmd, **kw):
    return subprocess.run(cmd, shell=True, capture_output=True, text=True, **kw)

wt, pid = sys.argv[1], sys.argv[2]
SUITE = ("/venv/bin/python -m pytest -q -p no:cacheprovider --timeout=900 --deselect tensorly/datasets/tests/test_imports.py::test_indian_pines "
         "--deselect tensorly/tests/test_backend.py::test_svd_time tensorly")
for d in sorted(glob.glob(f"{wt}/_seeded/{pid}_*")):
    name = os.path.basename(d)
    sh(f"git -C {wt} checkout -q -- .")
    if sh(f"git -C {wt} apply {d}/patch.diff").returncode != 0:
        print(name, "patch does not apply"); continue
    t = sh(f"cd {wt} && {SUITE}")
    suite = f"pytest_exit={t.returncode} ({(t.stdout.strip().splitlines() or ['?'])[-1]})"
    demo_mut = sh(f"cd {wt} && PYTHONPATH={wt} /venv/bin/python {d}/demo.py").returncode
    chk = sh(f"cd /verif && VT_REPO={wt} python3-vt -m vt.check {pid} --tier quick --no-evidence")
    sh(f"git -C {wt} checkout -q -- .")
    demo_clean = sh(f"cd {wt} && PYTHONPATH={wt} /venv/bin/python {d}/demo.py").returncode
    viol = re.findall(r"^VIOLATION .*?obligation=(.*?) :: ", chk.stdout, flags=re.M)
    meta = json.load(open(f"{d}/meta.json"))
    meta["confirmed_by_check_author"] = dict(test_suite_with_change=suite, demo_exit_with_change=demo_mut, demo_exit_clean=demo_clean,
                                             how="tools/seed_finish_wt.py: full test-suite and demonstration in the scratch worktree with the change applied, demonstration again on the clean worktree")
    meta["detected"] = dict(check=f"VT_REPO=<scratch worktree with the change> python3-vt -m vt.check {pid} --tier quick", exit_code=chk.returncode, violations=len(viol), obligations=viol[:6])
    tgt = f"/verif/seeded/{name}"
    os.makedirs(tgt, exist_ok=True)
    for f in ("patch.diff", "demo.py"):
        shutil.copy(f"{d}/{f}", tgt)
    json.dump(meta, open(f"{tgt}/meta.json", "w"), indent=1, ensure_ascii=False)
    print(name, suite, "demo", demo_mut, demo_clean, "check_exit", chk.returncode, "violations", len(viol), "::", (viol or [chk.stdout.strip().splitlines()[-1] if chk.stdout.strip() else chk.stderr[-300:]])[0][:220], flush=True)
if not os.environ.get("KEEP_WT"):
    sh(f"git -C /repo worktree remove --force {wt}; git -C /repo worktree prune")
print("FINISHED", pid)
