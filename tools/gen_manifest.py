#!/usr/bin/env python3
"""Regenerates /verif/MANIFEST.json from the table below (kept in one place so it is always valid)."""
import json, os, sys
ROOT = os.path.dirname(os.path.dirname(os.path.abspath(__file__)))
sys.path.insert(0, ROOT)
from tools.manifest_table import CHECKS, NOT_APPLICABLE

BASE = json.load(open("/root/.vp/BASELINE.json"))["cmd"] if os.path.exists("/root/.vp/BASELINE.json") else "cd /repo && /venv/bin/python -m pytest -ra -q -p no:cacheprovider --timeout=900 --continue-on-collection-errors"
BASE = BASE.replace(" --junitxml=<file>", "")
props = [json.loads(l)["id"] for l in open(os.path.join(ROOT, "properties.jsonl"))]
checks = []
for pid in props:
    if pid in CHECKS:
        c = CHECKS[pid]
        checks.append(dict(
            property_id=pid,
            quick_cmd=f"python3-vt -m vt.check {pid} --tier quick",
            thorough_cmd=f"python3-vt -m vt.check {pid} --tier thorough",
            evidence_file=f"/verif/evidence/{pid}.json",
            replay_cmd_template=f"python3-vt -m vt.check {pid} --replay {{path}}",
            engine=c.get("engine", "vt"),
            level_claimed=dict(category=c["category"], text=c["text"], design_ref=c.get("design_ref", f"DESIGN.md §3 {pid}")),
            level_note=c["note"],
            technique=c["technique"],
        ))
na = [dict(property_id=p, reason=NOT_APPLICABLE.get(p, "no check built yet in this round (see DESIGN.md §3 for the plan)")) for p in props if p not in CHECKS]
man = dict(
    version=1,
    setup_cmd="cd /verif && python3-vt -m compileall -q vt && python3-vt -m vt.primcheck",
    hooks=dict(guard="TENSORLY_VERIF", enable="no source hooks are needed: the checks run the unmodified /repo functions on a symbolic backend registered through tensorly.set_backend (public API)",
               baseline_off_cmd=BASE, source_commits=[], add_only=True),
    engines=[dict(name="vt", path="/verif/vt", serves_properties=sorted(CHECKS), kind_free_text="contract-based deductive verification: CPython-hosted symbolic execution of the real functions (symbolic sizes/entries), sidecar contracts, canonical-form decision procedure + z3/cvc5")],
    checks=checks,
    notes="See DESIGN.md. Exit codes: 0 held, 1 VIOLATION, 2 UNDECIDED (never a violation), 3 checker error / vacuity guard.",
    not_applicable=na,
)
json.dump(man, open(os.path.join(ROOT, "MANIFEST.json"), "w"), indent=1)
try:
    import jsonschema
    jsonschema.validate(man, json.load(open("/root/.vp/MANIFEST.schema.json")))
    print("MANIFEST.json valid;", len(checks), "checks,", len(na), "not claimed")
except ImportError:
    print("written (jsonschema unavailable)")
