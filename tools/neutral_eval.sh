#!/bin/bash
# usage: tools/neutral_eval.sh <patch_dir> [tier]  -- false-alarm trial: applies a BEHAVIOUR-PRESERVING patch to a scratch worktree of /repo (never to /repo itself),
# runs every property's check against that tree (VT_REPO), removes the worktree.  Prints one line per check that is not clean (exit 1 = alarm, 2 = undecided, 3 = crash).
D=$1; TIER=${2:-quick}; N=$(basename $D)
WT=$(mktemp -d /tmp/neutral_wt_XXXX); rmdir $WT
git -C /repo worktree add --detach $WT HEAD >/dev/null 2>&1 || exit 9
(cd $WT && (git apply $D/patch.diff 2>/dev/null || git apply --3way $D/patch.diff >/dev/null 2>&1)) || { echo "$N: patch does not apply"; git -C /repo worktree remove --force $WT; exit 8; }
cd /verif
bad=0
for p in $(python3 -c "import json;print(' '.join(c['property_id'] for c in json.load(open('MANIFEST.json'))['checks']))"); do
  out=$(VT_REPO=$WT python3-vt -m vt.check $p --tier $TIER --no-evidence 2>&1); e=$?
  if [ $e -ne 0 ]; then bad=1; echo "$N $p exit=$e :: $(echo "$out" | grep -m2 '^VIOLATION\|^UNDECIDED\|^ERROR\|Traceback' | sed -E 's/replay=\S+ //' | cut -c1-400 | tr '\n' '|')"; fi
done
[ $bad -eq 0 ] && echo "$N all-clean"
git -C /repo worktree remove --force $WT; git -C /repo worktree prune
