#!/usr/bin/env python3
"""usage: tools/seed_rerecord.py <seed_dir> [...]  -- re-evaluates recorded seeds against the CURRENT /repo HEAD and the current checks without touching /repo
(scratch worktree + VT_REPO, so several can run in parallel) and stores the result in meta.json under "detected_on_final_tree"; the original "detected"
record (the tree and checks of the day the seed was recorded) is left as it is."""
import json, os, re, subprocess, sys, tempfile

def sh(cmd, **kw):
    return subprocess.run(cmd, shell=True, capture_output=True, text=True, **kw)

head = sh("git -C /repo log --format=%h -1").stdout.strip()
for d in sys.argv[1:]:
    d = os.path.abspath(d)
    name = os.path.basename(d)
    pid = name.split("_")[0]
    wt = tempfile.mkdtemp(prefix="seedrr_", dir="/tmp")
    os.rmdir(wt)
    if sh(f"git -C /repo worktree add --detach {wt} HEAD").returncode != 0:
        print(name, "worktree failed"); continue
    try:
        meta = json.load(open(f"{d}/meta.json"))
        if sh(f"cd {wt} && (git apply {d}/patch.diff || git apply --3way {d}/patch.diff)").returncode != 0:
            meta["detected_on_final_tree"] = dict(repo_head=head, status="the patch no longer applies (a later fix: commit rewrote the lines it edits)")
            print(name, "patch-does-not-apply")
        else:
            demo = sh(f"cd {wt} && PYTHONPATH={wt} /venv/bin/python {d}/demo.py").returncode
            chk = sh(f"cd /verif && VT_REPO={wt} python3-vt -m vt.check {pid} --tier quick --no-evidence")
            viol = re.findall(r"^VIOLATION .*?obligation=(.*?) :: ", chk.stdout, flags=re.M)
            meta["detected_on_final_tree"] = dict(repo_head=head, demo_exit_with_change=demo, exit_code=chk.returncode, violations=len(viol), obligations=viol[:8])
            print(name, "exit", chk.returncode, "violations", len(viol), "demo", demo)
        json.dump(meta, open(f"{d}/meta.json", "w"), indent=1, ensure_ascii=False)
    finally:
        sh(f"git -C /repo worktree remove --force {wt}; git -C /repo worktree prune")
