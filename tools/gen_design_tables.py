#!/usr/bin/env python3
"""Regenerates the generated parts of DESIGN.md (seed table of section 9, fix / known-finding lists of section 11) from /verif/seeded/*/meta.json,
KNOWN_FINDINGS.json and the /repo log."""
import glob, json, os, re, subprocess
ROOT = os.path.dirname(os.path.dirname(os.path.abspath(__file__)))
s = open(os.path.join(ROOT, "DESIGN.md")).read()
seeds = []
for d in sorted(glob.glob(os.path.join(ROOT, "seeded", "C*_*"))):
    m = json.load(open(d + "/meta.json"))
    det = m.get("detected", {})
    fin = m.get("detected_on_final_tree") or {}
    if fin.get("obligations"):      # re-evaluated against the final /repo HEAD and the final checks (tools/seed_rerecord.py)
        det = fin
    obs = det.get("obligations") or ["?"]
    proved = [o for o in obs if "/bounded/" not in o]
    ob = (proved or obs)[0]
    kind = "proof" if proved else "**B**"
    short = re.sub(r"\[.*", "", ob.split("/", 1)[1]) if "/" in ob else ob
    seeds.append((os.path.basename(d), m["breaks"].split(". ")[0][:150].replace("|", "/").replace("\n", " "), det.get("violations"), short[:110].replace("|", "/"), kind))
tab = "\n".join(f"| {a} | {b} | {c} | `{d}` | {e} |" for a, b, c, d, e in seeds)
head = "| seed | change (first sentence of meta.json) | violated | first detecting obligation (a proved one if any fired) | by |\n|------|--------------------------------------|----------|----------------------------|----|\n"
i = s.index(head) + len(head)
j = s.index("\n\n## 10.")
s = s[:i] + tab + s[j:]
n_b = sum(1 for x in seeds if x[4] == "**B**")
s = re.sub(r"\*\*All \d+ are detected\*\*", f"**All {len(seeds)} are detected**", s)
kf = json.load(open(os.path.join(ROOT, "KNOWN_FINDINGS.json")))
fixes = [l for l in subprocess.run("git -C /repo log --reverse --format='%h %s'", shell=True, capture_output=True, text=True).stdout.splitlines() if " fix:" in l]
fix_tab = "\n".join(f"* `{l.split()[0]}` {l.split(' ', 1)[1][5:].strip()}" for l in fixes)
kf_tab = "\n".join(f"* **{f['property']}** `{f['obligation']}` - {f['what']}" for f in kf["findings"])
a = s.index("`tools/run_all.sh`; they are recorded as `fixed:` lines in `/verif/KNOWN_FINDINGS.json` and suppress nothing.\n\n") + len("`tools/run_all.sh`; they are recorded as `fixed:` lines in `/verif/KNOWN_FINDINGS.json` and suppress nothing.\n\n")
b = s.index("\n\nRecorded, not repaired")
s = s[:a] + fix_tab + s[b:]
a = s.index("property is still reported because the entry matches one obligation name pattern and one failure text):\n\n") + len("property is still reported because the entry matches one obligation name pattern and one failure text):\n\n")
b = s.index("\n\nObserved, outside the properties' quantifiers")
s = s[:a] + kf_tab + s[b:]
open(os.path.join(ROOT, "DESIGN.md"), "w").write(s)
print(len(seeds), "seeds,", n_b, "first detected by a bounded stand-in;", len(fixes), "fix commits;", len(kf["findings"]), "known findings")
