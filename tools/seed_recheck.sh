#!/bin/bash
# usage: tools/seed_recheck.sh <seed_dir> [...]  -- re-evaluates recorded seeds against the CURRENT /repo HEAD without touching /repo: scratch worktree, apply the
# seed's patch (3-way fallback), run the broken property's quick check against that tree (VT_REPO).  One line per seed: detected / MISSED / patch-does-not-apply.
cd /verif
for D in "$@"; do
  N=$(basename $D); P=${N%%_*}
  WT=$(mktemp -d /tmp/seedre_wt_XXXX); rmdir $WT
  git -C /repo worktree add --detach $WT HEAD >/dev/null 2>&1 || { echo "$N: worktree failed"; continue; }
  if (cd $WT && (git apply $D/patch.diff 2>/dev/null || git apply --3way $D/patch.diff >/dev/null 2>&1)); then
    (cd $WT && PYTHONPATH=$WT /venv/bin/python $D/demo.py >/dev/null 2>&1); DM=$?
    out=$(VT_REPO=$WT python3-vt -m vt.check $P --tier quick --no-evidence 2>&1); e=$?
    nv=$(echo "$out" | grep -c '^VIOLATION')
    if [ $e -eq 1 ]; then echo "$N: detected (exit 1, $nv violations, demo=$DM)"; else echo "$N: NOT-DETECTED exit=$e demo=$DM"; fi
  else
    echo "$N: patch-does-not-apply"
  fi
  git -C /repo worktree remove --force $WT >/dev/null 2>&1; git -C /repo worktree prune
done
