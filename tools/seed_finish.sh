#!/bin/bash
# usage: tools/seed_finish.sh <worktree> <PID>  -- confirm every <worktree>/_seeded/<PID>_* against the full test-suite, copy to /verif/seeded, record detection, remove the worktree
WT=$1; PID=$2
[ -n "$SKIP_CONFIRM" ] || /verif/tools/seed_confirm.sh $WT $PID > /dev/null 2>&1
for D in $WT/_seeded/${PID}_*; do
  if grep -q "pytest_exit=1" $D/confirm.txt; then
    # a flaky unseeded test may have stopped the -x run: re-run the whole suite once without -x
    (cd $WT && git checkout -q -- . && git apply $D/patch.diff && /venv/bin/python -m pytest -q -p no:cacheprovider --timeout=900 --deselect tensorly/datasets/tests/test_imports.py::test_indian_pines --deselect tensorly/tests/test_backend.py::test_svd_time tensorly > $D/pytest2.out 2>&1; git checkout -q -- .)
    echo "$(cat $D/confirm.txt) ; re-run without -x: $(tail -1 $D/pytest2.out)" > $D/confirm.txt
  fi
  T=/verif/seeded/$(basename $D); mkdir -p $T; cp $D/patch.diff $D/demo.py $D/meta.json $D/confirm.txt $T/
done
cd /verif && python3-vt tools/seed_record.py seeded/${PID}_${SEEDGLOB:-[456]} 2>&1
git -C /repo worktree remove --force $WT; git -C /repo worktree prune
echo FINISHED $PID
