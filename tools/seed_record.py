#!/usr/bin/env python3
"""usage: tools/seed_record.py <seed_dir> [...]  -- for each /verif/seeded/<PID>_<i>: apply the patch to /repo, run the property's quick check,
revert, and record in meta.json what the author of the checks confirmed and which obligations reported the change."""
import json, os, re, subprocess, sys

def sh(cmd, **kw):
    return subprocess.run(cmd, shell=True, capture_output=True, text=True, **kw)

for d in sys.argv[1:]:
    d = os.path.abspath(d)
    pid = os.path.basename(d).split("_")[0]
    if sh("git -C /repo diff --quiet").returncode != 0:
        sys.exit("REPO DIRTY")
    if sh(f"git -C /repo apply {d}/patch.diff").returncode != 0:
        print(d, "patch does not apply"); continue
    try:
        demo_mut = sh(f"cd /repo && PYTHONPATH=/repo /venv/bin/python {d}/demo.py").returncode
        chk = sh(f"cd /verif && python3-vt -m vt.check {pid} --tier quick --no-evidence")
    finally:
        sh("git -C /repo checkout -- .")
    demo_clean = sh(f"cd /repo && PYTHONPATH=/repo /venv/bin/python {d}/demo.py").returncode
    viol = re.findall(r"^VIOLATION .*?obligation=(.*?) :: ", chk.stdout, flags=re.M)
    meta = json.load(open(f"{d}/meta.json"))
    confirm = open(f"{d}/confirm.txt").read().strip() if os.path.exists(f"{d}/confirm.txt") else ""
    meta["confirmed_by_check_author"] = dict(test_suite_with_change=confirm, demo_exit_with_change=demo_mut, demo_exit_clean=demo_clean,
                                             how="tools/seed_confirm.sh (full test-suite in the scratch worktree with the change applied) and tools/seed_record.py (git -C /repo apply; demo; check; git -C /repo checkout -- .)")
    meta["detected"] = dict(check=f"python3-vt -m vt.check {pid} --tier quick", exit_code=chk.returncode, violations=len(viol), obligations=viol[:6])
    json.dump(meta, open(f"{d}/meta.json", "w"), indent=1, ensure_ascii=False)
    print(os.path.basename(d), "demo", demo_mut, demo_clean, "check_exit", chk.returncode, "violations", len(viol))
