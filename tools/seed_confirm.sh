#!/bin/bash
# usage: tools/seed_confirm.sh <worktree> <PID>   -- for every <worktree>/_seeded/<PID>_*: apply in the worktree, run the full test-suite, revert; writes confirm.txt
WT=$1; PID=$2
cd $WT || exit 9
for D in $WT/_seeded/${PID}_*; do
  git checkout -q -- . ; git apply $D/patch.diff || { echo "patch does not apply" > $D/confirm.txt; continue; }
  /venv/bin/python -m pytest -q -p no:cacheprovider --timeout=900 -x --deselect tensorly/datasets/tests/test_imports.py::test_indian_pines --deselect tensorly/tests/test_backend.py::test_svd_time tensorly > $D/pytest.out 2>&1
  RC=$?
  PYTHONPATH=$WT /venv/bin/python $D/demo.py > $D/demo_mut.out 2>&1; DM=$?
  git checkout -q -- .
  PYTHONPATH=$WT /venv/bin/python $D/demo.py > $D/demo_clean.out 2>&1; DC=$?
  echo "pytest_exit=$RC ($(tail -1 $D/pytest.out)) demo_mutated_exit=$DM demo_clean_exit=$DC" > $D/confirm.txt
done
echo CONFIRM-DONE $WT $PID
