"""The symbolic tensorly backend for engine E1-generic, and the module-global shadows (DESIGN §2.1).

`symbolic_session()` registers a GBackend instance through tensorly's own `set_backend` (public API) and
injects the shadows into every imported tensorly module; on exit everything is restored.
"""
import builtins
import contextlib
import math
import sys
import types
import warnings

import numpy as np

from . import gtensor as G
from . import expr as X
from .gtensor import GTensor
from .symint import SInt, EngineError, NeedsConcrete, sprod

warnings.filterwarnings("ignore", message="Creating a subclass of BaseBackend")

import tensorly  # noqa: E402
from tensorly.backend.core import Backend  # noqa: E402



def _is_concrete(x):
    """plain Python / numpy numbers (or nested lists of them): no symbolic tensor, scalar or size involved"""
    if isinstance(x, (builtins.int, float, complex, np.number, np.bool_)):
        return True
    if isinstance(x, np.ndarray):
        return x.dtype != object
    if isinstance(x, (list, tuple)):
        return len(x) > 0 and builtins.all(_is_concrete(e) for e in x)
    return False


class GBackend(Backend, backend_name="vtsym"):
    """Contracts of the numerical primitives on GTensors.  Anything not defined here raises EngineError
    (=> undecided), never a silent default."""

    # ---- attributes
    int64 = "int64"
    int32 = "int32"
    float64 = "float64"
    float32 = "float32"
    complex128 = "complex128"
    complex64 = "complex64"
    pi = math.pi
    e = math.e
    inf = float("inf")
    nan = float("nan")

    def __init__(self):
        self.opaque_log = []

    @staticmethod
    def context(tensor):
        return {"dtype": tensor.dtype}

    @staticmethod
    def tensor(data, dtype=None, **kw):
        if isinstance(data, GTensor):
            return data if dtype is None else data.astype(dtype)
        if isinstance(data, (list, tuple, np.ndarray)) and dtype is not None and str(dtype).startswith("int") and all(isinstance(x, (builtins.int, np.integer)) for x in np.ravel(np.asarray(data, dtype=object))):
            return np.asarray(data, dtype=dtype)  # a concrete integer index vector stays concrete
        t = G.lift(data)
        if dtype is not None:
            t = t.astype(dtype)
        elif isinstance(data, (list, tuple, np.ndarray)):
            t = t.astype(np.asarray(data).dtype if not isinstance(data, np.ndarray) else data.dtype)
        return t

    @staticmethod
    def is_tensor(obj):
        return isinstance(obj, GTensor)

    @staticmethod
    def shape(tensor):
        return tuple(tensor.shape)

    @staticmethod
    def ndim(tensor):
        return tensor.ndim

    @staticmethod
    def to_numpy(tensor):
        raise NeedsConcrete("to_numpy of a symbolic tensor")

    @staticmethod
    def copy(tensor):
        G.log("copy")
        return tensor.copy()

    reshape = staticmethod(G.reshape)
    conj = staticmethod(lambda t, *a, **k: G.conj(G.lift(t)))
    dot = staticmethod(G.dot)
    matmul = staticmethod(G.matmul)
    tensordot = staticmethod(G.tensordot)
    einsum = staticmethod(G.einsum)
    eye = staticmethod(G.eye)
    diag = staticmethod(G.diag)
    stack = staticmethod(G.stack)
    sqrt = staticmethod(G.g_sqrt)
    sign = staticmethod(G.g_sign)

    @staticmethod
    def abs(t):
        return G.g_abs(G.lift(t))

    @staticmethod
    def transpose(tensor, axes=None):
        return G.transpose(tensor, axes)

    @staticmethod
    def moveaxis(tensor, source, destination):
        # contract of numpy.moveaxis (the callable NumpyBackend registers): ints or sequences of ints, negative positions allowed
        nd = len(tensor.shape)
        src = [source] if isinstance(source, int) else list(source)
        dst = [destination] if isinstance(destination, int) else list(destination)
        if len(src) != len(dst):
            raise ValueError("`source` and `destination` arguments must have the same number of elements")
        for a in src + dst:
            if not -nd <= a < nd:
                raise ValueError(f"axis {a} is out of bounds for array of dimension {nd}")
        src = [a % nd for a in src]
        dst = [a % nd for a in dst]
        if len(set(src)) != len(src) or len(set(dst)) != len(dst):
            raise ValueError("repeated axis")
        order = [n for n in range(nd) if n not in src]
        for d_, s_ in sorted(zip(dst, src)):
            order.insert(d_, s_)
        return G.transpose(tensor, order)

    @staticmethod
    def ones(shape, dtype=None, **kw):
        return G.ones(shape, dtype or "float64")

    @staticmethod
    def zeros(shape, dtype=None, **kw):
        return G.zeros(shape, dtype or "float64")

    @staticmethod
    def zeros_like(tensor):
        return G.zeros(tensor.shape, tensor.dtype)

    @staticmethod
    def sum(tensor, axis=None, keepdims=False):
        return G.g_sum(tensor, axis, keepdims)

    @staticmethod
    def mean(tensor, axis=None):
        return G.g_mean(tensor, axis)

    @staticmethod
    def index_update(tensor, indices, values):
        return G.index_update(tensor, indices, values)

    where = staticmethod(G.where)
    trace = staticmethod(G.trace)
    concatenate = staticmethod(G.concatenate)
    finfo = staticmethod(np.finfo)

    @staticmethod
    def clip(tensor, a_min=None, a_max=None):
        lo = -float("inf") if a_min is None else a_min
        hi = float("inf") if a_max is None else a_max
        return G.elementwise("clip", tensor, lo, hi)

    @staticmethod
    def all(tensor):
        db = G.DataBool("all", tensor, None)
        if isinstance(tensor, G.ElemCond) and tensor.op == "==" and isinstance(tensor.rhs, (builtins.int, float)):
            # `if tl.all(w == c)`: on the True branch every entry of w equals c; when w is a plain symbolic input this fact
            # is used as a rewriting hypothesis for the rest of the path
            lt = G.lift(tensor.lhs).body.terms
            if len(lt) == 1 and not lt[0].facs and not lt[0].bound:
                return lt[0].coef == tensor.rhs  # a constant tensor: decided without a fork
            val = bool(db)
            if val:
                try:
                    X.CONST_INPUTS[G.name_of(tensor.lhs)] = tensor.rhs
                except EngineError:
                    pass
            return val
        return db

    @staticmethod
    def prod(tensor, axis=None):
        """product over axes of concrete size (expanded); symbolic sizes are outside the fragment"""
        G.log("prod")
        t = G.inst(G.lift(tensor))
        axs = G._axes_list(t, axis)
        body = t.body
        for a in axs:
            for v in t.axes[a]:
                n = G.VSIZE[v]
                if isinstance(n, SInt) and not n.is_const():
                    raise EngineError("prod over an axis of symbolic size")
                acc = None
                for k in range(builtins.int(n)):
                    term = body.subst({v: k})
                    acc = term if acc is None else acc * X.rename_apart(term)
                body = acc if acc is not None else X.const(1)
        return G.GTensor([ax for i, ax in enumerate(t.axes) if i not in axs], body, t.dtype)

    @staticmethod
    def any(tensor, *a, **k):
        return G.DataBool("any", tensor, None)

    @staticmethod
    def max(tensor, axis=None):
        G.log("max")
        if _is_concrete(tensor):
            return np.max(tensor, axis=axis)   # concrete numbers: what the numpy backend computes
        if axis is not None:
            raise EngineError("max along an axis in E1-generic")
        return G.opaque_scalar("max", G.lift(tensor))

    @staticmethod
    def min(tensor, axis=None):
        G.log("min")
        if _is_concrete(tensor):
            return np.min(tensor, axis=axis)
        if axis is not None:
            raise EngineError("min along an axis in E1-generic")
        return G.opaque_scalar("min", G.lift(tensor))

    @staticmethod
    def arange(start=0, stop=None, step=None):
        return np.arange(start, stop, step) if stop is not None else np.arange(start)

    # ---- linear-algebra dependencies: opaque results (fresh symbolic tensors) + a log of call sites.
    #      Their contracts (A3) are used by obligations as hypotheses; the arguments at each call site are what
    #      C07-style obligations constrain.
    def solve(self, a, b):
        G.log("solve")
        a, b = G.lift(a), G.lift(b)
        if a.ndim != 2 or not (G.same(a.shape[0], a.shape[1]) or bool(G.SInt.lift(a.shape[0]) == a.shape[1])):
            raise ValueError("Last 2 dimensions of the array must be square")
        if not (G.same(a.shape[1], b.shape[0]) or bool(G.SInt.lift(a.shape[1]) == b.shape[0])):
            raise ValueError("solve: Input operand 1 has a mismatch in its core dimension 0")
        x = G.opaque_tensor("SOL", G.axis_sizes(b), G._result_dtype(a, b))
        G.LA_LOG.append(dict(op="solve", A=a, B=b, X=x, at=G.caller_snapshot()))
        return x

    def lstsq(self, a, b, rcond=None):
        G.log("lstsq")
        a, b = G.lift(a), G.lift(b)
        if not (G.same(a.shape[0], b.shape[0]) or bool(G.SInt.lift(a.shape[0]) == b.shape[0])):
            raise ValueError("Incompatible dimensions")
        x = G.opaque_tensor("LSQ", [G.axis_sizes(a)[1]] + G.axis_sizes(b)[1:], G._result_dtype(a, b))
        G.LA_LOG.append(dict(op="lstsq", A=a, B=b, X=x, at=G.caller_snapshot()))
        res = G.opaque_tensor("LSQRES", list(b.shape[1:]) if b.ndim > 1 else [], "float64")
        return x, res, None, None

    def qr(self, a, mode="reduced"):
        """contract (A3): a = Q R with Q having orthonormal columns (reduced QR of a tall matrix)"""
        G.log("qr")
        a = G.lift(a)
        m, n = a.shape
        if not (G.same(m, n) or bool(G.SInt.lift(m) >= n)):
            raise EngineError("qr of a wide symbolic matrix")
        Q = G.opaque_tensor("QRQ", [G.axis_sizes(a)[0], G.axis_sizes(a)[1]], a.dtype, ortho_axis=0)
        Rm = G.opaque_tensor("QRR", [G.axis_sizes(a)[1], G.axis_sizes(a)[1]], a.dtype)
        try:
            G.register_factorisation((G.name_of(Q), G.name_of(Rm)), a)
        except EngineError:
            pass
        G.LA_LOG.append(dict(op="qr", A=a, Q=Q, R=Rm, at=G.caller_snapshot()))
        return Q, Rm

    @staticmethod
    def check_random_state(seed):
        """Symbolic runs: the generator returns arbitrary (opaque) tensors, so 'random initialisation' means 'any value'."""
        if RNG["track"]:
            from tensorly.backend.core import Backend as _B
            return _B.check_random_state(seed)  # the real function (its np.random is the tracked proxy)
        return SymRng(seed)

    randn = Backend.randn  # the real method: check_random_state + a draw + tensor()

    def __getattr__(self, name):
        # Backend defines stubs raising NotImplementedError for everything; reaching here means truly unknown
        raise EngineError(f"backend primitive {name!r} has no contract in E1-generic")


RNG_LOG = []      # effect log of the tracked generators (C16): dict(ev=new|draw|seed|state, gen=..., ...)
RNG = {"track": False, "global": None}


class SymRng:
    """Stands for numpy.random.RandomState: draws return arbitrary (opaque) tensors and are logged with the generator they were made on."""

    def __init__(self, seed=None, *, _role="constructed"):
        self.seed_value = seed
        self.role = _role          # constructed (RandomState(seed) in the code under proof) | global (np.random.mtrand._rand) | user (supplied by the caller)
        self.draws = []
        if _role == "constructed":
            RNG_LOG.append(dict(ev="new", gen=self, seed=seed))

    def _log(self, kind, shape):
        self.draws.append((kind, tuple(shape)))
        RNG_LOG.append(dict(ev="draw", gen=self, kind=kind, shape=tuple(shape)))

    def _draw(self, kind, shape):
        shape = [shape] if isinstance(shape, (builtins.int, SInt)) else list(shape)
        self._log(kind, shape)
        return G.opaque_tensor("RND", shape, "float64")

    def randn(self, *shape):
        return self._draw("randn", shape)

    def random_sample(self, size=None):
        return self._draw("random_sample", size if size is not None else [])

    random = ranf = sample = random_sample

    def rand(self, *shape):
        return self._draw("rand", shape)

    def standard_normal(self, size=None):
        return self._draw("standard_normal", size if size is not None else [])

    def normal(self, loc=0.0, scale=1.0, size=None):
        return self._draw("normal", size if size is not None else [])

    def uniform(self, low=0.0, high=1.0, size=None):
        return self._draw("uniform", size if size is not None else [])

    def randint(self, low, high=None, size=None, dtype=int):
        shape = [size] if isinstance(size, (builtins.int, SInt)) else list(size or [])
        self._log("randint", shape)
        return G.opaque_tensor("RNDI", shape, "int64")

    def choice(self, a, size=None, replace=True, p=None):
        if not RNG["track"]:
            raise EngineError("rng.choice in E1-generic")
        shape = [size] if isinstance(size, (builtins.int, SInt)) else list(size or [])
        self._log("choice", shape)
        return G.opaque_tensor("RNDI", shape, "int64")

    def permutation(self, x):
        self._log("permutation", [x] if isinstance(x, (builtins.int, SInt)) else [len(x)])
        raise EngineError("rng.permutation in E1-generic")

    def shuffle(self, x):
        self._log("shuffle", [])
        raise EngineError("rng.shuffle in E1-generic")

    def seed(self, seed=None):
        RNG_LOG.append(dict(ev="seed", gen=self, seed=seed))

    def get_state(self, *a, **k):
        RNG_LOG.append(dict(ev="get_state", gen=self))
        return ("MT19937", None, 0, 0, 0.0)

    def set_state(self, *a, **k):
        RNG_LOG.append(dict(ev="set_state", gen=self))


class _RandomProxy(types.ModuleType):
    """`np.random` for the code under proof while RNG tracking is on: the global generator and RandomState are tracked objects;
    module-level draw functions are draws on the global generator."""

    def __init__(self):
        super().__init__("numpy_random_proxy")
        self.RandomState = SymRng

    @property
    def mtrand(self):
        return types.SimpleNamespace(_rand=global_rng(), RandomState=SymRng)

    def __getattr__(self, name):
        if name in ("random_sample", "random", "ranf", "sample", "rand", "randn", "standard_normal", "normal", "uniform", "randint", "choice", "permutation", "shuffle",
                    "seed", "get_state", "set_state"):
            return getattr(global_rng(), name)
        raise EngineError(f"np.random.{name} has no contract in the RNG effect model")


def global_rng():
    if RNG["global"] is None:
        RNG["global"] = SymRng(_role="global")
    return RNG["global"]


RANDOM_PROXY = _RandomProxy()


@contextlib.contextmanager
def rng_tracking():
    """C16: run the code under proof with tracked generators; tensorly.backend.core's own `np` is shadowed too, so the REAL check_random_state is executed."""
    import tensorly.backend.core as core
    old_np = core.np
    RNG["track"], RNG["global"] = True, None
    del RNG_LOG[:]
    core.np = NP_PROXY
    try:
        yield RNG_LOG
    finally:
        core.np = old_np
        RNG["track"], RNG["global"] = False, None


# every Backend stub that we did not override must become "undecided", not NotImplementedError
def _undecided(name):
    def f(*a, **k):
        vals = list(a) + list(k.values())
        if vals and not any(isinstance(v, (GTensor, SInt)) or (isinstance(v, (list, tuple)) and any(isinstance(x, (GTensor, SInt)) for x in v)) for v in vals):
            # concrete arguments (index vectors, permutations, shapes): the callable the numpy backend registers, i.e. what runs natively
            from tensorly.backend.numpy_backend import NumpyBackend
            real = NumpyBackend.__dict__.get(name)
            real = getattr(real, "__func__", real)
            if real is not None:
                return real(*a, **k)
        raise EngineError(f"backend primitive {name!r} has no contract in E1-generic")

    return staticmethod(f)


for _n in ("max", "min", "argmax", "argmin", "cumsum", "count_nonzero",
           "maximum", "minimum", "svd", "eigh", "sort", "argsort", "flip", "log", "log2",
           "exp", "logsumexp", "sin", "cos", "tan", "kron_", "randn", "gamma"):
    if _n not in GBackend.__dict__:
        setattr(GBackend, _n, _undecided(_n))


# ------------------------------------------------------------------------------------------------ shadows
class _IntMeta(type):
    def __instancecheck__(cls, x):
        return isinstance(x, (builtins.int, SInt))


class sym_int(builtins.int, metaclass=_IntMeta):
    """`int` for tensorly modules: passes SInt through; isinstance(x, int) accepts SInt."""

    def __new__(cls, x=0, *a):
        if isinstance(x, SInt):
            return x
        if isinstance(x, GTensor):
            raise NeedsConcrete("int() of symbolic data")
        return builtins.int(x, *a)


def sym_prod(it, start=1):
    r = start
    for x in it:
        r = r * x
    return r


def sym_sqrt(x):
    if isinstance(x, GTensor):
        return G.g_sqrt(x)
    if isinstance(x, SInt):
        return G.g_sqrt(G.lift(x))
    return math.sqrt(x)


class _NpProxy(types.ModuleType):
    """`np` for tensorly modules: concrete arguments go to numpy, symbolic ones to the symbolic implementation."""

    def __init__(self):
        super().__init__("numpy_proxy")

    def __getattr__(self, name):
        if name == "random" and RNG["track"]:
            return RANDOM_PROXY
        return getattr(np, name)

    @staticmethod
    def prod(a, *args, **kw):
        if isinstance(a, GTensor):
            raise EngineError("np.prod of symbolic tensor")
        try:
            items = list(a)
        except TypeError:
            return np.prod(a, *args, **kw)
        if any(isinstance(x, SInt) for x in items):
            return sym_prod(items)
        return np.prod(a, *args, **kw)

    @staticmethod
    def sum(a, *args, **kw):
        if isinstance(a, GTensor):
            return G.g_sum(a, *args, **kw)
        try:
            items = list(a)
        except TypeError:
            return np.sum(a, *args, **kw)
        if any(isinstance(x, SInt) for x in items):
            return builtins.sum(items)
        return np.sum(a, *args, **kw)

    @staticmethod
    def sqrt(x):
        if isinstance(x, (GTensor, SInt)):
            return sym_sqrt(x)
        return np.sqrt(x)

    @staticmethod
    def ones(shape, *a, **kw):
        items = [shape] if isinstance(shape, (builtins.int, SInt)) else list(shape)
        if any(isinstance(x, SInt) for x in items):
            return G.ones(shape)
        return np.ones(shape, *a, **kw)

    @staticmethod
    def zeros(shape, *a, **kw):
        items = [shape] if isinstance(shape, (builtins.int, SInt)) else list(shape)
        if any(isinstance(x, SInt) for x in items):
            return G.zeros(shape)
        return np.zeros(shape, *a, **kw)

    @staticmethod
    def eye(n, *a, **kw):
        if isinstance(n, SInt):
            return G.eye(n)
        return np.eye(n, *a, **kw)


NP_PROXY = _NpProxy()

SHADOWS = {
    "int": sym_int,
}
MATH_SHADOWS = {"prod": sym_prod, "sqrt": sym_sqrt}


def _tensorly_modules():
    for name, mod in list(sys.modules.items()):
        if (name == "tensorly" or name.startswith("tensorly.")) and mod is not None and hasattr(mod, "__dict__"):
            yield name, mod


def install_shadows():
    """Inject shadows into every imported tensorly module.  Returns an undo list."""
    undo = []
    for name, mod in _tensorly_modules():
        if name.startswith("tensorly.backend") and name != "tensorly.backend":
            continue
        d = mod.__dict__
        for k, v in SHADOWS.items():
            undo.append((d, k, d.get(k, _MISSING)))
            d[k] = v
        if d.get("np") is np:
            undo.append((d, "np", np))
            d["np"] = NP_PROXY
        for k, v in MATH_SHADOWS.items():
            cur = d.get(k, _MISSING)
            if cur is getattr(math, k):
                undo.append((d, k, cur))
                d[k] = v
        if d.get("math") is math:
            undo.append((d, "math", math))
            d["math"] = _MATH_PROXY
    return undo


class _MathProxy(types.ModuleType):
    def __init__(self):
        super().__init__("math_proxy")

    def __getattr__(self, name):
        return getattr(math, name)

    prod = staticmethod(sym_prod)
    sqrt = staticmethod(sym_sqrt)


_MATH_PROXY = _MathProxy()
_MISSING = object()


def remove_shadows(undo):
    for d, k, old in reversed(undo):
        if old is _MISSING:
            d.pop(k, None)
        else:
            d[k] = old


def shadows_in_force():
    return ["int -> vt.gbackend.sym_int (SInt passes through; isinstance(x,int) accepts SInt)",
            "np -> NP_PROXY (prod,sum,sqrt,ones,zeros,eye symbolic-aware; everything else numpy)",
            "math.prod / math.sqrt (names bound by `from math import ...` and `math` module attribute) -> symbolic-aware"]


def import_all():
    """Import the tensorly modules under proof so the shadows reach them."""
    import tensorly.base, tensorly.cp_tensor, tensorly.tucker_tensor, tensorly.tt_tensor, tensorly.tr_tensor  # noqa
    import tensorly.tt_matrix, tensorly.parafac2_tensor, tensorly.tenalg, tensorly.decomposition  # noqa
    import tensorly.regression, tensorly.metrics, tensorly.preprocessing, tensorly.random  # noqa
    import tensorly.tenalg.proximal, tensorly.solvers.nnls, tensorly.solvers.admm  # noqa
    import tensorly.regression.cp_regression, tensorly.regression.tucker_regression, tensorly.regression.cp_plsr  # noqa


@contextlib.contextmanager
def symbolic_session(backend=None, tenalg=None):
    """Run real tensorly code on symbolic tensors: registers the backend through tensorly.set_backend and
    installs the shadows; restores the previous backend and module globals afterwards."""
    import tensorly as tl
    import tensorly.tenalg as tenalg_mod

    import_all()
    be = backend or GBackend()
    old = tl.backend.BackendManager.current_backend() if hasattr(tl.backend, "BackendManager") else tl.current_backend()
    old_tenalg = tenalg_mod.get_backend()
    undo = install_shadows()
    tl.set_backend(be)
    if tenalg is not None:
        tenalg_mod.set_backend(tenalg)
    try:
        yield be
    finally:
        remove_shadows(undo)
        tl.set_backend(old)
        tenalg_mod.set_backend(old_tenalg)
