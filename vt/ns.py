"""Spec namespaces: the same spec / postcondition code runs symbolically (SymNS, GTensors) and numerically
(NumNS, numpy — used for concretisation, replay and the engine soundness monitor).

Specs are index formulas: `S.einsum` with explicit subscripts, `S.group` to lay output letters out into axes
(mixed radix, row-major).  NumNS uses only numpy; it shares no code with /repo.
"""
import builtins
from fractions import Fraction

import numpy as np

from . import gtensor as G
from . import expr as X
from .gtensor import GTensor
from .expr import VSIZE
from .symint import SInt, sprod


class SymNS:
    name = "sym"

    def __init__(self):
        self.inputs = {}

    # -- inputs
    def input(self, name, dims, dtype="float64", nonneg=False):
        t = G.sym_input(name, dims, dtype)
        self.inputs[name] = t
        if nonneg:
            X.NONNEG_INPUTS.add(name)
        else:
            X.NONNEG_INPUTS.discard(name)
        return t

    def is_nonneg(self, t):
        """entrywise >= 0 in the float-robust sign domain (non-negative by construction)"""
        if t is None:
            return True
        return X.sign_nonneg(G.lift(t).body)

    def int_input(self, name, dims, high):
        """symbolic integer-valued input with values in [0, high)"""
        t = G.sym_input(name, dims, "int64")
        self.inputs[name] = t
        return t

    def take(self, t, axis, i):
        """t[..., i, ...] for a concrete int i"""
        n = len(G.PRIM_LOG)
        ix = [slice(None)] * t.ndim
        ix[axis] = int(i)
        r = G.getitem(t, tuple(ix))
        del G.PRIM_LOG[n:]
        return r

    def stack(self, ts, axis=0):
        n = len(G.PRIM_LOG)
        r = G.stack(ts, axis)
        del G.PRIM_LOG[n:]
        return r

    def gather(self, t, axis, idx):
        n = len(G.PRIM_LOG)
        ix = [slice(None)] * t.ndim
        ix[axis] = idx
        r = G.getitem(t, tuple(ix))
        del G.PRIM_LOG[n:]
        return r

    # -- index formulas
    def einsum(self, sub, *ops):
        n = len(G.PRIM_LOG)
        r = G.einsum(sub, *ops)
        del G.PRIM_LOG[n:]
        return r

    def group(self, t, groups):
        """Regroup axes: groups = list of lists of axis numbers of t; result axis k = row-major merge of them."""
        t = G.lift(t)
        return GTensor([[v for a in g for v in t.axes[a]] for g in groups], t.body, t.dtype)

    def conj(self, t):
        t = G.lift(t)
        return GTensor(t.axes, t.body.conj(), t.dtype)

    def sqrt(self, t):
        t = G.lift(t)
        return GTensor(t.axes, t.body.power(Fraction(1, 2)), t.dtype)

    def abs(self, t):
        t = G.lift(t)
        return GTensor(t.axes, X.func("abs", t.body), t.dtype)

    def unabs(self, t):
        """t == abs(E) (a single abs atom): returns E, so that an obligation `E == sum of squares` also gives abs(E) == E"""
        t = G.lift(t)
        ts = t.body.terms
        if len(ts) == 1 and ts[0].coef == 1 and not ts[0].bound and len(ts[0].facs) == 1:
            a, e = ts[0].facs[0]
            if a[0] == "F" and a[1] == "abs" and e == 1:
                return GTensor(t.axes, X.rename_apart(a[2][0]), t.dtype)
        return t

    def cleared(self, got, want):
        """(got*M, want*M) with M the product of every sub-expression that occurs with a negative power in got or want
        (clearing denominators: valid under the obligation's side condition that those quantities are non-zero)."""
        got, want = G.lift(got), G.lift(want)
        need = {}
        for t in (got, want):
            for term in t.body.terms:
                for s_ in X.simplify_term(term):
                    for a, e in s_.facs:
                        if a[0] == "P" and e < 0:
                            need[a] = max(need.get(a, 0), -e)
        if not need:
            return got, want
        M = X.Expr([X.Term(1, (), list(need.items()))])
        return GTensor(got.axes, got.body * M, got.dtype), GTensor(want.axes, want.body * M, want.dtype)

    def resolve_abs(self, t, candidates):
        """Replace abs(A) by A for every abs atom whose argument is proved (canonical form) equal to one of the candidate
        tensors, each of which is a sum of squares by construction (built with sumsq)."""
        t = G.lift(t)
        keys = [X.expr_key(G.lift(c).body) for c in candidates]

        def fix_term(term):
            out = [X.Term(term.coef, term.bound, [])]
            for a, e in term.facs:
                rep = None
                if a[0] == "F" and a[1] == "abs" and X.expr_key(a[2][0]) in keys:
                    rep = X.rename_apart(a[2][0]).power(e) if e.denominator == 1 and e > 0 else X.Expr([X.Term(1, (), [(("P", a[2][0]), e)])])
                fac = rep if rep is not None else X.Expr([X.Term(1, (), [(a, e)])])
                out = [X.t_mul(x, y) for x in out for y in fac.terms]
            return out
        terms = []
        for term in t.body.terms:
            for s_ in X.simplify_term(term):
                terms.extend(fix_term(s_))
        return GTensor(t.axes, X.Expr(terms), t.dtype)

    def sumsq(self, t):
        """sum of |t|^2 over all entries (a scalar)"""
        t = G.inst(G.lift(t))
        b = t.body * X.rename_apart(t.body.conj())
        for v in t.digits():
            b = b.sum_over(v)
        return GTensor([], b, t.dtype)

    def sum(self, t, axis=None):
        n = len(G.PRIM_LOG)
        r = G.g_sum(t, axis)
        del G.PRIM_LOG[n:]
        return r

    def size(self, s):
        return GTensor([], X.size_expr(s), "float64")

    def scalar(self, c):
        return GTensor([], X.as_expr(c), "float64")

    def shape(self, t):
        return tuple(t.shape)

    def ones(self, shape, dtype="float64"):
        n = len(G.PRIM_LOG)
        r = G.ones(shape, dtype)
        del G.PRIM_LOG[n:]
        return r

    def eye(self, n_, dtype="float64"):
        n = len(G.PRIM_LOG)
        r = G.eye(n_, dtype)
        del G.PRIM_LOG[n:]
        return r

    def prefix(self, t, axis, k):
        """t restricted to indices < k along `axis` (k <= size assumed by the caller's precondition)."""
        n = len(G.PRIM_LOG)
        idx = [slice(None)] * t.ndim
        idx[axis] = slice(None, k)
        r = G.getitem(t, tuple(idx))
        del G.PRIM_LOG[n:]
        return r

    def pad_to(self, t, axis, n):
        """zero-extend along `axis` to size n"""
        t = G.inst(G.lift(t))
        ax = t.axes[axis]
        if len(ax) != 1:
            raise G.EngineError("pad of composite axis")
        v = X.fresh(n, "z")
        body = t.body.subst({ax[0]: v}) * X.indicator(v, VSIZE[ax[0]])
        axes = list(t.axes)
        axes[axis] = [v]
        return GTensor(axes, body, t.dtype)


class NumNS:
    name = "num"

    def __init__(self, env, rng, complex_=False):
        self.env = env
        self.rng = rng
        self.complex = complex_
        self.inputs = {}
        self.recorded = {}
        self._cnt = {}
        self.scale = 1.0

    def record(self, prefix, value):
        """native counterpart of an opaque tensor: stubs record what the real dependency returned, in call order"""
        k = self._cnt.get(prefix, 0)
        self._cnt[prefix] = k + 1
        self.recorded[f"{prefix}#{k}"] = np.array(value, copy=True)
        return value

    def _c(self, s):
        return builtins.int(SInt.lift(s).subs(self.env))

    def is_nonneg(self, t):
        if t is None:
            return True
        a = np.asarray(t, dtype=float)
        return bool(np.all(a >= 0)) and bool(np.all(np.isfinite(a)))

    def input(self, name, dims, dtype="float64", nonneg=False):
        shape = []
        for d in dims:
            grp = d if isinstance(d, (list, tuple)) else [d]
            shape.append(builtins.int(np.prod([self._c(s) for s in grp])) if grp else 1)
        a = self.rng.standard_normal(shape)
        # odd seeds draw small-norm data, multiples of 4 large-norm data (defects that depend on ||X|| vs 1 need this)
        a = a * getattr(self, "scale", 1.0)
        if nonneg:
            a = np.abs(a)
        if str(dtype).startswith("complex"):
            a = a + 1j * self.rng.standard_normal(shape) * getattr(self, "scale", 1.0)
        a = a.astype(dtype)
        self.inputs[name] = a
        return a

    def int_input(self, name, dims, high):
        shape = [self._c(d) for d in dims]
        a = self.rng.randint(0, self._c(high), size=shape)
        self.inputs[name] = a
        return a

    def gather(self, t, axis, idx):
        return np.take(t, idx, axis=axis)

    def take(self, t, axis, i):
        return np.take(t, int(i), axis=axis)

    def stack(self, ts, axis=0):
        return np.stack(ts, axis=axis)

    def einsum(self, sub, *ops):
        return np.einsum(sub, *ops)

    def group(self, t, groups):
        t = np.asarray(t)
        flat = [a for g in groups for a in g]
        t2 = np.transpose(t, flat) if flat != list(range(t.ndim)) else t
        shape = [builtins.int(np.prod([t.shape[a] for a in g])) for g in groups]
        return np.reshape(np.ascontiguousarray(t2), shape)

    def conj(self, t):
        return np.conj(t)

    def sqrt(self, t):
        return np.sqrt(t)

    def abs(self, t):
        return np.abs(t)

    def unabs(self, t):
        return t

    def resolve_abs(self, t, candidates):
        return t

    def cleared(self, got, want):
        return got, want

    def sumsq(self, t):
        return np.sum(np.abs(t) ** 2)

    def sum(self, t, axis=None):
        return np.sum(t, axis=axis)

    def size(self, s):
        return float(self._c(s))

    def scalar(self, c):
        return float(c)

    def shape(self, t):
        return tuple(np.shape(t))

    def ones(self, shape, dtype="float64"):
        shape = [shape] if isinstance(shape, (builtins.int, SInt)) else list(shape)
        return np.ones([self._c(s) for s in shape], dtype=dtype)

    def eye(self, n, dtype="float64"):
        return np.eye(self._c(n), dtype=dtype)

    def prefix(self, t, axis, k):
        idx = [slice(None)] * np.ndim(t)
        idx[axis] = slice(None, self._c(k))
        return t[tuple(idx)]

    def pad_to(self, t, axis, n):
        pad = [(0, 0)] * np.ndim(t)
        pad[axis] = (0, self._c(n) - t.shape[axis])
        return np.pad(t, pad)


def concretize_args(obj, env):
    """Replace SInt leaves by ints in nested args (shapes, ranks) for the native run."""
    if isinstance(obj, SInt):
        return builtins.int(obj.subs(env))
    if isinstance(obj, tuple):
        return tuple(concretize_args(o, env) for o in obj)
    if isinstance(obj, list):
        return [concretize_args(o, env) for o in obj]
    if isinstance(obj, dict):
        return {k: concretize_args(v, env) for k, v in obj.items()}
    return obj
