"""GTensor: tensors with symbolic mode sizes (engine E1-generic, DESIGN §2.2).

A GTensor is (axes, body, dtype): `axes` is one list of digit variables per axis (mixed radix, most
significant first; an empty list is a literal size-1 axis), `body` is an Expr in the digit variables.
A tensor value is a closed function of its digits: every operand use instantiates fresh digit variables.
"""
import builtins
import itertools
from fractions import Fraction

import numpy as np

from . import expr as X
from .expr import Expr, Term, VSIZE, fresh
from .symint import SInt, SBool, EngineError, NeedsConcrete, current_ctx, sprod, same, sint_key


class Misaligned(EngineError):
    """reshape / broadcast that is not a regrouping of digits for generic sizes (what a wrong layout looks like)."""


class DataBool:
    """A comparison on symbolic *data*: both outcomes are feasible; the explorer forks and records it."""

    def __init__(self, op, lhs, rhs):
        self.op, self.lhs, self.rhs = op, lhs, rhs

    def __bool__(self):
        s = self._structural()
        if s is not None:
            return s
        ctx = current_ctx()
        if ctx is None:
            raise NeedsConcrete("data comparison outside exploration context")
        return ctx.decide_data(self)

    def _structural(self):
        """x >= 0 / x < 0 for an entry x of a tensor that is non-negative by its dependency contract"""
        try:
            lhs, rhs = lift(self.lhs), lift(self.rhs if self.rhs is not None else 0)
        except Exception:
            return None
        if self.op in (">=", "<") and rhs.ndim == 0 and rhs.body.is_zero() and lhs.ndim == 0:
            ts = lhs.body.terms
            if len(ts) == 1 and ts[0].coef > 0 and not ts[0].bound and all(a[0] == "E" and a[1] in NONNEG for a, _ in ts[0].facs):
                return self.op == ">="
        return None

    def __repr__(self):
        return f"<{self.lhs!r} {self.op} {self.rhs!r}>"


class ElemCond:
    """An elementwise comparison of symbolic tensors (only usable as the condition of `where`)."""

    def __init__(self, op, lhs, rhs):
        self.op, self.lhs, self.rhs = op, lhs, rhs

    def __bool__(self):
        raise EngineError("truth value of an elementwise comparison of symbolic tensors")

    @property
    def ndim(self):
        return self.lhs.ndim

    @property
    def shape(self):
        return self.lhs.shape


# side conditions under which the current obligation is proved (DESIGN §3 C04: "no zero column"); set by the obligation
SIDE = {"nonzero_where": False, "used": []}


# input registry: name -> dict(digits=[sizes], axes=[[digit positions]], dtype=..)
INPUTS = {}
# opaque scalars: name -> (opname, operand GTensor); e.g. max over all entries.  They are uninterpreted in proofs
# (only their provenance is used) and evaluated from their operand in concretisation.
OPAQUE = {}
_opq = itertools.count()


NONNEG = set()  # names of opaque tensors whose entries are >= 0 by the dependency's contract (singular values)


def register_factorisation(names, M):
    """hypothesis: the chain product of the named opaque matrices equals the matrix M (e.g. U diag(S) V = M for an exact SVD)"""
    M = inst(lift(M))
    if M.ndim != 2:
        raise EngineError("factorisation hypothesis on a non-matrix")
    X.FACTORISATIONS.append((tuple(names), (tuple(M.axes[0]), tuple(M.axes[1]), M.body)))


LA_LOG = []  # call sites of linear-algebra dependencies in the current execution
_opq_t = {}


def reset_execution():
    """called at the start of every (re-)execution of a path so that opaque names are deterministic"""
    LA_LOG.clear()
    SQRT_LOG.clear()
    _opq_t.clear()
    X.ORTHO.clear()
    del X.FACTORISATIONS[:]
    X.CONST_INPUTS.clear()
    X.NONZERO_EXPRS.clear()
    NONNEG.clear()
    for _k in [k for k in X.NONNEG_INPUTS if "#" in k]:
        X.NONNEG_INPUTS.discard(_k)
    global _opq
    _opq = itertools.count()


def caller_snapshot(max_up=12):
    """Locals of the nearest enclosing repo function frame, completed by those of the enclosing loop-cut body / prefix when the dependency is called from
    a helper of the function under proof (shallow copies of lists): the state of the decomposition at the time a dependency is called (used by call-site
    obligations).  The nearest frame wins on a name clash; the loop-cut frame supplies the sweep's own variables if a refactoring moved the call into a helper."""
    import sys

    def grab(f):
        snap = {k: (list(v) if isinstance(v, list) else v) for k, v in f.f_locals.items() if not k.startswith("__")}
        for k, v in list(snap.items()):
            fl = getattr(v, "factors", None)  # wrapper objects are updated in place by the code: freeze their factor list
            if isinstance(fl, list):
                snap[k + ".factors"] = list(fl)
        return snap
    f = sys._getframe(2)
    nearest = None
    for _ in range(max_up):
        if f is None:
            break
        name = f.f_code.co_name
        fn = f.f_code.co_filename
        cut = name.endswith("__vt_body") or name.endswith("__vt_prefix")
        if cut or (("/tensorly/" in fn) and "/backend/" not in fn):
            if nearest is None:
                nearest = grab(f)
                if cut:
                    return nearest
            elif cut:
                outer = grab(f)
                outer.update(nearest)
                return outer
        f = f.f_back
    return nearest or {}


def name_of(t):
    """name of the symbolic input a tensor is a plain view of"""
    ts = lift(t).body.terms
    if len(ts) == 1 and len(ts[0].facs) == 1 and ts[0].facs[0][0][0] == "E":
        return ts[0].facs[0][0][1]
    raise EngineError("not a plain symbolic input")


def axis_sizes(t):
    """per axis: the list of digit sizes (so that an opaque result keeps the mixed-radix structure of its source)"""
    t = lift(t)
    return [[VSIZE[v] for v in ax] if ax else 1 for ax in t.axes]


def flat_sizes(t):
    return [VSIZE[v] for v in lift(t).digits()]


def opaque_tensor(prefix, dims, dtype="float64", ortho_axis=None, nonneg=False):
    k = _opq_t.get(prefix, 0)
    _opq_t[prefix] = k + 1
    name = f"{prefix}#{k}"
    t = sym_input(name, [d for d in dims], dtype)
    if nonneg:
        X.NONNEG_INPUTS.add(name)  # `ensures result >= 0` of the stubbed callee (proved on its own body)
    if ortho_axis is not None:
        X.ORTHO[name] = ortho_axis  # assumed contract of the dependency (A3): orthonormal along this axis
    return t


def opaque_scalar(op, operand, dtype=None):
    name = f"{op.upper()}#{next(_opq)}"
    OPAQUE[name] = (op, operand)
    X.REAL_INPUTS.add(name)
    INPUTS[name] = dict(digits=[], axes=[], dtype=dtype or operand.dtype)
    return GTensor([], X.entry(name, ()), dtype or operand.dtype)
PRIM_LOG = []  # names of primitives applied (for frame obligations)


def log(name):
    PRIM_LOG.append(name)


def _size_of(v):
    return VSIZE[v]


class GTensor:
    __array_priority__ = 1000

    base = None     # the tensor object whose memory this one is a view of (numpy view semantics), None: owns its memory
    contig = True   # certainly C-contiguous (reshape of a contiguous array is a view, of anything else a copy)

    def __init__(self, axes, body, dtype="float64"):
        self.axes = [list(a) for a in axes]
        self.body = body
        self.dtype = dtype

    # ---- numpy-like attributes
    @property
    def shape(self):
        return tuple(sprod(VSIZE[v] for v in a) for a in self.axes)

    @property
    def ndim(self):
        return len(self.axes)

    @property
    def size(self):
        return sprod(self.shape)

    @property
    def T(self):
        return transpose(self)

    def digits(self):
        return [v for a in self.axes for v in a]

    def copy(self):
        return GTensor(self.axes, self.body, self.dtype)

    def mean(self, axis=None):
        return g_mean(self, axis)


    def astype(self, dtype):
        return GTensor(self.axes, self.body, np.dtype(dtype).name)

    def __repr__(self):
        return f"GTensor(shape={self.shape}, dtype={self.dtype}, body={self.body!r:.200})"

    def __len__(self):
        if not self.axes:
            raise TypeError("len() of 0-d tensor")
        s = self.shape[0]
        if isinstance(s, SInt):
            raise NeedsConcrete("len() of a tensor with symbolic leading size")
        return s

    def __iter__(self):
        n = len(self)
        for i in range(n):
            yield self[i]

    # ---- arithmetic
    def __mul__(self, o):
        return binop(self, o, "mul")

    def __rmul__(self, o):
        return binop(o, self, "mul")

    def __add__(self, o):
        return binop(self, o, "add")

    def __radd__(self, o):
        return binop(o, self, "add")

    def __sub__(self, o):
        return binop(self, o, "sub")

    def __rsub__(self, o):
        return binop(o, self, "sub")

    def __truediv__(self, o):
        return binop(self, o, "div")

    def __rtruediv__(self, o):
        return binop(o, self, "div")

    def __neg__(self):
        return GTensor(self.axes, -self.body, self.dtype)

    def __pos__(self):
        return self

    def __pow__(self, p):
        if isinstance(p, GTensor):
            raise EngineError("tensor ** tensor")
        return GTensor(self.axes, self.body.power(_frac(p)), _result_dtype(self.dtype, p))

    def __matmul__(self, o):
        return matmul(self, o)

    def __rmatmul__(self, o):
        return matmul(o, self)

    def __abs__(self):
        return g_abs(self)

    # in-place operators rebind (GTensor values are immutable except through index_update)
    def __getitem__(self, idx):
        return getitem(self, idx)

    def __setitem__(self, idx, val):
        index_update(self, idx, val)

    # numpy's in-place operators write into the array (and into whatever it is a view of): logged for the frame obligations (C15)
    def _inplace(self, o, op):
        # The write is logged against the memory it goes to.  The VALUE is carried by a new tensor object bound in place of the old one (Python rebinds the
        # target of an augmented assignment to what __iop__ returns), which stays a view of the same memory for the alias model: other references to the
        # old object do not see the new value - the one place where the value semantics of E1-generic is weaker than numpy's (cross-checked natively).
        r = binop(self, o, op)
        WRITE_LOG.append(dict(target=root(self), via=self, op="in-place " + op))
        if r.ndim != self.ndim:
            raise ValueError("non-broadcastable output operand")
        r.base, r.contig = root(self), self.contig
        return r

    def __iadd__(self, o):
        return self._inplace(o, "add")

    def __isub__(self, o):
        return self._inplace(o, "sub")

    def __imul__(self, o):
        return self._inplace(o, "mul")

    def __itruediv__(self, o):
        return self._inplace(o, "div")

    # comparisons on data
    def _cmp(self, o, op):
        if self.ndim != 0:
            return ElemCond(op, self, o)
        return DataBool(op, self, o)

    def __lt__(self, o):
        return self._cmp(o, "<")

    def __le__(self, o):
        return self._cmp(o, "<=")

    def __gt__(self, o):
        return self._cmp(o, ">")

    def __ge__(self, o):
        return self._cmp(o, ">=")

    def __eq__(self, o):
        return self._cmp(o, "==")

    def __ne__(self, o):
        return self._cmp(o, "!=")

    __hash__ = object.__hash__

    def __bool__(self):
        return bool(DataBool("!=", self, 0))

    def __float__(self):
        raise NeedsConcrete("float() of a symbolic scalar")

    def conj(self):
        return conj(self)

    def sum(self, axis=None, keepdims=False):
        return g_sum(self, axis, keepdims)

    def reshape(self, *shape):
        if len(shape) == 1 and isinstance(shape[0], (tuple, list)):
            shape = shape[0]
        return reshape(self, shape)

    def transpose(self, *axes):
        if len(axes) == 1 and isinstance(axes[0], (tuple, list)):
            axes = axes[0]
        return transpose(self, list(axes) or None)


def _frac(p):
    if isinstance(p, float):
        return Fraction(p).limit_denominator(1000)
    return Fraction(p)


def _result_dtype(*ds):
    """numpy is the promotion oracle (DESIGN §2.8)."""
    arrs = []
    for d in ds:
        if isinstance(d, str):
            arrs.append(np.zeros(1, dtype=d))
        elif isinstance(d, GTensor):
            arrs.append(np.zeros(1, dtype=d.dtype))
        elif isinstance(d, (bool, builtins.int, float, complex)):
            arrs.append(d)
        elif isinstance(d, (SInt, Fraction)):
            arrs.append(1)
        elif isinstance(d, np.ndarray) or isinstance(d, np.generic):
            arrs.append(d)
        else:
            arrs.append(1.0)
    try:
        return np.result_type(*arrs).name
    except Exception:
        return "float64"


# ------------------------------------------------------------------------------------------------ construction
def sym_input(name, dims, dtype="float64", digits=None):
    """A symbolic input tensor.  `dims`: list of sizes (int 1 = literal unit axis; SInt/ints otherwise).
    An axis may be given as a list of sizes (a composite axis made of several digits)."""
    axes = []
    flat = []
    for d in dims:
        grp = d if isinstance(d, (list, tuple)) else [d]
        ax = []
        for s in grp:
            if isinstance(s, builtins.int) and s == 1:
                continue
            v = fresh(s, "i")
            ax.append(v)
            flat.append(v)
        axes.append(ax)
    if not str(dtype).startswith("complex"):
        X.REAL_INPUTS.add(name)
    else:
        X.REAL_INPUTS.discard(name)
    INPUTS[name] = dict(digits=[VSIZE[v] for v in flat], axes=[[flat.index(v) for v in a] for a in axes], dtype=dtype)
    return GTensor(axes, X.entry(name, flat), dtype)


def inst(t):
    """alpha-rename the free digit variables of a tensor value"""
    ren = {v: fresh(VSIZE[v], "d") for a in t.axes for v in a}
    return GTensor([[ren[v] for v in a] for a in t.axes], t.body.subst(ren), t.dtype)


def scalar(expr_, dtype="float64"):
    return GTensor([], X.as_expr(expr_), dtype)


def lift(x, like=None):
    """numbers -> 0-d GTensor"""
    if isinstance(x, GTensor):
        return x
    if isinstance(x, (bool, builtins.int, Fraction, SInt)):
        return GTensor([], X.as_expr(x), "int64")
    if isinstance(x, float):
        return GTensor([], X.as_expr(x), "float64")
    if isinstance(x, np.generic):
        t = lift(x.item())
        return GTensor([], t.body, x.dtype.name)  # numpy scalars are strongly typed (NEP 50)
    if isinstance(x, np.ndarray):
        return from_numpy(x)
    if isinstance(x, (list, tuple)):
        return from_numpy(np.array(x))
    raise EngineError(f"cannot lift {type(x)} to GTensor")


def from_numpy(a):
    a = np.asarray(a)
    if a.ndim == 0:
        return lift(a.item())
    if a.size > 64:
        raise EngineError("large concrete array in symbolic engine")
    axes = [[fresh(s, "c")] if s != 1 else [] for s in a.shape]
    body = Expr()
    for idx in itertools.product(*[range(s) for s in a.shape]):
        val = a[idx]
        if val == 0:
            continue
        t = X.const(_frac(float(val)) if not isinstance(val, (int, np.integer)) else int(val))
        for ax, i in zip(axes, idx):
            if ax:
                t = t * X.delta(ax[0], int(i))
        body = body + t
    return GTensor(axes, body, a.dtype.name)


# ------------------------------------------------------------------------------------------------ layout ops
def _norm_shape(newshape):
    if isinstance(newshape, (builtins.int, SInt)):
        newshape = [newshape]
    return [s if isinstance(s, SInt) else builtins.int(s) for s in newshape]


def reshape(t, newshape):
    log("reshape")
    t = inst(t)
    flat = t.digits()
    newshape = _norm_shape(newshape)
    total = sprod(VSIZE[v] for v in flat)
    if any(isinstance(s, builtins.int) and s == -1 for s in newshape):
        if sum(1 for s in newshape if isinstance(s, builtins.int) and s == -1) > 1:
            raise ValueError("can only specify one unknown dimension")
        known = sprod(s for s in newshape if not (isinstance(s, builtins.int) and s == -1))
        q = SInt.lift(total).exact_div(known)
        if q is None:
            raise Misaligned(f"reshape {t.shape} -> {newshape}: -1 not a monomial quotient")
        qq = q.const() if q.is_const() else q
        newshape = [qq if (isinstance(s, builtins.int) and s == -1) else s for s in newshape]
    else:
        if not same(total, sprod(newshape)):
            eq = (SInt.lift(total) == sprod(newshape))
            if not bool(eq):
                raise ValueError(f"cannot reshape array of size {total} into shape {tuple(newshape)}")
    axes = []
    pos = 0
    for s in newshape:
        grp = []
        acc = 1
        while not same(acc, s):
            if pos >= len(flat):
                raise Misaligned(f"reshape {t.shape} -> {newshape}: ran out of digits")
            if SInt.lift(s).exact_div(acc * VSIZE[flat[pos]]) is None:
                # a digit of monomial size may be split when the target boundary falls inside it (e.g. the r0*r1 columns of a
                # matrix viewed as (r0, r1)): the digit becomes the mixed-radix combination of two new digits
                need = SInt.lift(s).exact_div(acc)
                rest = SInt.lift(VSIZE[flat[pos]]).exact_div(need) if need is not None else None
                if need is None or rest is None or same(need, 1) or same(rest, 1):
                    raise Misaligned(f"reshape {t.shape} -> {newshape}: digit boundary mismatch at {flat[pos]}:{VSIZE[flat[pos]]}")
                need = need.const() if need.is_const() else need
                rest = rest.const() if rest.is_const() else rest
                v1, v2 = fresh(need, "m"), fresh(rest, "m")
                t = GTensor(t.axes, t.body.subst({flat[pos]: ("MIX", ((v1, sint_key(need)), (v2, sint_key(rest))))}), t.dtype)
                flat = flat[:pos] + [v1, v2] + flat[pos + 1:]
            grp.append(flat[pos])
            acc = acc * VSIZE[flat[pos]]
            pos += 1
        axes.append(grp)
    if pos != len(flat):
        raise Misaligned(f"reshape {t.shape} -> {newshape}: digits left over")
    return GTensor(axes, t.body, t.dtype)


def transpose(t, axes=None):
    log("transpose")
    if axes is None:
        axes = list(range(t.ndim))[::-1]
    axes = [builtins.int(a) % t.ndim if t.ndim else 0 for a in axes]
    if sorted(axes) != list(range(t.ndim)):
        raise ValueError("axes don't match array")
    return GTensor([t.axes[a] for a in axes], t.body, t.dtype)


def conj(t):
    log("conj")
    if t.dtype.startswith("complex"):
        return GTensor(t.axes, t.body.conj(), t.dtype)
    return GTensor(t.axes, t.body, t.dtype)


# ------------------------------------------------------------------------------------------------ elementwise
def _as_identity(t):
    """(i, j) if t is exactly the identity matrix delta(i, j) on two single-digit axes, else None"""
    if t.ndim == 2 and len(t.axes[0]) == 1 and len(t.axes[1]) == 1 and len(t.body.terms) == 1:
        tm = t.body.terms[0]
        if not tm.bound and len(tm.facs) == 1 and tm.facs[0][0][0] == "D" and tm.facs[0][1] == 1:
            return tm
    return None


def _regroup_identity(idt, like):
    """the identity (times a scalar) re-expressed on the composite digit structure of `like` (a square matrix)"""
    tm = _as_identity(idt)
    if tm is None or like.ndim != 2 or len(like.axes[0]) != len(like.axes[1]):
        return None
    if not all(same(VSIZE[u], VSIZE[w]) for u, w in zip(like.axes[0], like.axes[1])):
        return None
    if not same(sprod(VSIZE[v] for v in like.axes[0]), VSIZE[idt.axes[0][0]]):
        return None
    rows = [fresh(VSIZE[v], "e") for v in like.axes[0]]
    cols = [fresh(VSIZE[v], "e") for v in like.axes[1]]
    body = X.const(tm.coef)
    for r_, c_ in zip(rows, cols):
        body = body * X.delta(r_, c_)
    return GTensor([rows, cols], body, idt.dtype)


def _align(a, b):
    """Broadcast two (already instantiated) tensors: returns axes, substitution for b's digits."""
    n = max(a.ndim, b.ndim)
    aa = [None] * (n - a.ndim) + a.axes
    bb = [None] * (n - b.ndim) + b.axes
    sub = {}
    axes = []
    for x, y in zip(aa, bb):
        if not x:
            axes.append(list(y or []))
        elif not y:
            axes.append(list(x))
        else:
            if len(x) != len(y) or not all(same(VSIZE[u], VSIZE[w]) for u, w in zip(x, y)):
                # sizes must agree; single digits of provably equal size are accepted
                if len(x) == 1 and len(y) == 1 and bool(SInt.lift(VSIZE[x[0]]) == VSIZE[y[0]]):
                    pass
                else:
                    sx = sprod(VSIZE[u] for u in x)
                    sy = sprod(VSIZE[u] for u in y)
                    if same(sx, sy):
                        raise Misaligned(f"broadcast of differently grouped axes {x} vs {y}")
                    raise ValueError(f"operands could not be broadcast together with shapes {a.shape} {b.shape}")
            for u, w in zip(x, y):
                sub[w] = u
            axes.append(list(x))
    return axes, sub


def binop(a, b, op):
    log({"mul": "multiply", "add": "add", "sub": "subtract", "div": "divide"}[op])
    dt = _result_dtype(a, b) if op != "div" else _result_dtype(a, b, 1.0 if not (isinstance(a, GTensor) and a.dtype.startswith(("float", "complex"))) and not (isinstance(b, GTensor) and b.dtype.startswith(("float", "complex"))) else 1)
    a = inst(lift(a))
    b = inst(lift(b))
    try:
        axes, sub = _align(a, b)
    except Misaligned:
        # lambda * I added to a Gram matrix whose rows/columns are composite: the identity factorises over the digits
        ra = _regroup_identity(a, b)
        rb = _regroup_identity(b, a)
        if ra is not None:
            a = ra
        elif rb is not None:
            b = rb
        else:
            raise
        axes, sub = _align(a, b)
    bb = b.body.subst(sub)
    if op == "mul":
        body = a.body * bb
    elif op == "add":
        body = a.body + bb
    elif op == "sub":
        body = a.body - bb
    elif op == "div":
        body = a.body * bb.power(-1)
    return GTensor(axes, body, dt)


def g_abs(t):
    log("abs")
    dt = t.dtype
    if dt.startswith("complex"):
        dt = "float64" if dt == "complex128" else "float32"
    return GTensor(t.axes, _map_func("abs", t.body), dt)


def _map_func(name, body):
    return X.func(name, body)


SQRT_LOG = []  # (syntactically non-negative operand?, short description) for every sqrt executed: float-robust sign domain


def g_sqrt(t):
    log("sqrt")
    t = lift(t)
    SQRT_LOG.append((X._is_sum_of_squares(t.body), repr(t.body)[:160]))
    return GTensor(t.axes, t.body.power(Fraction(1, 2)), _result_dtype(t, 1.0) if not t.dtype.startswith(("float", "complex")) else t.dtype)


def g_sign(t):
    log("sign")
    return GTensor(t.axes, X.func("sign", t.body), t.dtype)


def elementwise(name, t, *params):
    """An uninterpreted elementwise function of t (and scalar parameters): clip, maximum with a constant, exp, ..."""
    log(name)
    t = lift(t)
    ps = tuple(X.as_expr(p) if not isinstance(p, GTensor) else p.body for p in params)
    return GTensor(t.axes, X.func(name, t.body, *ps), t.dtype if t.dtype.startswith(("float", "complex")) else "float64")


def trace(t):
    log("trace")
    t = inst(lift(t))
    if t.ndim != 2:
        raise EngineError("trace of non-matrix")
    a, b = t.axes
    if len(a) != len(b) or not all(same(VSIZE[u], VSIZE[w]) or bool(SInt.lift(VSIZE[u]) == VSIZE[w]) for u, w in zip(a, b)):
        raise EngineError("trace of a non-square symbolic matrix")
    body = t.body.subst({w: u for u, w in zip(a, b)})
    for u in a:
        body = body.sum_over(u)
    return GTensor([], body, t.dtype)


def _flatten_axis(t, axis):
    """re-express a composite axis [d1..dk] by one digit q of size prod: d_j = (q div prod(sizes after j)) mod size_j"""
    ax = t.axes[axis]
    sizes = [VSIZE[v] for v in ax]
    q = fresh(sprod(sizes), "f")
    sub = {}
    for j, v in enumerate(ax):
        after = sprod(sizes[j + 1:]) if j + 1 < len(ax) else 1
        term = q
        if not (isinstance(after, builtins.int) and after == 1):
            term = ("DIV", term, sint_key(after))
        if j > 0:
            term = ("MOD", term, sint_key(sizes[j]))
        sub[v] = term
    axes = list(t.axes)
    axes[axis] = [q]
    return GTensor(axes, t.body.subst(sub), t.dtype)


def concatenate(tensors, axis=0):
    log("concatenate")
    ts = [inst(lift(t)) for t in tensors]
    if len(ts) == 1:
        return ts[0]
    nd = ts[0].ndim
    axis = axis % nd
    for k_, t in enumerate(ts):
        if t.ndim != nd:
            raise ValueError("all the input array dimensions except for the concatenation axis must match exactly")
        if len(t.axes[axis]) > 1:
            ts[k_] = _flatten_axis(t, axis)
    sizes = [sprod(VSIZE[v] for v in t.axes[axis]) for t in ts]
    total = sum(sizes[1:], sizes[0])
    new = fresh(total, "q")
    ref = ts[0]
    body = Expr()
    off = 0
    for t, sz in zip(ts, sizes):
        sub = {}
        for k in range(nd):
            if k == axis:
                continue
            x, y = ref.axes[k], t.axes[k]
            if len(x) != len(y) or not all(same(VSIZE[u], VSIZE[w]) or bool(SInt.lift(VSIZE[u]) == VSIZE[w]) for u, w in zip(x, y)):
                raise ValueError("all the input array dimensions except for the concatenation axis must match exactly")
            for u, w in zip(x, y):
                sub[w] = u
        # piece occupies off <= new < off + sz :  [new < off+sz] - [new < off]
        ind = X.indicator(new, off + sz) - (X.indicator(new, off) if not (isinstance(off, builtins.int) and off == 0) else X.const(0))
        if t.axes[axis]:
            sub[t.axes[axis][0]] = ("O", new, sint_key(off)) if not (isinstance(off, builtins.int) and off == 0) else new
        body = body + t.body.subst(sub) * ind
        off = off + sz
    axes = list(ref.axes)
    axes[axis] = [new]
    return GTensor(axes, body, _result_dtype(*[t.dtype for t in ts]))


# ------------------------------------------------------------------------------------------------ reductions
def _axes_list(t, axis):
    if axis is None:
        return list(range(t.ndim))
    if isinstance(axis, (tuple, list)):
        return [builtins.int(a) % t.ndim for a in axis]
    return [builtins.int(axis) % t.ndim]


def g_sum(t, axis=None, keepdims=False):
    log("sum")
    t = inst(lift(t))
    axs = _axes_list(t, axis)
    body = t.body
    for a in axs:
        for v in t.axes[a]:
            body = body.sum_over(v)
    if keepdims:
        axes = [[] if i in axs else a for i, a in enumerate(t.axes)]
    else:
        axes = [a for i, a in enumerate(t.axes) if i not in axs]
    return GTensor(axes, body, t.dtype)


def g_mean(t, axis=None):
    log("mean")
    t = lift(t)
    axs = _axes_list(t, axis)
    n = sprod(t.shape[a] for a in axs)
    s = g_sum(t, axis)
    inv = X.size_expr(n).power(-1)
    dt = t.dtype if t.dtype.startswith(("float", "complex")) else "float64"
    return GTensor(s.axes, s.body * inv, dt)


def einsum(subscripts, *operands):
    log("einsum")
    if not isinstance(subscripts, str):
        raise EngineError("non-string einsum")
    subscripts = subscripts.replace(" ", "")
    if "->" in subscripts:
        ins, out = subscripts.split("->")
        explicit = True
    else:
        ins, out, explicit = subscripts, None, False
    ins = ins.split(",")
    if len(ins) != len(operands):
        raise ValueError("more operands provided to einstein sum function than specified in the subscripts string"
                         if len(operands) > len(ins) else "fewer operands provided to einstein sum function than specified in the subscripts string")
    if "." in subscripts:
        raise EngineError("einsum ellipsis")
    letter = {}
    body = None
    dts = []
    for spec, t in zip(ins, operands):
        t = inst(lift(t))
        dts.append(t.dtype)
        if len(spec) != t.ndim:
            raise ValueError(f"einstein sum subscripts string contains too many subscripts for operand ({spec} vs ndim {t.ndim})")
        sub = {}
        for ch, ax in zip(spec, t.axes):
            if ch in letter:
                ref = letter[ch]
                if not ax or not ref:
                    if ax and not ref:
                        letter[ch] = ax  # broadcast of literal-1 axis
                    continue
                if len(ref) != len(ax) or not all(same(VSIZE[u], VSIZE[w]) for u, w in zip(ref, ax)):
                    if len(ref) == 1 and len(ax) == 1 and bool(SInt.lift(VSIZE[ref[0]]) == VSIZE[ax[0]]):
                        pass
                    else:
                        sx = sprod(VSIZE[u] for u in ref)
                        sy = sprod(VSIZE[u] for u in ax)
                        if same(sx, sy):
                            raise Misaligned(f"einsum label {ch}: differently grouped axes")
                        raise ValueError(f"operands could not be broadcast together with remapped shapes [einsum label {ch}: {sx} vs {sy}]")
                for u, w in zip(ref, ax):
                    sub[w] = u
            else:
                letter[ch] = ax
        b = t.body.subst(sub)
        body = b if body is None else body * b
    if not explicit:
        cnt = {}
        for spec in ins:
            for ch in spec:
                cnt[ch] = cnt.get(ch, 0) + 1
        out = "".join(sorted(ch for ch, c in cnt.items() if c == 1))
    if len(set(out)) != len(out):
        raise ValueError("einstein sum subscripts string includes output subscript multiple times")
    for ch in out:
        if ch not in letter:
            raise ValueError(f"einstein sum subscripts string included output subscript '{ch}' which never appeared in an input")
    for ch, ax in letter.items():
        if ch not in out:
            for v in ax:
                body = body.sum_over(v)
    return GTensor([letter[ch] for ch in out], body, _result_dtype(*dts))


_L = "abcdefghijklmnopqrstuvwxyzABCDEFGHIJKLMNOPQRSTUVWXYZ"


def dot(a, b):
    log("dot")
    a, b = lift(a), lift(b)
    if a.ndim == 0 or b.ndim == 0:
        return binop(a, b, "mul")
    la = _L[: a.ndim]
    if b.ndim == 1:
        lb = la[-1]
        out = la[:-1]
    else:
        rest = _L[a.ndim: a.ndim + b.ndim - 1]
        lb = list(rest)
        lb.insert(b.ndim - 2, la[-1])
        lb = "".join(lb)
        out = la[:-1] + rest
    # shape check like numpy
    ka = a.shape[-1]
    kb = b.shape[0] if b.ndim == 1 else b.shape[-2]
    if not same(ka, kb) and not bool(SInt.lift(ka) == kb):
        raise ValueError(f"shapes {a.shape} and {b.shape} not aligned: {ka} (dim {a.ndim - 1}) != {kb} (dim {max(b.ndim - 2, 0)})")
    PRIM_LOG.pop()
    r = einsum(f"{la},{lb}->{out}", a, b)
    PRIM_LOG[-1] = "dot"
    return r


def matmul(a, b):
    log("matmul")
    a, b = lift(a), lift(b)
    if a.ndim == 0 or b.ndim == 0:
        raise ValueError("matmul: Input operand does not have enough dimensions")
    if a.ndim <= 2 and b.ndim <= 2:
        PRIM_LOG.pop()
        r = dot(a, b)
        PRIM_LOG[-1] = "matmul"
        return r
    a1 = a.ndim == 1
    b1 = b.ndim == 1
    if a1:
        a = reshape(a, (1,) + tuple(a.shape))
    if b1:
        b = reshape(b, tuple(b.shape) + (1,))
    nb = max(a.ndim, b.ndim) - 2
    batch = _L[:nb]
    la = batch[nb - (a.ndim - 2):] + "yz"
    lb = batch[nb - (b.ndim - 2):] + "zx"
    # literal-1 batch axes broadcast: handled by einsum's empty-axis rule
    ka, kb = a.shape[-1], b.shape[-2]
    if not same(ka, kb) and not bool(SInt.lift(ka) == kb):
        raise ValueError(f"matmul: Input operand 1 has a mismatch in its core dimension 0 (size {kb} is different from {ka})")
    r = einsum(f"{la},{lb}->{batch}yx", a, b)
    PRIM_LOG[-1] = "matmul"
    if a1:
        r = GTensor(r.axes[:-2] + r.axes[-1:], r.body, r.dtype)
    if b1:
        r = GTensor(r.axes[:-1], r.body, r.dtype)
    return r


def tensordot(a, b, axes=2):
    log("tensordot")
    a, b = lift(a), lift(b)
    if isinstance(axes, builtins.int):
        ax_a = list(range(a.ndim - axes, a.ndim))
        ax_b = list(range(axes))
    else:
        ax_a, ax_b = axes
        ax_a = [ax_a] if isinstance(ax_a, builtins.int) else list(ax_a)
        ax_b = [ax_b] if isinstance(ax_b, builtins.int) else list(ax_b)
    ax_a = [x % a.ndim for x in ax_a]
    ax_b = [x % b.ndim for x in ax_b]
    la = list(_L[: a.ndim])
    lb = list(_L[a.ndim: a.ndim + b.ndim])
    for x, y in zip(ax_a, ax_b):
        if not same(a.shape[x], b.shape[y]) and not bool(SInt.lift(a.shape[x]) == b.shape[y]):
            raise ValueError("shape-mismatch for sum")
        lb[y] = la[x]
    out = [c for i, c in enumerate(la) if i not in ax_a] + [c for i, c in enumerate(lb) if i not in ax_b]
    r = einsum(f"{''.join(la)},{''.join(lb)}->{''.join(out)}", a, b)
    PRIM_LOG[-1] = "tensordot"
    return r


# ------------------------------------------------------------------------------------------------ creation
def _shape_list(shape):
    if isinstance(shape, (builtins.int, SInt)):
        return [shape]
    return list(shape)


def ones(shape, dtype="float64"):
    log("ones")
    axes = [[fresh(s, "o")] if not (isinstance(s, builtins.int) and s == 1) else [] for s in _shape_list(shape)]
    return GTensor(axes, X.const(1), np.dtype(dtype or "float64").name)


def zeros(shape, dtype="float64"):
    log("zeros")
    axes = [[fresh(s, "o")] if not (isinstance(s, builtins.int) and s == 1) else [] for s in _shape_list(shape)]
    return GTensor(axes, Expr(), np.dtype(dtype or "float64").name)


def eye(n, m=None, dtype="float64", **kw):
    """numpy.eye(N, M=None, ..., dtype): ones on the main diagonal of an N x M matrix"""
    log("eye")
    if m is not None and not isinstance(m, (builtins.int, SInt)):
        m, dtype = None, m   # (called as eye(n, dtype))
    if m is not None and not same(m, n):
        i, j = fresh(n, "e"), fresh(m, "e")
        return GTensor([[i] if not same(n, 1) else [], [j] if not same(m, 1) else []], X.delta(i, j) if not (same(n, 1) or same(m, 1)) else (X.delta(j, 0) if same(n, 1) else X.delta(i, 0)), np.dtype(dtype or "float64").name)
    if isinstance(n, builtins.int) and n == 1:
        return GTensor([[], []], X.const(1), np.dtype(dtype or "float64").name)
    i, j = fresh(n, "e"), fresh(n, "e")
    return GTensor([[i], [j]], X.delta(i, j), np.dtype(dtype or "float64").name)


def diag(t, k=0):
    log("diag")
    if k != 0:
        raise EngineError("diag with offset")
    t = inst(lift(t))
    if t.ndim == 1:
        if not t.axes[0]:
            return GTensor([[], []], t.body, t.dtype)
        if len(t.axes[0]) != 1:
            raise EngineError("diag of composite axis")
        i = t.axes[0][0]
        j = fresh(VSIZE[i], "e")
        return GTensor([[i], [j]], t.body * X.delta(i, j), t.dtype)
    if t.ndim == 2:
        a, b = t.axes
        if len(a) != 1 or len(b) != 1:
            raise EngineError("diag of composite axes")
        na, nb = VSIZE[a[0]], VSIZE[b[0]]
        if same(na, nb) or bool(SInt.lift(na) <= nb):
            return GTensor([[a[0]]], t.body.subst({b[0]: a[0]}) if same(na, nb) else t.body.subst({b[0]: a[0]}), t.dtype)
        return GTensor([[b[0]]], t.body.subst({a[0]: b[0]}), t.dtype)
    raise ValueError("Input must be 1- or 2-d.")


def stack(arrays, axis=0):
    log("stack")
    arrays = [inst(lift(a)) for a in arrays]
    m = len(arrays)
    if m == 0:
        raise ValueError("need at least one array to stack")
    a0 = arrays[0]
    nd = a0.ndim + 1
    axis = axis % nd
    new = fresh(m, "s") if m != 1 else None
    body = Expr()
    for j, a in enumerate(arrays):
        if a.ndim != a0.ndim:
            raise ValueError("all input arrays must have the same shape")
        axes, sub = _align(a0, a)
        if any(len(x) != len(y) for x, y in zip(a0.axes, a.axes)):
            raise ValueError("all input arrays must have the same shape")
        b = a.body.subst(sub)
        if new is not None:
            b = b * X.delta(new, j)
        body = body + b
    axes = list(a0.axes)
    axes.insert(axis, [new] if new is not None else [])
    return GTensor(axes, body, _result_dtype(*[a.dtype for a in arrays]))


def where(cond, x, y):
    log("where")
    if isinstance(cond, ElemCond) and cond.op == "==" and not isinstance(cond.rhs, GTensor) and cond.rhs == 0 and SIDE["nonzero_where"]:
        # side condition of the obligation: the tested quantity has no zero entry, so where(q == 0, x, y) = y
        SIDE["used"].append(("nonzero", repr(cond.lhs.body)[:120]))
        y = lift(y)
        for t_ in y.body.terms:
            for a_, e_ in t_.facs:
                if a_[0] == "P":
                    X.NONZERO_EXPRS.add(X.shape_key(a_[1]))
        if y.ndim == cond.lhs.ndim:
            return y
        return binop(y, ones(cond.lhs.shape, y.dtype), "mul")
    # a data-dependent selection the canonical forms do not express: the result is an ARBITRARY tensor of the broadcast shape and the numpy result dtype
    # (sound for every claim that is proved - it then holds whatever was selected; a mismatch involving such a value is never reported as refuted without
    # a native witness, see oblig._concretize)
    lhs = cond.lhs if isinstance(cond, ElemCond) else cond
    z = lift(x) * 0 + lift(y) * 0
    if isinstance(lhs, GTensor):
        z = z + lhs * 0
    dt = _result_dtype(x, y)
    return opaque_tensor("WHERE", axis_sizes(z), dt)


# ------------------------------------------------------------------------------------------------ indexing
def _expand_index(t, idx):
    if not isinstance(idx, tuple):
        idx = (idx,)
    n_specified = sum(1 for i in idx if i is not None and i is not Ellipsis)
    out = []
    for i in idx:
        if i is Ellipsis:
            out.extend([slice(None)] * (t.ndim - n_specified))
        else:
            out.append(i)
    n_specified = sum(1 for i in out if i is not None)
    out.extend([slice(None)] * (t.ndim - n_specified))
    return out


def getitem(t, idx):
    log("getitem")
    if isinstance(idx, list):
        raise EngineError("advanced indexing in E1-generic")
    if isinstance(idx, tuple) and any(isinstance(i, np.ndarray) for i in idx) or isinstance(idx, np.ndarray):
        # gather with a concrete integer index vector: stack of the selected slices along that axis
        tup = idx if isinstance(idx, tuple) else (idx,)
        pos = [k for k, i in enumerate(tup) if isinstance(i, np.ndarray)]
        if len(pos) != 1 or tup[pos[0]].ndim != 1 or not all(isinstance(i, slice) and i == slice(None) for k, i in enumerate(tup) if k != pos[0]):
            raise EngineError("unsupported concrete advanced indexing")
        k = pos[0]
        parts = []
        for j in tup[k].tolist():
            ix = list(tup)
            ix[k] = builtins.int(j)
            parts.append(getitem(t, tuple(ix)))
        PRIM_LOG.append("getitem")
        return stack(parts, axis=k)
    t = inst(t)
    items = _expand_index(t, idx)
    adv = [k for k, it in enumerate(items) if isinstance(it, GTensor)]
    if len(adv) > 1:
        return _multi_gather(t, items, adv)
    axes = []
    body = t.body
    ai = 0
    for it in items:
        if it is None:
            axes.append([])
            continue
        if ai >= t.ndim:
            raise IndexError("too many indices for array")
        ax = t.axes[ai]
        ai += 1
        if isinstance(it, slice):
            if it.step not in (None, 1):
                raise EngineError("strided slice")
            start, stop = it.start, it.stop
            if start in (None, 0) and stop is None:
                axes.append(ax)
                continue
            n = sprod(VSIZE[v] for v in ax)
            if start not in (None, 0):
                raise EngineError(f"slice with non-zero start {start}")
            if isinstance(stop, builtins.int) and stop < 0:
                stop = n + stop
            # numpy clamps: size = min(stop, n)
            if same(stop, n) or bool(SInt.lift(stop) >= n):
                axes.append(ax)
                continue
            if len(ax) != 1:
                raise EngineError("prefix slice of composite axis")
            if isinstance(stop, builtins.int) and stop == 0:
                raise EngineError("empty slice")
            if isinstance(stop, builtins.int) and stop == 1:
                body = body.subst({ax[0]: 0})
                axes.append([])
                continue
            v2 = fresh(stop, "p")
            body = body.subst({ax[0]: v2})
            axes.append([v2])
            continue
        if isinstance(it, GTensor):
            # gather with a symbolic integer index vector: t[idx, ...] (values assumed in range by the caller's contract)
            g = inst(it)
            if len(ax) != 1 or g.ndim != 1:
                raise EngineError("gather on composite axis / non-vector index")
            ts = g.body.terms
            if len(ts) != 1 or ts[0].coef != 1 or ts[0].bound or len(ts[0].facs) != 1 or ts[0].facs[0][0][0] != "E" or ts[0].facs[0][1] != 1:
                raise EngineError("index tensor is not a plain symbolic integer input")
            ea = ts[0].facs[0][0]
            body = body.subst({ax[0]: ("G", ea[1], ea[2])})
            axes.append(list(g.axes[0]))
            continue
        if isinstance(it, (builtins.int, np.integer, SInt)):
            n = sprod(VSIZE[v] for v in ax)
            if isinstance(it, SInt):
                raise EngineError("symbolic integer index")
            it = builtins.int(it)
            if it < 0:
                if isinstance(n, SInt):
                    raise EngineError("negative index into symbolic axis")
                it += n
            if not ax:
                if it != 0:
                    raise IndexError("index out of bounds for axis with size 1")
                continue
            ok = (it < n) if not isinstance(n, SInt) else bool(SInt.lift(it) < n)
            if not ok:
                raise IndexError(f"index {it} is out of bounds for axis with size {n}")
            if len(ax) != 1:
                # mixed radix decomposition needs concrete sizes
                sizes = [VSIZE[v] for v in ax]
                if any(isinstance(s, SInt) for s in sizes):
                    raise EngineError("int index into composite symbolic axis")
                rem = it
                sub = {}
                for v, s in reversed(list(zip(ax, sizes))):
                    sub[v] = rem % s
                    rem //= s
                body = body.subst(sub)
            else:
                body = body.subst({ax[0]: it})
            continue
        raise EngineError(f"unsupported index {it!r}")
    return GTensor(axes, body, t.dtype)


def _multi_gather(t, items, adv):
    """numpy advanced indexing with several 1-D index vectors (broadcast together: one shared sample axis).
    The sample axis goes where the advanced indices were if they are adjacent, else first (numpy's rule)."""
    if any(it is None for it in items):
        raise EngineError("newaxis together with several index vectors")
    gs = [inst(items[k]) for k in adv]
    if any(g.ndim != 1 or len(g.axes[0]) != 1 for g in gs):
        raise EngineError("index tensors must be vectors")
    s0 = gs[0].axes[0][0]
    body = t.body
    rest_axes = {}
    for k, it in enumerate(items):
        ax = t.axes[k]
        if isinstance(it, GTensor):
            g = gs[adv.index(k)]
            if not (same(VSIZE[g.axes[0][0]], VSIZE[s0]) or bool(SInt.lift(VSIZE[g.axes[0][0]]) == VSIZE[s0])):
                raise IndexError("shape mismatch: indexing arrays could not be broadcast together")
            ts = g.body.subst({g.axes[0][0]: s0}).terms
            if len(ax) != 1 or len(ts) != 1 or ts[0].coef != 1 or ts[0].bound or len(ts[0].facs) != 1 or ts[0].facs[0][0][0] != "E":
                raise EngineError("index tensor is not a plain symbolic integer input")
            ea = ts[0].facs[0][0]
            body = body.subst({ax[0]: ("G", ea[1], ea[2])})
        elif isinstance(it, slice):
            if not (it.start in (None, 0) and it.stop is None and it.step in (None, 1)):
                raise EngineError("partial slice together with index vectors")
            rest_axes[k] = ax
        else:
            raise EngineError("mixed int / vector indexing")
    adjacent = adv == list(range(adv[0], adv[-1] + 1))
    axes = []
    if not adjacent:
        axes.append([s0])
        axes.extend(rest_axes[k] for k in sorted(rest_axes))
    else:
        for k in range(len(items)):
            if k == adv[0]:
                axes.append([s0])
            elif k in rest_axes:
                axes.append(rest_axes[k])
    return GTensor(axes, body, t.dtype)


def index_update(t, idx, values):
    """In-place (object-level) update, like numpy's `tensor[idx] = values`."""
    log("index_update")
    if hasattr(idx, "__class__") and idx.__class__.__name__ == "Index":
        raise EngineError("Index object")
    items = _expand_index(t, idx)
    base = inst(t)
    vals = lift(values)
    # region indicator and mapping of the region's coordinates
    ind = X.const(1)
    region_axes = []
    sub_for_vals = []
    for ax, it in zip(base.axes, items):
        if isinstance(it, slice):
            if it.step not in (None, 1) or it.start not in (None, 0):
                raise EngineError("index_update with offset/strided slice")
            n = sprod(VSIZE[v] for v in ax)
            if it.stop is None or same(it.stop, n):
                region_axes.append(ax)
                continue
            if len(ax) != 1:
                raise EngineError("index_update prefix slice of composite axis")
            if not bool(SInt.lift(it.stop) <= n):
                region_axes.append(ax)
                continue
            ind = ind * X.indicator(ax[0], it.stop)
            region_axes.append(("prefix", ax[0], it.stop))
        elif isinstance(it, (builtins.int, np.integer)):
            it = builtins.int(it)
            if not ax:
                continue
            if len(ax) != 1:
                raise EngineError("index_update int index of composite axis")
            n = VSIZE[ax[0]]
            if it < 0:
                if isinstance(n, SInt):
                    raise EngineError("negative index into symbolic axis")
                it += n
            ind = ind * X.delta(ax[0], it)
            region_axes.append(None)
        else:
            raise EngineError(f"index_update with index {it!r}")
    # build the value tensor broadcast to the region's shape (axes that are not int-indexed)
    reg = [r for r in region_axes if r is not None]
    v = inst(vals)
    if v.ndim > len(reg):
        raise ValueError("could not broadcast input array into shape")
    vaxes = [None] * (len(reg) - v.ndim) + v.axes
    sub = {}
    for r, va in zip(reg, vaxes):
        if not va:
            continue
        if isinstance(r, tuple):
            _, var, stop = r
            if len(va) != 1 or not (same(VSIZE[va[0]], stop) or bool(SInt.lift(VSIZE[va[0]]) == stop)):
                raise ValueError("could not broadcast input array into shape (prefix)")
            sub[va[0]] = var
        else:
            if len(va) != len(r) or not all(same(VSIZE[a], VSIZE[b]) or bool(SInt.lift(VSIZE[a]) == VSIZE[b]) for a, b in zip(va, r)):
                raise ValueError(f"could not broadcast input array from shape {v.shape} into region")
            for a, b in zip(va, r):
                sub[a] = b
    newbody = base.body * (X.const(1) - ind) + v.body.subst(sub) * ind
    WRITE_LOG.append(dict(target=root(t), via=t, op="index_update / item assignment"))
    t.axes = base.axes
    t.body = newbody
    return t


# ------------------------------------------------------------------------------------------------ equality and evaluation
def tensors_equal(a, b):
    """(ok, info).  Shapes (digit structures) must agree; bodies compared by canonical form."""
    a, b = lift(a), lift(b)
    if a.ndim != b.ndim:
        return False, f"ndim {a.ndim} vs {b.ndim}"
    sub = {}
    for x, y in zip(a.axes, b.axes):
        if len(x) != len(y) or not all(same(VSIZE[u], VSIZE[w]) for u, w in zip(x, y)):
            return False, f"axis digit structure differs: {[VSIZE[u] for u in x]} vs {[VSIZE[u] for u in y]} (shapes {a.shape} vs {b.shape})"
        for u, w in zip(x, y):
            sub[w] = u
    bb = b.body.subst(sub)
    conc = [v for v in a.digits() if not isinstance(VSIZE[v], SInt) or VSIZE[v].is_const()]
    if conc and sprod(builtins.int(VSIZE[v]) for v in conc) <= 64:
        for vals in itertools.product(*[range(builtins.int(VSIZE[v])) for v in conc]):
            s2 = dict(zip(conc, vals))
            ok, d = X.equal(a.body.subst(s2), bb.subst(s2))
            if not ok:
                return False, [f"at {s2}"] + X.describe_key(d)
        return True, None
    ok, d = X.equal(a.body, bb)
    return ok, (None if ok else X.describe_key(d))


def evaluate(t, env, inputs):
    """Evaluate a GTensor at concrete sizes (env: atom -> int) and concrete inputs (name -> ndarray)."""
    t = lift(t)
    free = t.digits()
    arr = eval_expr(t.body, free, env, inputs)
    shp = [builtins.int(SInt.lift(s).subs(env)) for s in t.shape]
    return np.asarray(arr).reshape(shp)


def _csize(v, env):
    return builtins.int(SInt.lift(VSIZE[v]).subs(env))


def eval_expr(e, free, env, inputs):
    """ndarray over the grid of `free` variables (one axis per variable, in order)."""
    shape = [_csize(v, env) for v in free]
    out = np.zeros(shape, dtype=complex if any(np.iscomplexobj(a) for a in inputs.values()) else float)
    for t in e.terms:
        out = out + eval_term(t, free, env, inputs)
    return out


def eval_term(t, free, env, inputs):
    vars_ = list(free) + [b for b in t.bound]
    sizes = [_csize(v, env) for v in vars_]
    pos = {v: i for i, v in enumerate(vars_)}
    nd = len(vars_)

    def grid(v):
        shp = [1] * nd
        shp[pos[v]] = sizes[pos[v]]
        return np.arange(sizes[pos[v]]).reshape(shp)

    def idx_val(i):
        if isinstance(i, str):
            return grid(i)
        if isinstance(i, tuple) and i and i[0] == "G":
            arr = np.asarray(inputs[i[1]])
            dig = [builtins.int(SInt.lift(s).subs(env)) for s in INPUTS[i[1]]["digits"]]
            arr = arr.reshape(dig)
            return arr[tuple(idx_val(j) for j in i[2])].astype(builtins.int)
        if isinstance(i, tuple) and i and i[0] == "O":
            return idx_val(i[1]) - builtins.int(X.size_from_key(i[2]).subs(env))
        if isinstance(i, tuple) and i and i[0] == "DIV":
            return idx_val(i[1]) // builtins.int(X.size_from_key(i[2]).subs(env))
        if isinstance(i, tuple) and i and i[0] == "MOD":
            return idx_val(i[1]) % builtins.int(X.size_from_key(i[2]).subs(env))
        if isinstance(i, tuple) and i and i[0] == "MIX":
            tot = 0
            for term, k in i[1]:
                tot = tot * builtins.int(X.size_from_key(k).subs(env)) + idx_val(term)
            return tot
        return i

    val = np.ones([1] * nd, dtype=float) * float(t.coef) if nd else np.array(float(t.coef))
    for a, ex in t.facs:
        k = a[0]
        if k == "E" and a[1] in OPAQUE and a[1] not in inputs:
            op, operand = OPAQUE[a[1]]
            inputs[a[1]] = {"max": np.max, "min": np.min}[op](evaluate(operand, env, inputs))
        if k == "E":
            arr = np.asarray(inputs[a[1]])
            dig = [builtins.int(SInt.lift(s).subs(env)) for s in INPUTS[a[1]]["digits"]]
            arr = arr.reshape(dig)
            ii = tuple(idx_val(i) for i in a[2])
            # out-of-range indices can occur transiently only under indicators; clip and rely on the indicator
            ii = tuple(np.clip(x, 0, d - 1) if not isinstance(x, builtins.int) else max(0, min(x, d - 1)) for x, d in zip(ii, dig))
            v = arr[ii] if ii else arr[()]
            if a[3]:
                v = np.conj(v)
        elif k == "D":
            v = (idx_val(a[1]) == idx_val(a[2])) * 1.0
        elif k == "I":
            v = (idx_val(a[1]) < builtins.int(X.size_from_key(a[2]).subs(env))) * 1.0
        elif k == "N":
            v = float(X.size_from_key(a[1]).subs(env))
        elif k == "K":
            v = float(a[1])
        elif k == "P":
            v = eval_expr_in(a[1], vars_, env, inputs)
        elif k == "F":
            args = [eval_expr_in(x, vars_, env, inputs) for x in a[2]]
            v = _FUNCS[a[1]](*args)
        else:
            raise AssertionError(a)
        ex = float(ex) if ex.denominator != 1 else builtins.int(ex)
        if ex != 1:
            v = np.asarray(v, dtype=complex if np.iscomplexobj(v) else float) ** ex
        val = val * v
    val = np.broadcast_to(val, sizes) if nd else val
    if t.bound:
        val = val.sum(axis=tuple(range(len(free), nd)))
    return val


def eval_expr_in(e, outer_vars, env, inputs):
    """evaluate nested expression whose free variables are among outer_vars; result broadcastable on outer grid"""
    arr = eval_expr(e, outer_vars, env, inputs)
    return arr


_FUNCS = {
    "abs": np.abs,
    "sign": np.sign,
    "clip": lambda x, lo, hi: np.clip(x, None if np.all(np.isinf(lo)) else lo, None if np.all(np.isinf(hi)) else hi),
}


# ------------------------------------------------------------------------------------------------ aliasing (numpy view semantics) and the write log (C15)
WRITE_LOG = []


def root(t):
    return t.base if getattr(t, "base", None) is not None else t


def log_write(t, why):
    """contract stubs with a `modifies` clause report their writes here"""
    if isinstance(t, GTensor):
        WRITE_LOG.append(dict(target=root(t), via=t, op=why))


def _view(src, res, contig):
    if isinstance(res, GTensor) and isinstance(src, GTensor) and res is not src:
        res.base = root(src)
        res.contig = bool(contig)
    return res


def _basic_index(idx):
    tup = idx if isinstance(idx, tuple) else (idx,)
    return all(i is None or i is Ellipsis or isinstance(i, (slice, builtins.int, np.integer, SInt)) for i in tup)


_reshape0, _transpose0, _getitem0 = reshape, transpose, getitem


def reshape(t, newshape):
    r = _reshape0(t, newshape)
    if isinstance(t, GTensor) and t.contig:
        _view(t, r, True)      # numpy: reshaping a C-contiguous array never copies
    return r                   # (of a non-contiguous array: a copy, except in special cases that are not modelled: no alias recorded)


def transpose(t, axes=None):
    r = _transpose0(t, axes)
    return _view(t, r, isinstance(t, GTensor) and t.ndim <= 1 and t.contig)


def getitem(t, idx):
    if (isinstance(idx, tuple) and len(idx) == 2 and all(isinstance(i, np.ndarray) and i.ndim == 1 and i.dtype.kind in "iu" for i in idx) and len(idx[0]) == len(idx[1])
            and isinstance(t, GTensor) and t.ndim == 2):
        # numpy's paired advanced indexing t[rows, cols] with concrete index vectors: the vector of the entries t[rows[k], cols[k]]
        return stack([_getitem0(t, (builtins.int(i), builtins.int(j))) for i, j in zip(idx[0].tolist(), idx[1].tolist())], axis=0)
    if isinstance(idx, ElemCond):
        # boolean-mask selection: a fresh 1-d array whose length (the number of selected entries) and values are arbitrary
        from .symint import atom as _atom
        return opaque_tensor("MASKSEL", [_atom(f"nsel{len(OPAQUE)}")], t.dtype)
    r = _getitem0(t, idx)
    if isinstance(t, GTensor) and _basic_index(idx):
        _view(t, r, False)     # basic slicing returns a view
    return r


_index_update0 = index_update


def index_update(t, idx, values):
    if isinstance(idx, ElemCond):
        # masked assignment t[mask] = values: the write is logged; the new value of t is arbitrary on the masked entries (havoc'd as a whole)
        log("index_update")
        WRITE_LOG.append(dict(target=root(t), via=t, op="index_update / masked item assignment"))
        h = opaque_tensor("HAVOC", axis_sizes(t), t.dtype)
        t.axes, t.body = h.axes, h.body
        return t
    return _index_update0(t, idx, values)
