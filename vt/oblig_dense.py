"""Obligations discharged by E1-dense + z3 (cvc5 takes z3's unknowns)."""
import itertools
import os
import subprocess
import tempfile
import time

import numpy as np
import z3

from . import dense as D
from .oblig import Obligation, Verdict, PROVED, REFUTED, UNDECIDED, _native_backend
from .symint import explore, EngineError, PathCap


def dense_session():
    import tensorly as tl
    from . import gbackend
    gbackend.import_all()

    class _S:
        def __enter__(self):
            self.old = tl.backend.BackendManager.current_backend()
            tl.set_backend(D.DBackend())
            return self

        def __exit__(self, *a):
            tl.set_backend(self.old)
            return False
    return _S()


def _cvc5_check(assertions, timeout_s=20):
    """decide satisfiability of a list of z3 assertions with cvc5 through SMT-LIB (fallback for z3 `unknown`)"""
    s = z3.Solver()
    for a in assertions:
        s.add(a)
    smt = "(set-logic ALL)\n" + s.to_smt2()
    with tempfile.NamedTemporaryFile("w", suffix=".smt2", delete=False) as f:
        f.write(smt)
        path = f.name
    try:
        out = subprocess.run(["/usr/bin/cvc5", "--tlimit", str(int(timeout_s * 1000)), path], capture_output=True, text=True, timeout=timeout_s + 5).stdout
    except Exception:
        out = ""
    finally:
        os.unlink(path)
    out = out.strip().splitlines()[0] if out.strip() else "unknown"
    return out


class DOb(Obligation):
    """inputs: dict name -> shape (symbolic real arrays) ; params: dict name -> None (symbolic real scalars)
    pre(I)   -> list of SB preconditions
    call(I)  -> output of the REAL repo function run on symbolic arrays
    claims(I, out) -> list of (label, SB | bool)   (written with the d_* helpers so that they also evaluate on floats)
    """
    engine = "E1-dense+z3"

    def __init__(self, pid, name, function, inputs, call, claims, params=None, pre=None, instance=None, clause="", solver_timeout_ms=20000,
                 check_domain=True, max_paths=2000, **kw):
        super().__init__(pid, name, function, instance=instance or {}, clause=clause, forall=["values of every entry and parameter (reals)"],
                         enumerated=list(instance or {}), **kw)
        self.inputs, self.params, self.pre, self.call, self.claims = inputs, params or {}, pre, call, claims
        self.solver_timeout_ms = solver_timeout_ms
        self.check_domain = check_domain
        self.max_paths = max_paths

    def _sym_inputs(self):
        I = {}
        for k, shp in self.inputs.items():
            I[k] = D.sym_array(k, shp) if shp != () else D.sym(k)
        for k in self.params:
            I[k] = D.sym(k)
        return I

    def run(self):
        t0 = time.time()
        try:
            v = self._run()
        except PathCap as e:
            v = Verdict(UNDECIDED, "path-cap", str(e))
        except EngineError as e:
            v = Verdict(UNDECIDED, "engine", f"{type(e).__name__}: {e}")
        v.time_s = time.time() - t0
        return v

    def _run(self):
        with dense_session():
            I = self._sym_inputs()
            pre = list(self.pre(I)) if self.pre else []

            def body():
                D.reset()
                out = self.call(I)
                try:
                    cl = list(self.claims(I, out))
                except EngineError:
                    raise
                except Exception as e:  # an error in the contract itself is a checker problem, never a verdict on /repo
                    raise EngineError(f"contract/spec evaluation failed: {type(e).__name__}: {e}")
                return out, cl, list(D.DEFS), list(D.DOMAIN)

            paths = explore(body, pre, max_paths=self.max_paths)
            nq = 0
            for p in paths:
                if p.kind == "engine":
                    return Verdict(UNDECIDED, "engine", f"{type(p.value).__name__}: {p.value}", len(paths))
                if p.kind == "exc":
                    wit = self._witness(p, None)
                    return Verdict(REFUTED, "z3", f"exception on a feasible path: {type(p.value).__name__}: {p.value}", len(paths), wit)
                out, cl, defs, dom = p.value
                todo = list(cl)
                if self.check_domain:
                    todo = [(f"defined: {d}", D.SB(c)) for d, c in dom] + todo
                for label, c in todo:
                    if isinstance(c, (bool, np.bool_)):
                        if not c:
                            return Verdict(REFUTED, "z3", f"{label}: false on a feasible path", len(paths), self._witness(p, None))
                        continue
                    nq += 1
                    r, model = self._valid(p, c.b, defs)
                    if r == "unsat":
                        continue
                    if r == "sat":
                        wit = self._witness(p, model)
                        if wit.get("native_fails"):
                            return Verdict(REFUTED, "z3", f"{label}: counter-model {wit.get('input')}", len(paths), wit)
                        return Verdict(REFUTED, "z3", f"{label}: counter-model found by the solver does not fail natively ({wit.get('observed')})", len(paths), wit)
                    return Verdict(UNDECIDED, "z3+cvc5", f"{label}: solver unknown", len(paths))
            return Verdict(PROVED, "z3", "", len(paths), extra=dict(queries=nq))

    def _valid(self, p, claim, defs):
        s = p.ctx.solver
        s.set("timeout", self.solver_timeout_ms)
        s.push()
        s.add(z3.Not(claim))
        r = s.check()
        model = s.model() if r == z3.sat else None
        assertions = list(s.assertions()) if r == z3.unknown else None
        s.pop()
        if r == z3.unsat:
            return "unsat", None
        if r == z3.sat:
            return "sat", model
        out = _cvc5_check(assertions, 30)
        if out == "unsat":
            return "unsat", None
        return "unknown", None

    # ---- native replay
    def _model_inputs(self, model):
        vals = {}
        for k, shp in self.inputs.items():
            if shp == ():
                vals[k] = _mval(model, z3.Real(k))
            else:
                a = np.zeros(shp)
                for idx in itertools.product(*[range(s) for s in shp]):
                    a[idx] = _mval(model, z3.Real(k + "_" + "_".join(map(str, idx))))
                vals[k] = a
        for k in self.params:
            vals[k] = _mval(model, z3.Real(k))
        return vals

    def native(self, vals):
        with _native_backend(None):
            I = {k: (np.array(v, dtype=float) if isinstance(v, (list, np.ndarray)) else float(v)) for k, v in vals.items()}
            I0 = {k: (np.array(v, copy=True) if isinstance(v, np.ndarray) else v) for k, v in I.items()}
            try:
                out = self.call(I)
            except Exception as e:  # noqa
                return False, f"exception {type(e).__name__}: {e}"
            flat = np.concatenate([np.ravel(np.asarray(o, dtype=float)) for o in (out if isinstance(out, (list, tuple)) else [out])]) if out is not None else np.zeros(0)
            if not np.all(np.isfinite(flat)):
                return False, "non-finite values in the result"
            for label, c in self.claims(I0, out):
                if not bool(c):
                    return False, f"{label} is false natively"
            return True, ""

    def _witness(self, p, model):
        if model is None:
            m = None
            s = p.ctx.solver
            if s.check() == z3.sat:
                m = s.model()
            model = m
        if model is None:
            return dict(replayable=False)
        vals = self._model_inputs(model)
        jvals = {k: (v.tolist() if isinstance(v, np.ndarray) else v) for k, v in vals.items()}
        try:
            ok, info = self.native(vals)
        except Exception as e:  # noqa
            return dict(replayable=True, native_fails=False, input=jvals, observed=f"replay harness error {type(e).__name__}: {e}")
        return dict(replayable=True, native_fails=not ok, input=jvals, observed=info)

    def replay(self, witness):
        vals = {k: (np.array(v) if isinstance(v, list) else v) for k, v in witness["input"].items()}
        return self.native(vals)


def _mval(model, var):
    v = model.eval(var, model_completion=True)
    if z3.is_rational_value(v):
        return float(v.numerator_as_long()) / float(v.denominator_as_long())
    if z3.is_algebraic_value(v):
        return float(v.approx(20).numerator_as_long()) / float(v.approx(20).denominator_as_long())
    return float(str(v))
