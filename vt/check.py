"""CLI:  python3-vt -m vt.check <PROPERTY> [--tier quick|thorough] [--jobs N] [--replay FILE] [--list]

Exit codes (DESIGN §2.6): 0 all obligations proved (known findings printed as KNOWN-FINDING lines);
1 + `VIOLATION property=<id> replay=<path>` for a refuted obligation not listed in KNOWN_FINDINGS.json;
2 + `UNDECIDED property=<id> obligation=<name>`; 3 checker crash / zero obligations / vacuity guard tripped.
"""
import argparse
import fnmatch
import importlib
import json
import multiprocessing as mp
import os
import re
import sys
import time

from . import ROOT
from .oblig import PROVED, REFUTED, UNDECIDED, ENGINE_BUG, Verdict, run_one

EVIDENCE_DIR = os.path.join(ROOT, "evidence")
REPLAY_DIR = os.path.join(ROOT, "replays")
KNOWN = os.path.join(ROOT, "KNOWN_FINDINGS.json")

_OBS = None  # obligations of the current run (inherited by forked workers)


def _work(i):
    ob = _OBS[i]
    timeout = getattr(ob, "timeout_s", 180)
    v = run_one(ob, timeout)
    return i, v.to_json()


def load_prop(pid):
    return importlib.import_module(f"vt.props.{pid.lower()}")


def load_known():
    if not os.path.exists(KNOWN):
        return []
    with open(KNOWN) as f:
        return json.load(f).get("findings", [])


def _glob(pattern, text):
    """'*' is the only wildcard (obligation names contain brackets, which fnmatch would treat as character classes)"""
    return re.fullmatch(".*".join(re.escape(x) for x in pattern.split("*")), text) is not None


def match_known(known, pid, ob, verdict):
    """An open entry matches if the obligation name matches its glob and every key of `instance` matches the
    obligation's instance, and (if given) `reason_regex` matches the verdict's detail."""
    for k in known:
        if k.get("property") != pid or k.get("status", "open") != "open":
            continue
        if not _glob(k["obligation"], ob.name):
            continue
        inst = k.get("instance", {})
        if any(str(ob.instance.get(a)) != str(b) for a, b in inst.items()):
            continue
        rr = k.get("reason_regex")
        if rr and not re.search(rr, verdict.get("detail", "") or ""):
            continue
        return k
    return None


def write_replay(pid, ob, verdict):
    os.makedirs(os.path.join(REPLAY_DIR, pid), exist_ok=True)
    fn = re.sub(r"[^A-Za-z0-9_.=,\[\]-]+", "_", ob.name.split("/", 1)[-1])[:150] + ".json"
    path = os.path.join(REPLAY_DIR, pid, fn)
    with open(path, "w") as f:
        json.dump(dict(property=pid, obligation=ob.name, function=ob.function, clause=ob.clause,
                       instance=ob.describe()["instance"], verdict=verdict, witness=verdict.get("witness"),
                       how_to_replay=f"cd /verif && python3-vt -m vt.check {pid} --replay {os.path.relpath(path, ROOT)}"),
                  f, indent=1, default=repr)
    return os.path.relpath(path, ROOT)


def do_replay(pid, path):
    with open(os.path.join(ROOT, path) if not os.path.isabs(path) else path) as f:
        rec = json.load(f)
    prop = load_prop(pid)
    obs = {o.name: o for tier in ("thorough",) for o in prop.obligations(tier)}
    ob = obs.get(rec["obligation"])
    if ob is None:
        print(f"replay: obligation {rec['obligation']} no longer exists")
        return 3
    wit = rec.get("witness")
    if not wit or not wit.get("native_fails", wit.get("replayable", False)):
        print("replay: no concrete failing input recorded; re-running the obligation symbolically")
        v = run_one(ob)
        print(json.dumps(v.to_json(), indent=1, default=repr))
        return 0 if v.status == PROVED else 1
    ok, info = ob.replay(wit)
    print(f"replay {rec['obligation']}: {'property holds on this input' if ok else 'FAILS'} {info}")
    if not ok:
        print(f"VIOLATION property={pid} replay={path}")
    return 0 if ok else 1


def main(argv=None):
    ap = argparse.ArgumentParser()
    ap.add_argument("pid")
    ap.add_argument("--tier", default=os.environ.get("VERIF_TIER", "quick"), choices=["quick", "thorough"])
    ap.add_argument("--jobs", type=int, default=int(os.environ.get("VT_JOBS", "0")) or min(16, os.cpu_count() or 4))
    ap.add_argument("--replay")
    ap.add_argument("--list", action="store_true")
    ap.add_argument("--only", help="glob on obligation names")
    ap.add_argument("--no-evidence", action="store_true")
    args = ap.parse_args(argv)
    pid = args.pid.upper()
    seed = int(os.environ.get("VERIF_SEED", "0") or 0)
    if args.replay:
        return do_replay(pid, args.replay)
    t0 = time.time()
    try:
        prop = load_prop(pid)
        obs = list(prop.obligations(args.tier))
        canaries = list(prop.canaries(args.tier)) if hasattr(prop, "canaries") else []
    except Exception as e:  # noqa
        import traceback
        traceback.print_exc()
        print(f"CHECKER-ERROR property={pid} {type(e).__name__}: {e}")
        return 3
    if args.only:
        obs = [o for o in obs if _glob(args.only, o.name)]
    if args.list:
        for o in obs + canaries:
            print(o.name)
        return 0
    names = [o.name for o in obs]
    if len(set(names)) != len(names):
        dup = sorted({n for n in names if names.count(n) > 1})
        print(f"CHECKER-ERROR property={pid} duplicate obligation names: {dup[:5]}")
        return 3
    if not obs:
        print(f"CHECKER-ERROR property={pid} zero obligations generated")
        return 3
    # ---- assumption A3: primitive contracts validated against the callables registered in NumpyBackend
    prim_fail = []
    prim_n = 0
    if getattr(prop, "USES_PRIMITIVES", True):
        from . import primcheck
        try:
            prim_n, prim_fail = primcheck.run()
        except Exception as e:  # noqa
            print(f"CHECKER-ERROR property={pid} primitive-contract validation crashed: {type(e).__name__}: {e}")
            return 3
    global _OBS
    _OBS = obs + canaries
    n = len(_OBS)
    results = [None] * n
    ctx = mp.get_context("fork")
    jobs = max(1, min(args.jobs, n))
    if jobs == 1:
        for i in range(n):
            results[i] = _work(i)[1]
    else:
        with ctx.Pool(jobs, maxtasksperchild=50) as pool:
            for i, v in pool.imap_unordered(_work, range(n), chunksize=1):
                results[i] = v
    known = load_known()
    verdicts = results[: len(obs)]
    cverdicts = results[len(obs):]
    violations, undecided, engine_bugs, known_hits = [], [], [], []
    discharged = 0
    bounded_ok = 0
    for ob, v in zip(obs, verdicts):
        st = v["status"]
        if st == PROVED:
            if ob.bounded:
                bounded_ok += 1
            else:
                discharged += 1
        elif st == REFUTED:
            k = match_known(known, pid, ob, v)
            if k is not None:
                known_hits.append((ob, v, k))
            else:
                violations.append((ob, v))
        elif st == ENGINE_BUG:
            engine_bugs.append((ob, v))
        else:
            undecided.append((ob, v))
    canary_fail = [(o, v) for o, v in zip(canaries, cverdicts) if v["status"] != REFUTED]
    # ---- report
    for ob, v, k in known_hits:
        print(f"KNOWN-FINDING: property={pid} {k['what']} [obligation {ob.name}]")
    rc = 0
    for ob, v in violations:
        path = write_replay(pid, ob, v)
        wit = v.get("witness") or {}
        tail = "" if wit.get("native_fails") or wit.get("replayable") else " no-failing-input-found"
        print(f"VIOLATION property={pid} replay={path} obligation={ob.name} :: {v['detail'][:160]!r}{tail}")
        rc = 1
    if prim_fail:
        os.makedirs(os.path.join(REPLAY_DIR, pid), exist_ok=True)
        path = os.path.join(REPLAY_DIR, pid, "primitive-contract.json")
        with open(path, "w") as f:
            json.dump(dict(property=pid, obligation="A3/primitive-contracts", mismatches=[list(x) for x in prim_fail],
                           note="a callable registered in NumpyBackend disagrees with the primitive contract the proofs rely on"), f, indent=1)
        print(f"VIOLATION property={pid} replay={os.path.relpath(path, ROOT)} obligation=A3/primitive-contracts :: {prim_fail[0]}")
        rc = 1
    for ob, v in undecided:
        print(f"UNDECIDED property={pid} obligation={ob.name} :: [{v['backend']}] {v['detail'][:300]}")
        if rc == 0:
            rc = 2
    for ob, v in engine_bugs:
        print(f"CHECKER-ERROR property={pid} engine soundness monitor tripped on {ob.name}: {v['detail'][:300]}")
        if rc != 1:   # a reported violation keeps exit status 1 (the interface for violations); a checker problem alone is 3
            rc = 3
    for ob, v in canary_fail:
        print(f"CHECKER-ERROR property={pid} canary {ob.name} was not refuted (status {v['status']}): vacuity guard")
        if rc != 1:
            rc = 3
    wall = time.time() - t0
    n_proof_obs = sum(1 for o in obs if not o.bounded)
    print(f"[{pid} {args.tier}] obligations={n_proof_obs} discharged={discharged} known-findings={len(known_hits)} "
          f"violations={len(violations)} undecided={len(undecided)} bounded-standins={sum(1 for o in obs if o.bounded)} "
          f"canaries={len(canaries)}/{len(canaries) - len(canary_fail)} refuted  wall={wall:.1f}s")
    if not args.no_evidence and not args.only:
        write_evidence(pid, args.tier, seed, prop, obs, verdicts, canaries, cverdicts, known_hits, violations, undecided, wall, prim_n)
    return rc


def write_evidence(pid, tier, seed, prop, obs, verdicts, canaries, cverdicts, known_hits, violations, undecided, wall, prim_n=0):
    os.makedirs(EVIDENCE_DIR, exist_ok=True)
    proof_obs = [(o, v) for o, v in zip(obs, verdicts) if not o.bounded]
    bounded = [(o, v) for o, v in zip(obs, verdicts) if o.bounded]
    by_backend = {}
    for o, v in proof_obs:
        by_backend[v["backend"]] = by_backend.get(v["backend"], 0) + 1
    samples = []
    seen_fn = set()
    for o, v in proof_obs:
        key = (o.function, o.clause)
        if key in seen_fn and len(samples) >= 6:
            continue
        seen_fn.add(key)
        if len(samples) < 12:
            d = o.describe()
            d["verdict"] = v["status"]
            d["backend"] = v["backend"]
            d["time_s"] = v["time_s"]
            samples.append(d)
    known_names = {o.name for o, v, k in known_hits}
    # obligations refuted by a LISTED known finding are reported separately (they are genuine, recorded defects); the
    # proof-level counts cover every other obligation
    n_ob = len([1 for o, v in proof_obs if o.name not in known_names])
    n_dis = sum(1 for o, v in proof_obs if v["status"] == PROVED)
    level = getattr(prop, "LEVEL", "proof")
    cov = dict(
        obligations=n_ob,
        discharged=n_dis,
        known_findings=len(known_hits),
        refuted_unlisted=len(violations),
        undecided=len(undecided),
        checker_cmd=f"python3-vt -m vt.check {pid} --tier {tier}",
        trusted_base=list(getattr(prop, "TRUSTED_BASE", [])),
        functions_under_contract=sorted({o.function for o in obs}),
        by_backend=by_backend,
        solver_time_s=round(sum(v["time_s"] for o, v in proof_obs), 2),
        quantification=getattr(prop, "QUANTIFICATION", ""),
        canaries=[dict(name=o.name, status=v["status"]) for o, v in zip(canaries, cverdicts)],
        samples=samples,
        known_finding_obligations=sorted(known_names),
        explanation=getattr(prop, "EXPLANATION", ""),
        primitive_contract_validation=dict(comparisons=prim_n, note="bounded validation of assumption A3 (not a proof of numpy)"),
    )
    if bounded:
        cov["bounded_standins"] = dict(
            note="bounded stand-ins: never counted in obligations/discharged",
            checks=[dict(name=o.name, status={"proved": "no violation found (bounded, not a proof)"}.get(v["status"], v["status"]), evaluations=v.get("extra", {}).get("evaluations"),
                         bound=v.get("extra", {}).get("bound")) for o, v in bounded])
    # evaluations / distinct_nontrivial measured (generic fallback keys, also useful to a reader)
    cov["evaluations"] = len(obs)
    cov["distinct_nontrivial"] = len({(o.function, json.dumps(o.describe()["instance"], sort_keys=True), o.clause) for o in obs})
    cov["rule"] = "one evaluation = one obligation (contract clause × enumerated instance); distinct by (function, clause, instance)"
    if n_ob != n_dis + len([1 for o, v in proof_obs if o.name in known_names]) or n_ob == 0:
        pass
    ev = dict(
        property_id=pid, tier=tier, seed=seed,
        level=level if (n_ob and n_ob == n_dis) else ("other" if n_ob else level),
        coverage=cov,
        assumptions=list(getattr(prop, "ASSUMPTIONS", [])),
        wall_s=round(wall, 2),
        violations=len(violations),
    )
    if ev["level"] == "other":
        cov["explanation"] = (cov.get("explanation", "") + f" NOTE: {n_ob - n_dis} of {n_ob} obligations are not discharged on this tree "
                              f"({len(known_hits)} listed known findings, {len(violations)} unlisted refutations, {len(undecided)} undecided); "
                              "the claim is therefore reported at level 'other', not 'proof'.").strip()
    with open(os.path.join(EVIDENCE_DIR, f"{pid}.json"), "w") as f:
        json.dump(ev, f, indent=1, default=repr)


if __name__ == "__main__":
    sys.exit(main())
