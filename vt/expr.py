"""Scalar index expressions with a canonical form (engine E1-generic, DESIGN §2.2).

Expr   = finite sum of Terms.
Term   = coef (Fraction) * SUM over bound index variables * PRODUCT of (atom ** exponent).
Atoms  (hashable tuples):
   ("E", name, idx, cj)        entry of the symbolic input `name`; idx = tuple of index terms; cj = conjugated
   ("D", a, b)                 Kronecker delta of two index terms
   ("I", a, sizekey)           indicator  a < size
   ("N", sizekey)              a size polynomial used as a scalar (from sums over unused variables, mean, ...)
   ("P", expr)                 a sub-expression used as the base of a non-integer / negative power (sqrt, inverse)
   ("F", fname, (expr, ...))   application of a (semi-)interpreted function: abs, sign, ...
Index terms: variable name (str) or int constant.
Every variable has a size registered in VSIZE (range 0 <= v < size).

Equality of two Exprs is decided by `canon`: on the polynomial fragment (E, D, I, N atoms with integer
exponents) the canonical form is unique up to the bound-variable renaming that `canon` quotients out.
"""
import itertools
import math
import zlib
from fractions import Fraction

from .symint import SInt, SBool, EngineError, sint_key, current_ctx

# ------------------------------------------------------------------------------------------------ variables
VSIZE = {}
REAL_INPUTS = set()  # names of symbolic inputs with a real dtype: conj is the identity on their entries
_counter = itertools.count()


def fresh(size, prefix="v"):
    name = f"{prefix}{next(_counter)}"
    VSIZE[name] = SInt.lift(size)
    return name


def vsize(v):
    return VSIZE[v]


def size_from_key(k):
    return SInt(dict(k))


def _entails(sb):
    if isinstance(sb, bool):
        return sb
    s = sb.structural()
    if s is not None:
        return s
    ctx = current_ctx()
    if ctx is None:
        return False
    return ctx.entails(sb)


# ------------------------------------------------------------------------------------------------ terms
class Term:
    __slots__ = ("coef", "bound", "facs", "_k")

    def __init__(self, coef, bound, facs):
        self.coef = coef if type(coef) is Fraction else Fraction(coef)
        self.bound = tuple(bound)
        # facs: dict atom -> exponent (Fraction/int), stored as sorted tuple
        if isinstance(facs, dict):
            items = facs.items()
        else:
            d = {}
            for a, e in facs:
                d[a] = d.get(a, 0) + e
            items = d.items()
        self.facs = tuple(sorted(((a, e if type(e) is Fraction else Fraction(e)) for a, e in items if e != 0), key=_akey))
        self._k = None

    def skey(self):
        if self._k is None:
            self._k = (self.coef, tuple(sorted(self.bound)), self.facs)
        return self._k

    def __repr__(self):
        b = f"Σ[{','.join(self.bound)}]" if self.bound else ""
        f = "·".join(_arepr(a) + ("" if e == 1 else f"^{e}") for a, e in self.facs)
        return f"{self.coef}{b}{'·' if f else ''}{f}"


_AKEY = {}


def _akey(item):
    a = item[0]
    r = _AKEY.get(a)
    if r is None:
        if len(_AKEY) > 500000:
            _AKEY.clear()
        r = _AKEY[a] = repr(a)
    return r


def _arepr(a):
    k = a[0]
    if k == "E":
        return f"{'~' if a[3] else ''}{a[1]}[{','.join(map(str, a[2]))}]"
    if k == "D":
        return f"δ({a[1]},{a[2]})"
    if k == "I":
        return f"[{a[1]}<{size_from_key(a[2])}]"
    if k == "N":
        return f"#{size_from_key(a[1])}"
    if k == "K":
        return a[1]
    if k == "P":
        return f"({a[1]!r})"
    if k == "F":
        return f"{a[1]}({', '.join(repr(x) for x in a[2])})"
    return repr(a)


class Expr:
    __slots__ = ("terms", "_k")

    def __init__(self, terms=()):
        self.terms = tuple(t for t in terms if t.coef != 0)
        self._k = None

    # structural key (NOT modulo renaming); used for hashing of nested atoms
    def skey(self):
        if self._k is None:
            self._k = tuple(sorted((t.skey() for t in self.terms), key=repr))
        return self._k

    def __hash__(self):
        return hash(self.skey())

    def __eq__(self, o):
        return isinstance(o, Expr) and self.skey() == o.skey()

    def __repr__(self):
        return " + ".join(map(repr, self.terms)) if self.terms else "0"

    def is_zero(self):
        return not self.terms

    # -- algebra
    def __add__(self, o):
        o = as_expr(o)
        return Expr(self.terms + o.terms)

    __radd__ = __add__

    def __neg__(self):
        return self.scale(-1)

    def __sub__(self, o):
        return self + (-as_expr(o))

    def __rsub__(self, o):
        return as_expr(o) + (-self)

    def scale(self, c):
        c = Fraction(c)
        return Expr([Term(t.coef * c, t.bound, t.facs) for t in self.terms])

    def __mul__(self, o):
        if isinstance(o, (int, Fraction)):
            return self.scale(o)
        o = as_expr(o)
        out = []
        for a in self.terms:
            for b in o.terms:
                out.append(t_mul(a, b))
        return Expr(out)

    __rmul__ = __mul__

    def subst(self, sub):
        if not sub:
            return self
        return Expr([t_subst(t, sub) for t in self.terms])

    def sum_over(self, var):
        return Expr([Term(t.coef, t.bound + (var,), t.facs) for t in self.terms])

    def conj(self):
        return Expr([Term(t.coef, t.bound, [(a_conj(a), e) for a, e in t.facs]) for t in self.terms])

    def power(self, e):
        """self ** e for rational e."""
        e = Fraction(e)
        if e == 1:
            return self
        if e == 0:
            return const(1)
        if e.denominator == 1 and e > 0:
            r = self
            for _ in range(int(e) - 1):
                r = r * self
            return r
        # single pure-atom term: distribute the exponent over the atoms when safe (coef 1, no sum)
        if len(self.terms) == 1:
            t = self.terms[0]
            if not t.bound and t.coef > 0:
                c = _frac_pow(t.coef, e)
                if c is not None and all(_pow_distributes(a) for a, _ in t.facs):
                    return Expr([Term(c, (), [(a, x * e) for a, x in t.facs])])
        base = alpha_normalize(self)
        # pull non-negative factors common to all terms out of the power: (c*Q)^e = c^e * Q^e for c >= 0
        if base.terms and all(not t.bound or True for t in base.terms):
            common = None
            for t in base.terms:
                d = {a: x for a, x in t.facs if _pow_distributes(a)}
                if common is None:
                    common = d
                else:
                    common = {a: min(x, d[a]) if (x > 0) == (d[a] > 0) else 0 for a, x in common.items() if a in d}
                    common = {a: x for a, x in common.items() if x != 0}
                if not common:
                    break
            if common and len(base.terms) >= 1:
                # only factors that do not involve a bound variable of any term can be pulled out of the sums
                bvs = set()
                for t in base.terms:
                    bvs |= set(t.bound)
                common = {a: x for a, x in common.items() if not (a_vars(a) & bvs)}
            if common:
                rest = Expr([Term(t.coef, t.bound, [(a, x - common.get(a, 0)) for a, x in t.facs]) for t in base.terms])
                outer = Expr([Term(1, (), [(a, x * e) for a, x in common.items()])])
                return outer * rest.power(e)
        return Expr([Term(1, (), [(("P", base), e)])])

    def free_vars(self):
        s = set()
        for t in self.terms:
            s |= t_vars(t) - set(t.bound)
        return s


def _frac_pow(c, e):
    if e.denominator == 1:
        return c ** int(e)
    n = c.numerator ** (1.0 / e.denominator)
    d = c.denominator ** (1.0 / e.denominator)
    if round(n) ** e.denominator == c.numerator and round(d) ** e.denominator == c.denominator:
        return Fraction(round(n), round(d)) ** e.numerator
    return None


def _pow_distributes(a):
    # (x*y)^e = x^e*y^e is safe for non-negative reals: sizes, P-bases under sqrt, abs(...)
    return a[0] in ("N", "P") or (a[0] == "F" and a[1] == "abs")


def const(c):
    return Expr([Term(c, (), ())])


def as_expr(x):
    if isinstance(x, Expr):
        return x
    if isinstance(x, bool):
        return const(int(x))
    if isinstance(x, (int, Fraction)):
        return const(x)
    if isinstance(x, float):
        if x != x or x in (float("inf"), float("-inf")):
            return Expr([Term(1, (), [(("K", repr(x)), 1)])])
        return const(Fraction(x) if x != int(x) else int(x))
    if isinstance(x, SInt):
        return size_expr(x)
    if type(x).__module__ == "numpy" and hasattr(x, "item") and getattr(x, "ndim", 1) == 0:  # numpy scalar (np.float32 is not a Python float)
        return as_expr(x.item())
    raise TypeError(f"cannot make Expr from {type(x)}")


def size_expr(s):
    """A size polynomial as a scalar expression: every atom becomes an ("N", atom) factor."""
    s = SInt.lift(s)
    out = []
    for m, c in s.p.items():
        out.append(Term(c, (), [(("N", sint_key(SInt({((k, 1),): 1}))), e) for k, e in m]))
    return Expr(out)


def entry(name, idx, cj=False):
    return Expr([Term(1, (), [(("E", name, tuple(idx), bool(cj)), 1)])])


def delta(a, b):
    if a == b:
        return const(1)
    if isinstance(a, tuple) and isinstance(b, tuple) and a and b and a[0] == "MIX" and b[0] == "MIX" and [k for _, k in a[1]] == [k for _, k in b[1]]:
        r = const(1)
        for (x, _), (y, _) in zip(a[1], b[1]):
            r = r * delta(x, y)
        return r
    if isinstance(a, int) and isinstance(b, int):
        return const(0)
    a, b = sorted([a, b], key=repr)
    return Expr([Term(1, (), [(("D", a, b), 1)])])


def indicator(a, size):
    return Expr([Term(1, (), [(("I", a, sint_key(size)), 1)])])


def func(name, *args):
    return Expr([Term(1, (), [(("F", name, tuple(alpha_normalize(as_expr(a)) for a in args)), 1)])])


# ------------------------------------------------------------------------------------------------ index terms
# An index term is a variable name (str), an int constant, or a gather term ("G", name, idx): the integer value of the
# symbolic integer input `name` at position idx (used for fancy indexing with symbolic index vectors).
def i_subst(i, sub):
    if isinstance(i, str):
        return sub.get(i, i)
    if isinstance(i, tuple) and i and i[0] == "G":
        return ("G", i[1], tuple(i_subst(j, sub) for j in i[2]))
    if isinstance(i, tuple) and i and i[0] in ("O", "DIV", "MOD"):  # offset / div / mod of an index term by a size
        return (i[0], i_subst(i[1], sub), i[2])
    if isinstance(i, tuple) and i and i[0] == "MIX":  # mixed-radix combination of index terms: ((term, sizekey), ...)
        return ("MIX", tuple((i_subst(t, sub), k) for t, k in i[1]))
    return i


def i_vars(i):
    if isinstance(i, str):
        return {i}
    if isinstance(i, tuple) and i and i[0] == "G":
        s = set()
        for j in i[2]:
            s |= i_vars(j)
        return s
    if isinstance(i, tuple) and i and i[0] in ("O", "DIV", "MOD"):
        return i_vars(i[1])
    if isinstance(i, tuple) and i and i[0] == "MIX":
        s = set()
        for t, _ in i[1]:
            s |= i_vars(t)
        return s
    return set()


# ------------------------------------------------------------------------------------------------ atom utilities
def a_conj(a):
    k = a[0]
    if k == "E":
        if a[1] in REAL_INPUTS:
            return a
        return ("E", a[1], a[2], not a[3])
    if k == "P":
        return ("P", a[1].conj())
    if k == "F":
        if a[1] in ("abs", "sign_real", "sqrt"):
            return a
        return ("F", a[1], tuple(x.conj() for x in a[2]))
    return a


def a_subst(a, sub):
    k = a[0]
    if k == "E":
        return ("E", a[1], tuple(i_subst(i, sub) for i in a[2]), a[3])
    if k == "D":
        x = sub.get(a[1], a[1]) if isinstance(a[1], str) else a[1]
        y = sub.get(a[2], a[2]) if isinstance(a[2], str) else a[2]
        x, y = sorted([x, y], key=repr)
        return ("D", x, y)
    if k == "I":
        return ("I", sub.get(a[1], a[1]) if isinstance(a[1], str) else a[1], a[2])
    if k in ("N", "K"):
        return a
    if k == "P":
        return ("P", a[1].subst(sub))
    if k == "F":
        return ("F", a[1], tuple(x.subst(sub) for x in a[2]))
    raise AssertionError(a)


def a_vars(a):
    k = a[0]
    if k == "E":
        s = set()
        for i in a[2]:
            s |= i_vars(i)
        return s
    if k == "D":
        return {i for i in a[1:3] if isinstance(i, str)}
    if k == "I":
        return {a[1]} if isinstance(a[1], str) else set()
    if k in ("N", "K"):
        return set()
    if k == "P":
        return a[1].free_vars()
    if k == "F":
        s = set()
        for x in a[2]:
            s |= x.free_vars()
        return s
    raise AssertionError(a)


def t_vars(t):
    s = set()
    for a, _ in t.facs:
        s |= a_vars(a)
    return s


def t_subst(t, sub):
    sub = {k: v for k, v in sub.items() if k not in t.bound}
    if not sub:
        return t
    if t.bound:
        # capture avoidance: a substituted-in variable must not coincide with one of this term's bound variables
        incoming = set()
        for v in sub.values():
            incoming |= i_vars(v)
        if incoming & set(t.bound):
            t = t_rename_bound(t)
    return Term(t.coef, t.bound, [(a_subst(a, sub), e) for a, e in t.facs])


def t_rename_bound(t):
    if not t.bound:
        return t
    ren = {v: fresh(VSIZE[v], "b") for v in t.bound}
    return Term(t.coef, tuple(ren[v] for v in t.bound), [(a_subst(a, ren), e) for a, e in t.facs])


def t_mul(a, b):
    if a.bound and b.bound and set(a.bound) & set(b.bound):
        b = t_rename_bound(b)
    d = {}
    for x, e in a.facs:
        d[x] = d.get(x, 0) + e
    for x, e in b.facs:
        d[x] = d.get(x, 0) + e
    return Term(a.coef * b.coef, a.bound + b.bound, d)


def rename_apart(expr):
    """Fresh names for all top-level bound variables (needed when one Expr value is used twice in a product)."""
    return Expr([t_rename_bound(t) for t in expr.terms])


# ------------------------------------------------------------------------------------------------ simplification
def _is_sum_of_squares(expr):
    """syntactic: every term has positive coef and all atoms have even exponents or are (x * conj x) pairs
    or non-negative atoms (N, abs, P with any exponent)."""
    for t in expr.terms:
        if t.coef < 0:
            return False
        d = dict(t.facs)
        for a, e in t.facs:
            if a[0] in ("N", "I", "D"):
                continue
            if a[0] == "F" and a[1] == "abs":
                continue
            if a[0] == "P":
                if e.denominator == 2 or e.numerator % 2 == 0:
                    continue
                if _is_sum_of_squares(a[1]):
                    continue
                return False
            if e.denominator == 1 and e % 2 == 0:
                continue
            if a[0] == "E" and a_conj(a) != a and d.get(a_conj(a)) == e:
                continue
            return False
    return True


def _collect_mix(i, out):
    if isinstance(i, tuple) and i:
        if i[0] == "MIX":
            out.append(i)
            for t_, _ in i[1]:
                _collect_mix(t_, out)
        elif i[0] == "G":
            for j in i[2]:
                _collect_mix(j, out)
        elif i[0] in ("O", "DIV", "MOD"):
            _collect_mix(i[1], out)


def _replace_index(i, old, new):
    if i == old:
        return new
    if isinstance(i, tuple) and i:
        if i[0] == "MIX":
            return ("MIX", tuple((_replace_index(t_, old, new), k) for t_, k in i[1]))
        if i[0] == "G":
            return ("G", i[1], tuple(_replace_index(j, old, new) for j in i[2]))
        if i[0] in ("O", "DIV", "MOD"):
            return (i[0], _replace_index(i[1], old, new), i[2])
    return i


def _merge_mix(t):
    """sum_{a,b} f(MIX(a,b)) where a, b are bound and occur only inside that very MIX term  ==  sum_k f(k), k < |a|*|b|
    (a reshape split a digit of an opaque tensor and the contraction runs over both halves)."""
    mixes = []
    for a, _ in t.facs:
        if a[0] == "E":
            for i in a[2]:
                _collect_mix(i, mixes)
    for m in mixes:
        comps = [c for c, _ in m[1]]
        if not all(isinstance(c, str) and c in t.bound for c in comps) or len(set(comps)) != len(comps):
            continue
        # every occurrence of each component must be inside exactly this MIX term
        ok = True
        for a, _ in t.facs:
            if a[0] != "E":
                if a_vars(a) & set(comps):
                    ok = False
                    break
                continue
            for i in a[2]:
                if i == m:
                    continue
                if i_vars(i) & set(comps):
                    ok = False
                    break
            if not ok:
                break
        if not ok:
            continue
        size = 1
        for c in comps:
            size = size * VSIZE[c]
        k = fresh(size, "b")
        nf = []
        for a, e in t.facs:
            if a[0] == "E":
                a = ("E", a[1], tuple(_replace_index(i, m, k) for i in a[2]), a[3])
            nf.append((a, e))
        return Term(t.coef, [b for b in t.bound if b not in comps] + [k], nf)
    return None


def _ortho_rewrite(coef, bound, facs):
    """sum_{p} U[p.., a] conj(U[p.., b]) -> delta(a,b)   (ORTHO[name] == 0: orthonormal columns; the row index may be a
    multi-index because of reshapes), resp. sum_{q} V[a, q..] conj(V[b, q..]) -> delta(a,b)  (ORTHO[name] == 1)."""
    bset = set(bound)
    cands = [(a, e) for a, e in facs.items() if a[0] == "E" and a[1] in ORTHO and e.denominator == 1 and e >= 1]
    for i1, (a1, e1) in enumerate(cands):
        for a2, e2 in cands[i1:]:
            if a1[1] != a2[1] or len(a1[2]) != len(a2[2]) or len(a1[2]) < 2:
                continue
            if a1 is a2 and e1 < 2:
                continue
            name = a1[1]
            axs = (0, 1) if ORTHO[name] == 2 else (ORTHO[name],)
            hit = None
            for ax in axs:
                r = _ortho_try(coef, bound, facs, bset, a1, a2, ax)
                if r is not None:
                    hit = r
                    break
            if hit is not None:
                return hit
    return None


def _ortho_try(coef, bound, facs, bset, a1, a2, ax):
    if True:
        if True:
            name = a1[1]
            keep = len(a1[2]) - 1 if ax == 0 else 0
            con1 = [x for k, x in enumerate(a1[2]) if k != keep]
            con2 = [x for k, x in enumerate(a2[2]) if k != keep]
            if con1 != con2 or not all(isinstance(v, str) and v in bset for v in con1) or len(set(con1)) != len(con1):
                return None
            if name not in REAL_INPUTS and a1[3] == a2[3]:
                return None
            # the contracted variables must occur nowhere else
            ok = True
            for v in con1:
                tot = sum(e for a, e in facs.items() if v in a_vars(a))
                if tot != 2 or (a1[2][keep] == v) or (a2[2][keep] == v):
                    ok = False
                    break
            if not ok:
                return None
            nf = dict(facs)
            if a1 == a2:
                nf[a1] = nf[a1] - 2
            else:
                nf[a1] = nf[a1] - 1
                nf[a2] = nf[a2] - 1
            nf = {a: e for a, e in nf.items() if e != 0}
            x, y = a1[2][keep], a2[2][keep]
            if x != y:
                if isinstance(x, int) and isinstance(y, int):
                    return Term(0, (), ())
                dl = delta(x, y)
                for a_, e_ in dl.terms[0].facs:
                    nf[a_] = nf.get(a_, 0) + e_
            return Term(coef, [b for b in bound if b not in con1], nf)
    return None


def _factorisation_rewrite(coef, bound, facs):
    """sum_k U[p.., k] (S[k]) V[k, q..] -> M[p.., q..] for a registered exact factorisation, when k occurs nowhere else.
    M is stored as (row index variables, column index variables, body)."""
    for chain, (mrows, mcols, mbody) in FACTORISATIONS:
        for v in bound:
            occ = [(a, e) for a, e in facs.items() if v in a_vars(a)]
            if len(occ) != len(chain) or any(e != 1 or a[0] != "E" or a[3] for a, e in occ):
                continue
            by = {a[1]: a for a, _ in occ}
            if set(by) != set(chain) or len(by) != len(chain):
                continue
            U, V = by[chain[0]], by[chain[-1]]
            if len(U[2]) != len(mrows) + 1 or len(V[2]) != len(mcols) + 1 or U[2][-1] != v or V[2][0] != v:
                continue
            if v in U[2][:-1] or v in V[2][1:]:
                continue
            if len(chain) == 3:
                Sa = by[chain[1]]
                if Sa[2] != (v,):
                    continue
            nf = {a: e for a, e in facs.items() if a not in [o[0] for o in occ]}
            rest = Term(coef, [b for b in bound if b != v], nf)
            sub = dict(zip(mrows, U[2][:-1]))
            sub.update(dict(zip(mcols, V[2][1:])))
            body = rename_apart(mbody).subst(sub)
            return [t_mul(rest, t) for t in body.terms]
    return None


def _is_real(expr):
    for t in expr.terms:
        for a, _ in t.facs:
            if a[0] == "E" and a[1] not in REAL_INPUTS:
                return False
            if a[0] == "P" and not _is_real(a[1]):
                return False
            if a[0] == "F" and a[1] not in ("abs", "sign") and not all(_is_real(x) for x in a[2]):
                return False
    return True


NONZERO_EXPRS = set()  # structural keys of P-bases asserted non-zero by the side condition of the current obligation
NONNEG_INPUTS = set()  # symbolic inputs whose entries are >= 0 (precondition of the obligation, or `ensures` of a stubbed solver)


def sign_nonneg(expr):
    """Float-robust sign domain (DESIGN §2.9 A1): True when the expression is non-negative BY CONSTRUCTION — a sum with
    non-negative coefficients of products of factors each of which is non-negative (entries of inputs declared non-negative,
    sizes, abs(.), clip(., lo >= 0, .), even powers, square roots / inverses of such) — facts that survive IEEE rounding."""
    return _sign_nonneg(expr, 0)


def collect_like_terms(expr):
    """sum the coefficients of syntactically identical terms (same bound variables and factors)"""
    acc, order = {}, []
    for t in expr.terms:
        k = (tuple(sorted(t.bound)), t.facs)
        if k not in acc:
            acc[k] = [Fraction(0), t]
            order.append(k)
        acc[k][0] += t.coef
    return Expr([Term(acc[k][0], acc[k][1].bound, acc[k][1].facs) for k in order if acc[k][0] != 0])


def _sign_nonneg(expr, depth):
    expr = collect_like_terms(expr)
    bad = False
    for t in expr.terms:
        if t.coef < 0:
            bad = True
            break
        for a, e in t.facs:
            if not _atom_nonneg(a, e):
                return False
    if not bad:
        return True
    # x·(1 − ind) + y·ind (what an item assignment into a region leaves behind): case split on a 0/1-valued atom (Kronecker delta, range indicator) that
    # only occurs outside sums - entry by entry it is either 0 or 1, and the expression must be non-negative by construction in both cases
    if depth >= 4:
        return False
    cands = []
    for t in expr.terms:
        for a, e in t.facs:
            if a[0] in ("D", "I") and a not in cands:
                cands.append(a)
    for a in cands:
        if any(t.bound and any(b == a for b, _ in t.facs) for t in expr.terms):
            continue
        cases = []
        for val in (0, 1):
            terms = []
            for t in expr.terms:
                if any(b == a for b, _ in t.facs):
                    if val == 0:
                        continue
                    terms.append(Term(t.coef, t.bound, [(b, e) for b, e in t.facs if b != a]))
                else:
                    terms.append(t)
            cases.append(Expr(terms))
        return all(_sign_nonneg(c, depth + 1) for c in cases)
    return False


def shape_key(expr):
    """structural key of an expression with every index variable masked (insensitive to renaming of free/bound variables)"""
    def ix(i):
        if isinstance(i, str):
            return "?"
        if isinstance(i, tuple) and i:
            if i[0] == "G":
                return ("G", i[1], tuple(ix(j) for j in i[2]))
            if i[0] in ("O", "DIV", "MOD"):
                return (i[0], ix(i[1]), i[2])
            if i[0] == "MIX":
                return ("MIX", tuple((ix(t_), k) for t_, k in i[1]))
        return i

    def at(a):
        k = a[0]
        if k == "E":
            return ("E", a[1], tuple(ix(i) for i in a[2]), a[3])
        if k == "D":
            return ("D",)
        if k == "I":
            return ("I", a[2])
        if k == "P":
            return ("P", shape_key(a[1]))
        if k == "F":
            return ("F", a[1], tuple(shape_key(x) for x in a[2]))
        return a
    return tuple(sorted((repr((t.coef, len(t.bound), tuple(sorted(repr((at(a), e)) for a, e in t.facs)))) for t in expr.terms)))


def _strictly_pos(expr):
    """sum of terms each strictly positive: positive coefficient and every factor strictly positive"""
    if not expr.terms:
        return False
    for t in expr.terms:
        if t.coef <= 0 or t.bound:
            return False
        for a, e in t.facs:
            if not _atom_pos(a):
                return False
    return True


def _atom_pos(a):
    k = a[0]
    if k == "N":
        return True
    if k == "F" and a[1] == "clip":
        lo = a[2][1]
        return len(lo.terms) == 1 and not lo.terms[0].facs and lo.terms[0].coef > 0
    if k == "P":
        # non-zero column norms are the obligation's side condition: only the quantities that went through where(q == 0, 1, q)
        return _strictly_pos(a[1]) or (shape_key(a[1]) in NONZERO_EXPRS and sign_nonneg(a[1]))
    return False


def _atom_nonneg(a, e):
    k = a[0]
    if e < 0:
        # a divisor must be strictly positive (otherwise 0/0 = NaN is not a non-negative number)
        return _atom_pos(a)
    if k in ("N", "D", "I"):
        return True
    if e.denominator == 1 and e % 2 == 0:
        return True
    if k == "E":
        return a[1] in NONNEG_INPUTS
    if k == "P":
        return sign_nonneg(a[1])
    if k == "F":
        if a[1] == "abs":
            return True
        if a[1] == "clip":
            lo = a[2][1]
            if len(lo.terms) == 0:
                return True  # lower bound 0
            if len(lo.terms) == 1 and not lo.terms[0].facs:
                return lo.terms[0].coef >= 0
            if len(lo.terms) == 1 and lo.terms[0].facs and lo.terms[0].facs[0][0][0] == "K":
                return False  # -inf: no lower bound
            return sign_nonneg(lo)
        return False
    return False


def simplify_term(t):
    """Returns a list of Terms equal to t with: integer powers of P/abs expanded, deltas contracted,
    indicators absorbed, unused bound variables turned into size factors."""
    # 1. expand P atoms with positive integer exponent, abs with even exponent, P of P
    facs = list(t.facs)
    for i, (a, e) in enumerate(facs):
        if a[0] == "P":
            base = a[1]
            if e.denominator == 1 and e > 0:
                rest = Term(t.coef, t.bound, facs[:i] + facs[i + 1:])
                prod = Expr([rest]) * rename_apart(base).power(e)
                return [s for u in prod.terms for s in simplify_term(u)]
            if e.denominator == 1 and e < 0 and len(base.terms) == 1 and not base.terms[0].bound:
                # inverse of a monomial: distribute
                bt = base.terms[0]
                rest = Term(t.coef / (bt.coef ** int(-e)), t.bound, facs[:i] + facs[i + 1:] + [(x, y * e) for x, y in bt.facs])
                return simplify_term(rest)
            if len(base.terms) == 1 and not base.terms[0].bound and base.terms[0].coef > 0 \
                    and all(_pow_distributes(x) or (y.denominator == 1 and y % 2 == 0 and e.denominator == 2) for x, y in base.terms[0].facs):
                bt = base.terms[0]
                c = _frac_pow(bt.coef, e)
                if c is not None:
                    newf = []
                    for x, y in bt.facs:
                        if _pow_distributes(x):
                            newf.append((x, y * e))
                        else:  # sqrt(x^2) = |x|
                            newf.append((("F", "abs", (Expr([Term(1, (), [(x, 1)])]),)), y * e))
                    rest = Term(t.coef * c, t.bound, facs[:i] + facs[i + 1:] + newf)
                    return simplify_term(rest)
        if a[0] == "F" and a[1] == "abs":
            arg = a[2][0]
            if _is_sum_of_squares(arg):
                rest = Term(t.coef, t.bound, facs[:i] + facs[i + 1:] + [(("P", arg), e)])
                return simplify_term(rest)
            if e.denominator == 1 and e > 0 and e % 2 == 0:
                rest = Term(t.coef, t.bound, facs[:i] + facs[i + 1:])
                sq = arg * rename_apart(arg.conj())
                prod = Expr([rest]) * sq.power(e / 2)
                return [s for u in prod.terms for s in simplify_term(u)]
        if a[0] == "F" and a[1] == "sign" and e.denominator == 1 and e >= 2 and RULES["sign_sq_one"]:
            # side condition: the argument is non-zero, so sign(x)^2 = 1
            rest = Term(t.coef, t.bound, facs[:i] + facs[i + 1:] + ([(a, e % 2)] if e % 2 else []))
            return simplify_term(rest)
        if a[0] == "F" and a[1] == "sign" and e.denominator == 1 and e >= 1:
            # sign(x) * abs(x) = x for real x
            ab = ("F", "abs", a[2])
            d = dict(facs)
            if ab in d and d[ab].denominator == 1 and d[ab] >= 1 and _is_real(a[2][0]):
                k = min(e, d[ab])
                newf = [(x, y) for x, y in facs if x not in (a, ab)]
                if e - k:
                    newf.append((a, e - k))
                if d[ab] - k:
                    newf.append((ab, d[ab] - k))
                rest = Term(t.coef, t.bound, newf)
                prod = Expr([rest]) * rename_apart(a[2][0]).power(k)
                return [s2 for u in prod.terms for s2 in simplify_term(u)]
        if a[0] == "F" and a[1] == "sign" and e.denominator == 1 and e > 1:
            # sign(x)^2 is 1 only for x != 0: keep sign^2 as a distinct atom power (0 or 1), reduce higher powers
            ne = 2 - (e % 2) if e > 2 else e
            if ne != e:
                rest = Term(t.coef, t.bound, facs[:i] + facs[i + 1:] + [(a, ne)])
                return simplify_term(rest)
    if CONST_INPUTS and any(a[0] == "E" and a[1] in CONST_INPUTS for a, _ in t.facs):
        coef2 = t.coef
        nf = []
        for a, e in t.facs:
            if a[0] == "E" and a[1] in CONST_INPUTS:
                c = Fraction(CONST_INPUTS[a[1]])
                if e.denominator != 1:
                    raise EngineError("fractional power of a constant input")
                coef2 = coef2 * c ** int(e)
            else:
                nf.append((a, e))
        return simplify_term(Term(coef2, t.bound, nf))
    if t.bound:
        merged = _merge_mix(t)
        if merged is not None:
            return simplify_term(merged)
    # hypothesis rewriting first (before concrete-size expansion destroys the contraction pattern)
    if t.bound and (FACTORISATIONS or ORTHO):
        d0 = dict(t.facs)
        if FACTORISATIONS:
            hit = _factorisation_rewrite(t.coef, list(t.bound), d0)
            if hit is not None:
                return [s2 for h in hit for s2 in simplify_term(h)]
        if ORTHO:
            hit = _ortho_rewrite(t.coef, list(t.bound), d0)
            if hit is not None:
                return simplify_term(hit)
    # bound variables of small concrete size are expanded (so that sum_j delta(s,j) f(j) == f(s))
    for v in t.bound:
        n = VSIZE[v]
        if not isinstance(n, SInt) or n.is_const():
            n = int(n)
            if n <= MAX_EXPAND:
                rest = [b for b in t.bound if b != v]
                out = []
                for val in range(n):
                    u = Term(t.coef, rest, [(a_subst(a, {v: val}), e) for a, e in t.facs])
                    out.extend(simplify_term(u))
                return out
    coef = t.coef
    bound = list(t.bound)
    facs = dict(t.facs)
    changed = True
    while changed:
        changed = False
        for a in list(facs):
            e = facs[a]
            if a[0] == "D":
                x, y = a[1], a[2]
                if e.denominator != 1 or e < 1:
                    raise EngineError("non-positive power of delta")
                if x == y:
                    del facs[a]
                    changed = True
                    break
                if isinstance(x, int) and isinstance(y, int):
                    return []
                # choose a bound variable to eliminate
                elim = None
                for u, w in ((x, y), (y, x)):
                    if isinstance(u, str) and u in bound:
                        elim, keep = u, w
                        break
                if elim is None:
                    if e != 1:
                        facs[a] = Fraction(1)
                        changed = True
                        break
                    continue
                del facs[a]
                n_el = VSIZE[elim]
                # range guard: keep must be < size(elim)
                if isinstance(keep, int):
                    if not _entails(SInt.lift(keep) < n_el if isinstance(n_el, SInt) else keep < n_el):
                        ia = ("I", keep, sint_key(n_el))
                        facs[ia] = 1
                else:
                    n_k = VSIZE[keep]
                    if not (SInt.lift(n_k).same(n_el) or _entails(_le(n_k, n_el))):
                        ia = ("I", keep, sint_key(n_el))
                        facs[ia] = 1
                bound.remove(elim)
                sub = {elim: keep}
                nf = {}
                for b, eb in facs.items():
                    b2 = a_subst(b, sub)
                    nf[b2] = nf.get(b2, 0) + eb
                facs = nf
                changed = True
                break
            if a[0] == "I":
                v, sk = a[1], a[2]
                r = size_from_key(sk)
                if facs[a] != 1:
                    facs[a] = Fraction(1)
                if isinstance(v, int):
                    sb = SInt.lift(v) < r if isinstance(r, SInt) else v < r
                    if _entails(sb):
                        del facs[a]
                        changed = True
                        break
                    if _entails(_not(sb)):
                        return []
                    continue
                n = VSIZE[v]
                if SInt.lift(n).same(r) or _entails(_le(n, r)):
                    del facs[a]
                    changed = True
                    break
                if v in bound and _entails(_le(r, n)):
                    v2 = fresh(r, "b")
                    del facs[a]
                    bound[bound.index(v)] = v2
                    sub = {v: v2}
                    nf = {}
                    for b, eb in facs.items():
                        b2 = a_subst(b, sub)
                        nf[b2] = nf.get(b2, 0) + eb
                    facs = nf
                    changed = True
                    break
    # hypothesis rewriting: orthonormality of dependency results
    if ORTHO:
        hit = _ortho_rewrite(coef, bound, facs)
        if hit is not None:
            return simplify_term(hit)
    if FACTORISATIONS:
        hit = _factorisation_rewrite(coef, bound, facs)
        if hit is not None:
            out = []
            for h in hit:
                out.extend(simplify_term(h))
            return out
    # unused bound variables -> size factor
    used = set()
    for a in facs:
        used |= a_vars(a)
    terms = [Term(coef, [v for v in bound if v in used], facs)]
    for v in bound:
        if v not in used:
            se = size_expr(VSIZE[v])
            terms = [t_mul(x, y) for x in terms for y in se.terms]
    return terms


def _le(a, b):
    r = SInt.lift(a) <= b
    return r


def _not(sb):
    if isinstance(sb, bool):
        return not sb
    return sb.negate()


# ------------------------------------------------------------------------------------------------ canonical form
def _idx_key(i, ren):
    if isinstance(i, str):
        return ren.get(i, "$" + i)
    if isinstance(i, tuple) and i and i[0] == "G":
        return ("G", i[1], tuple(_idx_key(j, ren) for j in i[2]))
    if isinstance(i, tuple) and i and i[0] in ("O", "DIV", "MOD"):
        return (i[0], _idx_key(i[1], ren), i[2])
    if isinstance(i, tuple) and i and i[0] == "MIX":
        return ("MIX", tuple((_idx_key(t, ren), k) for t, k in i[1]))
    return i


def atom_key(a, ren, depth):
    k = a[0]
    if k == "E":
        return ("E", a[1], tuple(_idx_key(i, ren) for i in a[2]), a[3])
    if k == "D":
        x, y = sorted([_idx_key(a[1], ren), _idx_key(a[2], ren)], key=repr)
        return ("D", x, y)
    if k == "I":
        return ("I", _idx_key(a[1], ren), a[2])
    if k in ("N", "K"):
        return a
    if k == "P":
        return ("P", expr_key(a[1], ren, depth + 1))
    if k == "F":
        return ("F", a[1], tuple(expr_key(x, ren, depth + 1) for x in a[2]))
    raise AssertionError(a)


def _mask_key(a, v, bset, depth=0):
    """Coarse invariant of how variable v occurs in atom a (other bound variables masked)."""
    ren = {b: "*" for b in bset}
    ren[v] = "@"
    return repr(atom_key_masked(a, ren))


def atom_key_masked(a, ren):
    k = a[0]
    if k in ("P", "F"):
        subs = a[2] if k == "F" else (a[1],)
        inner = []
        for x in subs:
            tk = []
            for t in x.terms:
                r2 = dict(ren)
                for b in t.bound:
                    r2[b] = "*"
                tk.append((t.coef, len(t.bound), tuple(sorted(repr((atom_key_masked(y, r2), e)) for y, e in t.facs))))
            inner.append(tuple(sorted(tk, key=repr)))
        return (k, a[1] if k == "F" else None, tuple(inner))
    return atom_key(a, ren, 0)


MAX_PERMS = 5040
MAX_EXPAND = 8
# rewriting rules that hold only under a side condition of the obligation (set/cleared by the obligation runner)
RULES = {"sign_sq_one": False}
# hypothesis rewriting (assumed contracts of svd/qr/eigh results): name -> axis over which the matrix is orthonormal,
# i.e. sum_i U[i,a] conj(U[i,b]) = delta(a,b) when axis == 0  (orthonormal columns), axis == 1: orthonormal rows.
ORTHO = {}
# exact-factorisation hypotheses: list of (chain, M) with chain = (Uname, Vname) meaning sum_k U[i,k] V[k,j] = M[i,j]
# or chain = (Uname, Sname, Vname) meaning sum_k U[i,k] S[k] V[k,j] = M[i,j];  M = (axes_i_var, axes_j_var, body Expr)
FACTORISATIONS = []
# path facts: name -> constant, every entry of that symbolic input equals the constant on the current path
CONST_INPUTS = {}


def term_key(t, ren, depth, want_ren=False):
    """Canonical key of a *simplified* term under the outer renaming `ren`.
    Bound variables are canonically labelled by individualisation–refinement (colour refinement over the atoms seen as
    hyperedges); all members of the first non-trivial cell are tried, so the result does not depend on variable names."""
    bound = list(t.bound)
    if not bound:
        fk = tuple(sorted(((atom_key(a, ren, depth), e) for a, e in t.facs), key=repr))
        return (((), fk), {}) if want_ren else ((), fk)
    bset = set(bound)
    occ_atoms = {v: [] for v in bound}
    for a, e in t.facs:
        av = a_vars(a)
        for v in bound:
            if v in av:
                occ_atoms[v].append((a, e))
    outer = {k: v for k, v in ren.items()}

    def refine(col):
        # col: var -> hashable colour.  iterate until the partition is stable
        while True:
            new = {}
            for v in bound:
                env = []
                for a, e in occ_atoms[v]:
                    ren_c = dict(outer)
                    for b in bset:
                        ren_c[b] = ("*", col[b])
                    ren_c[v] = "@"
                    env.append((repr(atom_key_masked(a, ren_c)), str(e)))
                new[v] = (col[v], tuple(sorted(env)))
            # compress colours to small ints by sorted order (name independent)
            ranks = {c: i for i, c in enumerate(sorted(set(new.values()), key=repr))}
            new = {v: ranks[new[v]] for v in bound}
            if len(set(new.values())) == len(set(col.values())):
                return new
            col = new

    leaves = [0]
    best = [None, None]

    def leaf(col):
        leaves[0] += 1
        if leaves[0] > MAX_PERMS:
            raise EngineError(f"canonicalisation too large (> {MAX_PERMS} labelings)")
        order = sorted(bound, key=lambda v: col[v])
        r2 = dict(ren)
        names = []
        for n, v in enumerate(order):
            nm = f"#{depth}.{n}"
            r2[v] = nm
            names.append((nm, repr(sint_key(VSIZE[v]))))
        fk = tuple(sorted(((atom_key(a, r2, depth), e) for a, e in t.facs), key=repr))
        key = (tuple(names), fk)
        if best[0] is None or repr(key) < repr(best[0]):
            best[0] = key
            best[1] = {v: r2[v] for v in bound}

    def search(col):
        col = refine(col)
        cells = {}
        for v in bound:
            cells.setdefault(col[v], []).append(v)
        nontrivial = [c for c in sorted(cells) if len(cells[c]) > 1]
        if not nontrivial:
            leaf(col)
            return
        c = nontrivial[0]
        for v in cells[c]:
            col2 = {u: (col[u] * 2 + (0 if u == v else 1)) if col[u] == c else col[u] * 2 for u in bound}
            search(col2)

    init = {}
    for v in bound:
        init[v] = repr(sint_key(VSIZE[v]))
    ranks = {c: i for i, c in enumerate(sorted(set(init.values())))}
    search({v: ranks[init[v]] for v in bound})
    return (best[0], best[1]) if want_ren else best[0]


def alpha_normalize(expr):
    """Normalise and give the top-level bound variables deterministic names, so that two separately built
    but alpha-equivalent sub-expressions become the *same* atom when wrapped in P/F."""
    acc = {}
    rep = {}
    for t in expr.terms:
        for s in simplify_term(t):
            if s.coef == 0:
                continue
            k, r = term_key(s, {}, 0, want_ren=True)
            acc[k] = acc.get(k, 0) + s.coef
            if k not in rep:
                rep[k] = (s, r)
    out = []
    for k in sorted(acc, key=repr):
        c = acc[k]
        if c == 0:
            continue
        s, r = rep[k]
        ren = {}
        for v in s.bound:
            nm = "c" + r[v][1:].replace(".", "_") + "_" + format(zlib.crc32(repr(sint_key(VSIZE[v])).encode()) % 100000, "d")
            VSIZE[nm] = VSIZE[v]
            ren[v] = nm
        out.append(Term(c, tuple(ren[v] for v in s.bound), [(a_subst(a, ren), e) for a, e in s.facs]))
    return Expr(out)


_KEY_CACHE = {}


def expr_key(expr, ren=None, depth=0):
    """Canonical key (hashable) of an expression.  Equal keys <=> equal expressions on the polynomial fragment."""
    ren = ren or {}
    if depth > 0 and current_ctx() is None or depth > 0:
        fv = expr.free_vars()
        ck = (expr.skey(), tuple(sorted((v, ren.get(v)) for v in fv)), depth, RULES["sign_sq_one"], tuple(sorted(ORTHO.items())), len(FACTORISATIONS), tuple(sorted(CONST_INPUTS.items())))
        hit = _KEY_CACHE.get(ck)
        if hit is not None:
            return hit
        if len(_KEY_CACHE) > 200000:
            _KEY_CACHE.clear()
        r = _expr_key(expr, ren, depth)
        _KEY_CACHE[ck] = r
        return r
    return _expr_key(expr, ren, depth)


def _expr_key(expr, ren, depth):
    acc = {}
    for t in expr.terms:
        for s in simplify_term(t):
            if s.coef == 0:
                continue
            k = term_key(s, ren, depth)
            acc[k] = acc.get(k, 0) + s.coef
    return tuple(sorted(((k, c) for k, c in acc.items() if c != 0), key=repr))


def normalize(expr):
    """Simplify and merge like terms (keeps one representative term per canonical key)."""
    acc = {}
    rep = {}
    for t in expr.terms:
        for s in simplify_term(t):
            if s.coef == 0:
                continue
            k = term_key(s, {}, 0)
            acc[k] = acc.get(k, 0) + s.coef
            rep.setdefault(k, s)
    out = []
    for k, c in acc.items():
        if c != 0:
            s = rep[k]
            out.append(Term(c, s.bound, s.facs))
    return Expr(out)


def equal(a, b):
    """Decide a == b.  Returns (True/False, diff) where diff is the canonical key of a - b."""
    d = expr_key(a - b)
    return (len(d) == 0), d


def describe_key(k):
    out = []
    for (names, fk), c in k:
        out.append(f"{c} * Σ{[n for n, _ in names]} " + " · ".join(f"{a}^{e}" if e != 1 else f"{a}" for a, e in fk))
    return out
