"""Obligations, verdicts and the E1-generic obligation runner (DESIGN §2.4–2.7, §2.10)."""
import builtins
import copy
import json
import os
import signal
import time
import traceback

import numpy as np

from . import gtensor as G
from . import gbackend as B
from .ns import SymNS, NumNS, concretize_args
from .symint import SInt, SBool, EngineError, PathCap, explore, atom_lower, Ctx

PROVED, REFUTED, UNDECIDED, ENGINE_BUG = "proved", "refuted", "undecided", "engine-bug"


class Verdict:
    def __init__(self, status, backend, detail="", paths=1, witness=None, time_s=0.0, extra=None):
        self.status = status
        self.backend = backend
        self.detail = detail
        self.paths = paths
        self.witness = witness  # dict: concrete failing input description (replayable) or None
        self.time_s = time_s
        self.extra = extra or {}

    def to_json(self):
        return dict(status=self.status, backend=self.backend, detail=self.detail[:2000], paths=self.paths,
                    witness=self.witness, time_s=round(self.time_s, 4), **({"extra": self.extra} if self.extra else {}))


class Obligation:
    """Base class.  Subclasses implement run() -> Verdict and optionally replay(witness) -> (ok, detail)."""
    engine = "?"

    def __init__(self, pid, name, function, instance=None, forall=(), enumerated=(), clause=""):
        self.pid = pid
        self.name = name
        self.function = function
        self.instance = instance or {}
        self.forall = list(forall)
        self.enumerated = list(enumerated)
        self.clause = clause
        self.bounded = False  # True => bounded stand-in, never counted as proved

    def run(self):
        raise NotImplementedError

    def replay(self, witness):
        raise NotImplementedError

    def describe(self):
        return dict(name=self.name, function=self.function, clause=self.clause, instance=_jsonable(self.instance),
                    forall=self.forall, enumerated=self.enumerated, engine=self.engine)


def _jsonable(x):
    if isinstance(x, dict):
        return {str(k): _jsonable(v) for k, v in x.items()}
    if isinstance(x, (list, tuple)):
        return [_jsonable(v) for v in x]
    if isinstance(x, (str, builtins.int, float, bool)) or x is None:
        return x
    return repr(x)


# ------------------------------------------------------------------------------------------------ E1-generic obligations
def compare_num(got, want, rtol=1e-8, atol=1e-9, floor=1.0):
    got = np.asarray(got)
    want = np.asarray(want)
    if got.shape != want.shape:
        return False, f"shape {got.shape} vs expected {want.shape}"
    if got.size == 0:
        return True, ""
    if not np.all(np.isfinite(got)) and np.all(np.isfinite(want)):
        return False, "non-finite values in result"
    err = float(np.max(np.abs(got - want)))
    scale = float(np.max(np.abs(want))) if want.size else 0.0
    ok = err <= atol + rtol * max(scale, floor)
    return ok, f"max|got-want|={err:.3e} (scale {scale:.3e})"


def _raised_in_harness(exc):
    """True when the innermost frame of the exception's traceback is code of an obligation module (vt/props/*), i.e. the harness around the real call - not
    the code under proof, not the symbolic backend (whose ValueErrors model numpy's)"""
    import os
    tb = exc.__traceback__
    last = None
    while tb is not None:
        last = tb
        tb = tb.tb_next
    if last is None:
        return False
    fn = last.tb_frame.f_code.co_filename
    return os.sep + os.path.join("vt", "props") + os.sep in fn


class GOb(Obligation):
    """An obligation discharged by E1-generic: the real function is run on symbolic tensors through the
    symbolic backend; `post` yields (label, got, want) pairs that must be equal as tensors for all sizes/values.

    setup(S)        -> I  (dict of inputs/params; S is SymNS or NumNS; sizes are SInt atoms)
    call(I)         -> result of the REAL repo function
    post(S, I, res) -> list of (label, got, want)
    raises          -> exception type every feasible path must raise (error contract) or None
    assumptions(I)  -> list of SBool preconditions (optional)
    allowed_prims   -> set of primitive names the call may use (frame/dtype obligation) or None
    """
    engine = "E1-generic"

    def __init__(self, pid, name, function, setup, call, post=None, tenalg=None, raises=None, assumptions=None,
                 allowed_prims=None, dtypes=("float64",), check_dtype=False, side_nonzero=False, **kw):
        super().__init__(pid, name, function, **kw)
        self.setup, self.call, self.post = setup, call, post
        self.tenalg = tenalg
        self.raises = raises
        self.assumptions = assumptions
        self.allowed_prims = allowed_prims
        self.dtypes = dtypes
        self.check_dtype = check_dtype
        self.side_nonzero = side_nonzero  # prove under "quantities tested by where(q == 0, ..) are non-zero"

    # ---- symbolic run
    def run(self):
        t0 = time.time()
        try:
            v = self._run()
        except PathCap as e:
            v = Verdict(UNDECIDED, "path-cap", str(e))
        except EngineError as e:
            v = Verdict(UNDECIDED, "engine", f"{type(e).__name__}: {e}")
        v.time_s = time.time() - t0
        return v

    def _run(self):
        with B.symbolic_session(tenalg=self.tenalg):
            G.INPUTS.clear()
            G.SIDE["nonzero_where"] = self.side_nonzero
            G.SIDE["used"] = []
            from . import expr as _X
            _X.RULES["sign_sq_one"] = bool(self.side_nonzero)
            S = SymNS()
            I = self.setup(S)
            self._extra_atoms = _sint_atoms(I)
            assum = self.assumptions(I) if self.assumptions else []
            state = {}

            def body():
                G.PRIM_LOG.clear()
                G.reset_execution()
                del G.WRITE_LOG[:]
                # the call works on its own copies of the input tensors (numpy's in-place operators write into them); the spec is evaluated on the
                # inputs as they were before the call, and a later path does not see what an earlier one wrote
                try:
                    res = self.call(_snapshot_inputs(I))
                except EngineError:
                    raise
                except (KeyError, AttributeError, IndexError, TypeError, NameError, AssertionError) as e:
                    if _raised_in_harness(e):   # the obligation's own call harness broke (e.g. it reads a local the code no longer has): a checker problem, never a verdict on /repo
                        raise EngineError(f"call harness failed: {type(e).__name__}: {e}")
                    raise
                prims = list(G.PRIM_LOG)
                try:
                    pairs = self.post(S, I, res) if self.post else []
                except EngineError:
                    raise
                except Exception as e:  # an error in the contract itself is a checker problem, never a verdict on /repo
                    raise EngineError(f"contract/spec evaluation failed: {type(e).__name__}: {e}")
                checks = []
                for label, got, want in pairs:  # compared inside the path's context (path facts usable)
                    ok, info = _sym_equal(got, want, self.check_dtype)
                    checks.append((label, ok, info))
                    if not ok:
                        break
                return res, prims, pairs, checks, dict(G.INPUTS)

            paths = explore(body, assum)
            npaths = len(paths)
            fails = []
            undec = []
            mon = None
            for p in paths:
                if p.kind == "engine":
                    undec.append((p, f"{type(p.value).__name__}: {p.value}"))
                    continue
                if self.raises is not None:
                    if p.kind == "exc" and isinstance(p.value, self.raises):
                        continue
                    fails.append((p, "expected %s on every path, got %s" % (self.raises.__name__, _short(p))))
                    continue
                if p.kind == "exc":
                    fails.append((p, f"exception on a feasible path: {type(p.value).__name__}: {p.value}"))
                    continue
                res, prims, pairs, checks, _inp = p.value
                if self.allowed_prims is not None:
                    bad = sorted(set(prims) - set(self.allowed_prims))
                    if bad:
                        fails.append((p, f"frame: primitives outside the allowed set: {bad}"))
                        continue
                for label, ok, info in checks:
                    if not ok:
                        fails.append((p, f"{label}: {info}"))
                        break
            # ---- classify
            if fails:
                p, why = fails[0]
                wit = self._concretize(p, why)
                if wit is not None and wit.get("native_fails"):
                    return Verdict(REFUTED, "canonical-form", why, npaths, wit)
                if wit is not None and wit.get("native_ok_everywhere") and why.startswith("exception on a feasible path"):
                    return Verdict(UNDECIDED, "engine", "exception in the symbolic run that no concrete instance reproduces natively: " + why, npaths, wit)
                if wit is not None and wit.get("native_ok_everywhere") and not wit.get("polynomial", True):
                    return Verdict(UNDECIDED, "canonical-form", "symbolic mismatch outside the polynomial fragment, no concrete failing input: " + why, npaths, wit)
                return Verdict(REFUTED, "canonical-form", why, npaths, wit)
            if undec:
                p, why = undec[0]
                # a Misaligned reshape is what a wrong layout looks like: let the native differential decide
                if why.startswith("Misaligned"):
                    wit = self._concretize(p, why)
                    if wit is not None and wit.get("native_fails"):
                        return Verdict(REFUTED, "concretised-misaligned", why, npaths, wit)
                return Verdict(UNDECIDED, "engine", why, npaths)
            # ---- engine soundness monitor: symbolic result evaluated at a concrete instance == native run
            # (only a path without data-dependent decisions is comparable with one native run)
            mpaths = [p for p in paths if not p.ctx.data_path]
            okm, info = self._monitor(mpaths[0]) if (self.post and self.raises is None and mpaths) else (True, "monitor skipped: every path has data-dependent decisions")
            if not okm:
                return Verdict(ENGINE_BUG, "soundness-monitor", info, npaths)
            return Verdict(PROVED, getattr(self, "backend_label", None) or ("canonical-form" if self.raises is None else "path-condition"), "", npaths,
                           extra={"monitor": info} if info else None)

    # ---- concretisation
    def _envs(self, path, n=3):
        """Candidate size assignments satisfying assumptions ∧ path condition."""
        names = sorted(_atoms_of(self, path) | getattr(self, "_extra_atoms", set()))
        out = []
        zm = _diverse_model(path, names)
        if zm is not None:
            out.append(zm)
        for k in range(n):
            env = {a: max(atom_lower(a), 2 + ((i + k) % 3) + (1 if k == 2 else 0)) for i, a in enumerate(names)}
            if _satisfies(path, env):
                out.append(env)
        if not out and path is not None and path.ctx is not None:
            m = path.ctx.model()
            if m is not None:
                for a in names:
                    m.setdefault(a, max(atom_lower(a), 2))
                out.append(m)
        return out

    def native(self, env, seed):
        """Run the real function natively (NumPy backend) and compare with the spec.  -> (ok, detail)"""
        with _native_backend(self.tenalg):
            G.reset_execution()
            rng = np.random.RandomState(seed)
            S = NumNS(env, rng)
            S.scale = {1: 0.05, 3: 0.2, 4: 20.0, 6: 1e-18}.get(seed, 1.0)
            tiny = S.scale < 1e-6   # data far below machine epsilon in absolute terms (guards written as `x <= eps` instead of `x == 0` show only there): compare relative to the values themselves
            I = concretize_args(self.setup(S), env)
            I0 = copy.deepcopy(I)  # the spec is evaluated on the inputs as they were before the call
            try:
                res = self.call(I)
            except Exception as e:  # noqa
                if self.raises is not None and isinstance(e, self.raises):
                    return True, "raised as specified"
                return False, f"exception {type(e).__name__}: {e}"
            if self.raises is not None:
                return False, f"no {self.raises.__name__} raised"
            for label, got, want in (self.post(S, I0, res) if self.post else []):
                ok, info = compare_num(got, want, 1e-6, 0.0, 0.0) if tiny else compare_num(got, want)
                if not ok:
                    return False, f"{label}: {info}"
                if self.check_dtype and hasattr(got, "dtype") and hasattr(want, "dtype") and np.asarray(got).dtype != np.asarray(want).dtype:
                    return False, f"{label}: dtype {np.asarray(got).dtype} vs expected {np.asarray(want).dtype}"
            return True, ""

    def _concretize(self, path, why):
        tried = []
        for env in self._envs(path):
            for seed in (int(os.environ.get("VERIF_SEED", "0") or 0), 1, 2, 3, 4, 5, 6):
                try:
                    ok, info = self.native(env, seed)
                except Exception as e:  # harness problem: report, do not claim
                    tried.append(dict(env=env, seed=seed, error=f"{type(e).__name__}: {e}"))
                    continue
                tried.append(dict(env=env, seed=seed, ok=ok, info=info))
                if not ok:
                    return dict(native_fails=True, env=env, seed=seed, observed=info, symbolic_reason=why)
        return dict(native_fails=False, native_ok_everywhere=bool(tried) and all(t.get("ok") for t in tried), tried=tried[:4],
                    symbolic_reason=why, polynomial=("^1/2" not in why and "abs(" not in why and "sign(" not in why and "WHERE#" not in why and "HAVOC#" not in why and "MASKSEL#" not in why))

    def _monitor(self, path):
        envs = self._envs(path, 3)
        if not envs:
            return True, "monitor skipped: no concrete instance"
        last = None
        for env in envs:
            try:
                return self._monitor_at(path, env)
            except np.linalg.LinAlgError as e:  # a degenerate native instance (e.g. rank > size): try the next environment
                last = e
        return True, f"monitor skipped: native instances degenerate ({last})"

    def _monitor_at(self, path, env):
        res, prims, pairs, _checks, path_inputs = path.value
        G.INPUTS.update(path_inputs)  # opaque tensors are re-declared on every path: use this path's declarations
        try:
            import tensorly as tl
            import tensorly.tenalg as tenalg_mod
            rng = np.random.RandomState(12345)
            S = NumNS(env, rng)
            # evaluate symbolic `got` values on the inputs NumNS draws, compare with the native `got`
            with _native_backend(self.tenalg) as nb:
                G.reset_execution()
                I = concretize_args(self.setup(S), env)
                I0 = copy.deepcopy(I)
                inputs0 = copy.deepcopy(S.inputs)
                nres = self.call(I)
                npairs = self.post(S, I0, nres)
                inputs0.update(nb.recorded)
                inputs0.update(S.recorded)
            for (label, got, want), (_, ngot, nwant) in zip(pairs, npairs):
                if not isinstance(got, G.GTensor) or "denominators cleared" in label:
                    continue
                sv = G.evaluate(got, env, inputs0)
                ok, info = compare_num(sv, np.asarray(ngot), 1e-7, 1e-8)
                if not ok:
                    return False, f"symbolic result of the code side disagrees with the native run at {env}: {label}: {info}"
            return True, f"monitor ok at {env}"
        except EngineError as e:
            return True, f"monitor skipped: {e}"

    def replay(self, witness):
        return self.native(witness["env"], witness["seed"])


class _native_backend:
    def __init__(self, tenalg):
        self.tenalg = tenalg

    def __enter__(self):
        import tensorly as tl
        import tensorly.tenalg as tenalg_mod
        self.old = tl.backend.BackendManager.current_backend()
        self.old_t = tenalg_mod.get_backend()
        tl.set_backend("numpy")
        if self.tenalg:
            tenalg_mod.set_backend(self.tenalg)
        # record the results of the linear-algebra dependencies in call order: they instantiate the opaque
        # SOL#k / LSQ#k tensors of the symbolic run when symbolic results are evaluated (soundness monitor)
        from tensorly.backend.numpy_backend import NumpyBackend
        self.recorded = {}
        self._saved = {}
        counters = {}

        def wrap(name, prefix, pick):
            real = NumpyBackend.__dict__[name]
            self._saved[name] = real
            f = real.__func__ if hasattr(real, "__func__") else real

            def rec(*a, **k):
                snap = G.caller_snapshot()
                snap = {kk: ([np.array(x, copy=True) if isinstance(x, np.ndarray) else x for x in vv] if isinstance(vv, list) else
                             (np.array(vv, copy=True) if isinstance(vv, np.ndarray) else vv)) for kk, vv in snap.items()}
                args = [np.array(x, copy=True) if isinstance(x, np.ndarray) else x for x in a[:2]]
                out = f(*a, **k)
                i = counters.get(prefix, 0)
                counters[prefix] = i + 1
                self.recorded[f"{prefix}#{i}"] = np.array(pick(out), copy=True)
                G.LA_LOG.append(dict(op=name, A=args[0], B=args[1] if len(args) > 1 else None, X=pick(out), at=snap))
                return out
            NumpyBackend.register_method(name, rec)
        wrap("solve", "SOL", lambda o: o)
        wrap("lstsq", "LSQ", lambda o: o[0])
        real_qr = NumpyBackend.__dict__["qr"]
        self._saved["qr"] = real_qr
        fq = real_qr.__func__ if hasattr(real_qr, "__func__") else real_qr

        def rec_qr(*a, **k):
            out = fq(*a, **k)
            i = counters.get("QRQ", 0)
            counters["QRQ"] = i + 1
            self.recorded[f"QRQ#{i}"] = np.array(out[0], copy=True)
            self.recorded[f"QRR#{i}"] = np.array(out[1], copy=True)
            return out
        NumpyBackend.register_method("qr", rec_qr)
        return self

    def __exit__(self, *a):
        import tensorly as tl
        import tensorly.tenalg as tenalg_mod
        from tensorly.backend.numpy_backend import NumpyBackend
        for name, real in self._saved.items():
            setattr(NumpyBackend, name, real)
        tl.set_backend(self.old)
        tenalg_mod.set_backend(self.old_t)
        return False


def _short(p):
    if p.kind == "exc":
        return f"{type(p.value).__name__}: {p.value}"[:200]
    return "normal return"


def _atoms_of(ob, path):
    names = set()
    from .expr import VSIZE
    for name, meta in G.INPUTS.items():
        for s in meta["digits"]:
            if isinstance(s, SInt):
                names.update(s.atoms())
    if path is not None:
        for c in path.cond:
            if isinstance(c, SBool):
                names.update(c.p.atoms())
    return names


def _diverse_model(path, names):
    """a model of assumptions ∧ path with all atoms >= 2 and pairwise distinct (avoids degenerate / coincidental sizes)"""
    if path is None or path.ctx is None or not names:
        return None
    import z3
    s = z3.Solver()
    s.set("timeout", 3000)
    for a in list(path.ctx.assumptions) + list(path.cond):
        if isinstance(a, SBool):
            s.add(a.z3())
    vs = [z3.Int(n) for n in names]
    for ub, distinct in ((4, True), (6, True), (4, False), (9, True), (9, False)):
        s.push()
        for v, n in zip(vs, names):
            s.add(v >= max(2, atom_lower(n)), v <= ub)
        if distinct and len(vs) > 1 and len(vs) <= ub - 1:
            s.add(z3.Distinct(*vs))
        if s.check() == z3.sat:
            m = s.model()
            s.pop()
            return {n: m.eval(v, model_completion=True).as_long() for v, n in zip(vs, names)}
        s.pop()
    return None


def _sint_atoms(obj, depth=0):
    out = set()
    if isinstance(obj, SInt):
        out.update(obj.atoms())
    elif isinstance(obj, dict) and depth < 4:
        for v in obj.values():
            out |= _sint_atoms(v, depth + 1)
    elif isinstance(obj, (list, tuple)) and depth < 4:
        for v in obj:
            out |= _sint_atoms(v, depth + 1)
    return out


def _satisfies(path, env):
    if path is None:
        return True
    conds = list(path.cond) + [a for a in path.ctx.assumptions if isinstance(a, SBool)]
    for c in conds:
        if isinstance(c, SBool):
            try:
                v = c.p.subs(env)
            except KeyError:
                return False
            if not {"==": v == 0, "!=": v != 0, "<": v < 0, "<=": v <= 0, ">": v > 0, ">=": v >= 0}[c.op]:
                return False
    return True


def _sym_equal(got, want, check_dtype=False):
    """Compare a (possibly nested) symbolic value with the spec."""
    if isinstance(want, (list, tuple)):
        if not isinstance(got, (list, tuple)) or len(got) != len(want):
            return False, f"structure: expected sequence of {len(want)}, got {type(got).__name__}"
        for i, (g, w) in enumerate(zip(got, want)):
            ok, info = _sym_equal(g, w, check_dtype)
            if not ok:
                return False, f"[{i}] {info}"
        return True, None
    if isinstance(want, G.GTensor) or isinstance(got, G.GTensor):
        if got is None or want is None:
            return False, f"expected {want!r}, got {got!r}"
        try:
            g = G.lift(got)
            w = G.lift(want)
        except EngineError as e:
            return False, str(e)
        ok, info = G.tensors_equal(g, w)
        if ok and check_dtype and g.dtype != w.dtype:
            return False, f"dtype {g.dtype} vs expected {w.dtype}"
        return ok, info
    if isinstance(want, SInt) or isinstance(got, SInt):
        if SInt.lift(got).same(want):
            return True, None
        from .symint import current_ctx
        ctx = current_ctx()
        eq = SInt.lift(got) == want
        if ctx is not None and not isinstance(eq, bool) and ctx.entails(eq):
            return True, None  # equal under the path condition (e.g. min(a, r) returned a on the path where r == a)
        return False, f"{got!r} vs expected {want!r}"
    return (got == want, f"{got!r} vs expected {want!r}")


def _snapshot_inputs(x):
    if isinstance(x, G.GTensor):
        return x.copy()
    if isinstance(x, dict):
        return {k: _snapshot_inputs(v) for k, v in x.items()}
    if isinstance(x, list):
        return [_snapshot_inputs(v) for v in x]
    if isinstance(x, tuple):
        return tuple(_snapshot_inputs(v) for v in x)
    return x


# ------------------------------------------------------------------------------------------------ running
class _Timeout(BaseException):
    """BaseException so that neither the explorer nor repo code can swallow it"""


def _alarm(signum, frame):
    raise _Timeout()


def run_one(ob, timeout_s=120):
    t0 = time.time()
    old = signal.signal(signal.SIGALRM, _alarm)
    signal.alarm(int(timeout_s))
    try:
        v = ob.run()
    except _Timeout:
        v = Verdict(UNDECIDED, "timeout", f"obligation exceeded {timeout_s}s")
    except Exception as e:  # checker crash: undecided with traceback (never a violation)
        v = Verdict(UNDECIDED, "checker-error", f"{type(e).__name__}: {e}\n{traceback.format_exc()[-1500:]}")
    finally:
        signal.alarm(0)
        signal.signal(signal.SIGALRM, old)
    if not v.time_s:
        v.time_s = time.time() - t0
    return v
