"""Spec functions: textbook index formulas, written from the property statements / Kolda–Bader, never from
the code.  Each takes a spec namespace S (SymNS or NumNS, see ns.py) so the same formula is used for the
symbolic proof and for numeric concretisation / replay.
"""
_L = "abcdefghijklmnopqrstuvwxyzABCDEFGHIJKLMNOPQRSTUVWXYZ"


def letters(n, start=0):
    return _L[start:start + n]


def ndim(S, t):
    return len(S.shape(t))


# ------------------------------------------------------------------------------------------------ C02
def mode_dot(S, X, M, mode, transpose=False):
    """(X x_mode M)[.., j, ..] = sum_k M[j,k] X[.., k, ..];  transpose=True uses conj(M)^T; vectors drop the mode."""
    N = ndim(S, X)
    lx = letters(N)
    if ndim(S, M) == 2:
        if transpose:
            return S.einsum(f"{lx},{lx[mode]}Z->{lx[:mode]}Z{lx[mode + 1:]}", X, S.conj(M))
        return S.einsum(f"{lx},Z{lx[mode]}->{lx[:mode]}Z{lx[mode + 1:]}", X, M)
    v = S.conj(M) if transpose else M
    return S.einsum(f"{lx},{lx[mode]}->{lx[:mode]}{lx[mode + 1:]}", X, v)


def multi_mode_dot(S, X, ops, modes=None, skip=None, transpose=False):
    """X x_{m1} A1 x_{m2} A2 ... : every listed (operand, mode) pair contracted (except index `skip`); matrices replace
    the mode in place, vectors remove it."""
    N = ndim(S, X)
    if modes is None:
        modes = list(range(len(ops)))
    lx = list(letters(N))
    out = list(lx)
    subs = ["".join(lx)]
    args = [X]
    nxt = N
    for i, (A, m) in enumerate(zip(ops, modes)):
        if skip is not None and i == skip:
            continue
        if ndim(S, A) == 2:
            new = _L[nxt]
            nxt += 1
            if transpose:
                subs.append(lx[m] + new)
                args.append(S.conj(A))
            else:
                subs.append(new + lx[m])
                args.append(A)
            out[m] = new
        else:
            subs.append(lx[m])
            args.append(S.conj(A) if transpose else A)
            out[m] = None
    return S.einsum(",".join(subs) + "->" + "".join(o for o in out if o), *args)


def kronecker(S, mats):
    """(A1 ⊗ ... ⊗ Ap)[(i1..ip),(j1..jp)] = prod_q Aq[iq,jq], row/column digits in operand order (first most significant)."""
    p = len(mats)
    rows = letters(p)
    cols = letters(p, p)
    r = S.einsum(",".join(rows[q] + cols[q] for q in range(p)) + "->" + rows + cols, *mats)
    return S.group(r, [list(range(p)), list(range(p, 2 * p))])


def khatri_rao(S, mats, weights=None, mask=None):
    """(U1 ⊙ ... ⊙ Up)[(i1..ip), r] = w_r · prod_q Uq[iq,r] · mask[(i1..ip)]"""
    p = len(mats)
    rows = letters(p)
    subs = [rows[q] + "R" for q in range(p)]
    args = list(mats)
    if weights is not None:
        subs.append("R")
        args.append(weights)
    if mask is not None:
        subs.append(rows)
        args.append(mask)
    r = S.einsum(",".join(subs) + "->" + rows + "R", *args)
    return S.group(r, [list(range(p)), [p]])


def mttkrp(S, X, weights, factors, mode):
    """MTTKRP_m[i_m, r] = sum_{i_q, q != m} X[i_0..i_{N-1}] · w_r · prod_{q != m} conj(U_q[i_q, r])"""
    N = ndim(S, X)
    lx = letters(N)
    subs = [lx]
    args = [X]
    for q in range(N):
        if q != mode:
            subs.append(lx[q] + "R")
            args.append(S.conj(factors[q]))
    if weights is not None:
        subs.append("R")
        args.append(weights)
    return S.einsum(",".join(subs) + "->" + lx[mode] + "R", *args)


def inner(S, A, B, n_modes=None):
    na, nb = ndim(S, A), ndim(S, B)
    if n_modes is None:
        la = letters(na)
        return S.einsum(f"{la},{la}->", A, B)
    la = letters(na)
    lb = la[na - n_modes:] + letters(nb - n_modes, na)
    return S.einsum(f"{la},{lb}->{la[:na - n_modes]}{lb[n_modes:]}", A, B)


def outer(S, ts):
    subs = []
    pos = 0
    for t in ts:
        n = ndim(S, t)
        subs.append(letters(n, pos))
        pos += n
    return S.einsum(",".join(subs) + "->" + "".join(subs), *ts)


def batched_outer(S, ts):
    subs = []
    pos = 1
    for t in ts:
        n = ndim(S, t) - 1
        subs.append("a" + letters(n, pos))
        pos += n
    return S.einsum(",".join(subs) + "->a" + "".join(s[1:] for s in subs), *ts)


def tensordot(S, A, B, modes1, modes2, batch1=(), batch2=()):
    """contract modes1 of A with modes2 of B, share batch1/batch2; result axes: A's non-contracted axes in order
    (batch axes in place), then B's free axes in order."""
    na, nb = ndim(S, A), ndim(S, B)
    modes1 = [m % na for m in modes1]
    modes2 = [m % nb for m in modes2]
    batch1 = [m % na for m in batch1]
    batch2 = [m % nb for m in batch2]
    la = list(letters(na))
    lb = list(letters(nb, na))
    for x, y in zip(list(modes1) + list(batch1), list(modes2) + list(batch2)):
        lb[y] = la[x]
    out = [c for i, c in enumerate(la) if i not in modes1] + [c for i, c in enumerate(lb) if i not in modes2 and i not in batch2]
    return S.einsum(f"{''.join(la)},{''.join(lb)}->{''.join(out)}", A, B)


def higher_order_moment(S, X, order):
    """M_p[f_1.., g_1.., ...] = (1/n_samples) sum_s prod_{k<p} X[s, (features)_k]"""
    n = ndim(S, X) - 1
    subs = []
    pos = 1
    for _ in range(order):
        subs.append("a" + letters(n, pos))
        pos += n
    tot = S.einsum(",".join(subs) + "->" + "".join(s[1:] for s in subs), *([X] * order))
    return tot, S.shape(X)[0]  # caller divides by the sample count


def tt_matrix_to_tensor(S, cores):
    """cores[k]: (r_k, in_k, out_k, r_{k+1}); result[in_1..in_d, out_1..out_d] = chain contraction over ranks"""
    d = len(cores)
    ins = letters(d)
    outs = letters(d, d)
    rk = letters(d + 1, 2 * d)
    subs = [rk[k] + ins[k] + outs[k] + rk[k + 1] for k in range(d)]
    # boundary ranks are literal 1 -> their letters are summed (size-1 sum)
    return S.einsum(",".join(subs) + "->" + ins + outs, *cores)


# ------------------------------------------------------------------------------------------------ C03
def cp_to_tensor(S, weights, factors, mask=None):
    """X[i_0..i_{N-1}] = sum_r w_r prod_k U_k[i_k, r]   (entrywise * mask)"""
    N = len(factors)
    lx = letters(N)
    subs = [lx[k] + "R" for k in range(N)]
    args = list(factors)
    if weights is not None:
        subs.append("R")
        args.append(weights)
    if mask is not None:
        subs.append(lx)
        args.append(mask)
    return S.einsum(",".join(subs) + "->" + lx, *args)


def tucker_to_tensor(S, core, factors, skip=None, transpose=False, modes=None):
    """X = G x_0 U_0 x_1 ... (U_k^H when transpose)"""
    return multi_mode_dot(S, core, factors, modes, skip, transpose)


def tt_to_tensor(S, cores):
    """X[i_1..i_d] = G_1[:, i_1, :] G_2[:, i_2, :] ... G_d[:, i_d, :]   (boundary ranks 1)"""
    d = len(cores)
    ix = letters(d)
    rk = letters(d + 1, d)
    return S.einsum(",".join(rk[k] + ix[k] + rk[k + 1] for k in range(d)) + "->" + ix, *cores)


def tr_to_tensor(S, cores):
    """X[i_1..i_d] = trace( G_1[:, i_1, :] ... G_d[:, i_d, :] )   (r_0 == r_d closes the ring)"""
    d = len(cores)
    ix = letters(d)
    rk = letters(d, d)
    return S.einsum(",".join(rk[k] + ix[k] + rk[(k + 1) % d] for k in range(d)) + "->" + ix, *cores)


def parafac2_slice(S, weights, A, B, C, P_i, i):
    """X_i = P_i B diag(a_i * w) C^T"""
    a = S.take(A, 0, i)
    subs = ["js", "sr", "r", "kr"]
    args = [P_i, B, a, C]
    if weights is not None:
        subs.append("r")
        args.append(weights)
    return S.einsum(",".join(subs) + "->jk", *args)


# ------------------------------------------------------------------------------------------------ C07 (block problems)
def cp_gram(S, weights, factors, mode, ridge=None):
    """N[r,s] = w_r w_s ( prod_{q != mode} sum_i U_q[i,r] conj(U_q[i,s])  + ridge * delta_rs )
    = K^T conj(K) for K = khatri_rao(factors except mode) * diag(w): the Gram matrix of the block least-squares problem."""
    subs, args = [], []
    pos = 0
    for q, U in enumerate(factors):
        if q == mode:
            continue
        i = _L[pos]
        pos += 1
        subs += [i + "R", i + "S"]
        args += [U, S.conj(U)]
    if not subs:
        R_ = S.shape(factors[mode])[1]
        g = S.ones([R_, R_])
    else:
        g = S.einsum(",".join(subs) + "->RS", *args)
    if ridge is not None:
        g = g + S.eye(S.shape(g)[0]) * ridge
    if weights is not None:
        g = S.einsum("RS,R,S->RS", g, weights, weights)
    return g


def tr_design(S, cores, dim):
    """Design matrix of the tensor-ring block problem for core `dim`:
    D[(i_n, n != dim ascending), (a, b)] = (G_{dim+1} ... G_{dim-1})[b, i_{dim+1}.., a]   with a = r_dim, b = r_{dim+1}"""
    N = len(cores)
    ix = letters(N)
    rk = letters(N, N)  # rk[k] = left rank letter of core k; right rank of core k is rk[(k+1) % N]
    subs, args = [], []
    for j in range(1, N):
        k = (dim + j) % N
        subs.append(rk[k] + ix[k] + rk[(k + 1) % N])
        args.append(cores[k])
    others = [ix[n] for n in range(N) if n != dim]
    out = "".join(others) + rk[dim] + rk[(dim + 1) % N]
    t = S.einsum(",".join(subs) + "->" + out, *args)
    return S.group(t, [list(range(N - 1)), [N - 1, N]])
