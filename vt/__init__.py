"""vt — contract-based deductive verification machinery for tensorly (see /verif/DESIGN.md).

Run with:  PYTHONPATH=/repo python3-vt -m vt.check <property id> --tier quick|thorough
"""
import os
import sys

REPO = os.environ.get("VT_REPO", "/repo")
ROOT = os.path.dirname(os.path.dirname(os.path.abspath(__file__)))  # /verif

if REPO not in sys.path:
    sys.path.insert(0, REPO)
