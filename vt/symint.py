"""Symbolic integers (polynomials over dimension atoms), symbolic booleans and the path explorer.

SInt  : polynomial with integer coefficients over named atoms; every atom has a lower bound (default 1).
SBool : comparison of an SInt with 0; `bool(SBool)` asks the active exploration context, which decides
        structurally, else by z3 under (assumptions ∧ path condition), else forks (re-execution DFS).
explore(fn): runs `fn` once per feasible path and returns the list of paths.
"""
import builtins
import itertools
import threading
from fractions import Fraction

import z3


class EngineError(Exception):
    """A construct outside the engine's fragment: the obligation is *undecided*, never a violation."""


class NeedsConcrete(EngineError):
    pass


class PathCap(EngineError):
    pass


# ------------------------------------------------------------------------------------------------ atoms
_ATOM_LB = {}  # atom name -> lower bound (int)


def declare_atom(name, lower=1):
    _ATOM_LB[name] = lower
    return SInt({((name, 1),): 1})


def atom(name, lower=1):
    return declare_atom(name, lower)


def atom_lower(name):
    return _ATOM_LB.get(name, 1)


# ------------------------------------------------------------------------------------------------ SInt
def _mono_mul(a, b):
    d = dict(a)
    for k, e in b:
        d[k] = d.get(k, 0) + e
    return tuple(sorted((k, e) for k, e in d.items() if e != 0))


class SInt:
    __slots__ = ("p", "_h")

    def __init__(self, p=None):
        if p is None:
            p = {}
        elif isinstance(p, builtins.int):
            p = {(): p} if p else {}
        self.p = {m: c for m, c in p.items() if c != 0}
        self._h = None

    # -- construction helpers
    @staticmethod
    def lift(x):
        if isinstance(x, SInt):
            return x
        if isinstance(x, bool):
            return SInt(builtins.int(x))
        if isinstance(x, builtins.int):
            return SInt(x)
        if hasattr(x, "__index__"):
            return SInt(x.__index__())
        if isinstance(x, float) and x == builtins.int(x):
            return SInt(builtins.int(x))
        raise TypeError(f"cannot lift {x!r} to SInt")

    def is_const(self):
        return all(m == () for m in self.p)

    def const(self):
        if not self.is_const():
            raise NeedsConcrete(f"symbolic size {self!r} used where a concrete int is required")
        return self.p.get((), 0)

    def atoms(self):
        return sorted({k for m in self.p for k, _ in m})

    def is_monomial(self):
        return len(self.p) == 1

    def key(self):
        return tuple(sorted(self.p.items()))

    # -- arithmetic
    def __add__(self, o):
        try:
            o = SInt.lift(o)
        except TypeError:
            return NotImplemented
        d = dict(self.p)
        for m, c in o.p.items():
            d[m] = d.get(m, 0) + c
        return _norm(SInt(d))

    __radd__ = __add__

    def __neg__(self):
        return SInt({m: -c for m, c in self.p.items()})

    def __pos__(self):
        return self

    def __sub__(self, o):
        try:
            o = SInt.lift(o)
        except TypeError:
            return NotImplemented
        return self + (-o)

    def __rsub__(self, o):
        return SInt.lift(o) + (-self)

    def __mul__(self, o):
        if isinstance(o, (float, Fraction)) and not (isinstance(o, float) and o == builtins.int(o)):
            return NotImplemented
        try:
            o = SInt.lift(o)
        except TypeError:
            return NotImplemented
        d = {}
        for m1, c1 in self.p.items():
            for m2, c2 in o.p.items():
                m = _mono_mul(m1, m2)
                d[m] = d.get(m, 0) + c1 * c2
        return _norm(SInt(d))

    __rmul__ = __mul__

    def __pow__(self, e):
        e = SInt.lift(e).const()
        if e < 0:
            raise EngineError("negative power of SInt")
        r = SInt(1)
        for _ in range(e):
            r = r * self
        return r

    def _divmod(self, o):
        o = SInt.lift(o)
        if o.is_const():
            c = o.const()
            if c == 0:
                raise ZeroDivisionError
            if self.is_const():
                return _norm(SInt(self.const() // c)), _norm(SInt(self.const() % c))
            if all(v % c == 0 for v in self.p.values()):
                return _norm(SInt({m: v // c for m, v in self.p.items()})), 0
            raise EngineError(f"inexact symbolic division {self!r} // {o!r}")
        if o.is_monomial():
            (om, oc), = o.p.items()
            d = {}
            for m, c in self.p.items():
                md = dict(m)
                for k, e in om:
                    if md.get(k, 0) < e:
                        raise EngineError(f"inexact symbolic division {self!r} // {o!r}")
                    md[k] -= e
                if c % oc:
                    raise EngineError(f"inexact symbolic division {self!r} // {o!r}")
                d[tuple(sorted((k, e) for k, e in md.items() if e))] = c // oc
            return _norm(SInt(d)), 0
        if self.key() == o.key():
            return 1, 0
        # polynomial long division attempt: try quotient q with self == q*o for q a monomial sum (rare)
        raise EngineError(f"unsupported symbolic division {self!r} // {o!r}")

    def __floordiv__(self, o):
        return self._divmod(o)[0]

    def __rfloordiv__(self, o):
        return SInt.lift(o)._divmod(self)[0]

    def __mod__(self, o):
        return self._divmod(o)[1]

    def __truediv__(self, o):
        q, r = self._divmod(o)
        if isinstance(r, SInt):
            r = r.const()
        if r != 0:
            raise EngineError("inexact true division of SInt")
        return q

    def exact_div(self, o):
        """self / o if exact (monomial-wise), else None."""
        try:
            q, r = self._divmod(o)
        except EngineError:
            return None
        if isinstance(r, SInt):
            r = r.const() if r.is_const() else 1
        return SInt.lift(q) if r == 0 else None

    # -- conversions
    def __index__(self):
        return self.const()

    __int__ = __index__

    def __float__(self):
        return float(self.const())

    def __hash__(self):
        if self._h is None:
            self._h = hash(self.key())
        return self._h

    def __repr__(self):
        if not self.p:
            return "0"
        out = []
        for m, c in sorted(self.p.items()):
            ms = "*".join(k if e == 1 else f"{k}^{e}" for k, e in m)
            if not ms:
                out.append(str(c))
            elif c == 1:
                out.append(ms)
            elif c == -1:
                out.append("-" + ms)
            else:
                out.append(f"{c}*{ms}")
        return "+".join(out).replace("+-", "-")

    __str__ = __repr__

    def __format__(self, spec):
        return format(repr(self), spec) if spec in ("", "s") else repr(self)

    # -- comparisons
    def _cmp(self, o, op):
        try:
            o = SInt.lift(o)
        except TypeError:
            return NotImplemented
        return SBool(op, self - o)

    def __eq__(self, o):
        if o is None or isinstance(o, (str, tuple, list)):
            return False
        r = self._cmp(o, "==")
        return False if r is NotImplemented else r

    def __ne__(self, o):
        if o is None or isinstance(o, (str, tuple, list)):
            return True
        r = self._cmp(o, "!=")
        return True if r is NotImplemented else r

    def __lt__(self, o):
        return self._cmp(o, "<")

    def __le__(self, o):
        return self._cmp(o, "<=")

    def __gt__(self, o):
        return self._cmp(o, ">")

    def __ge__(self, o):
        return self._cmp(o, ">=")

    def __bool__(self):
        return bool(self != 0)

    def same(self, o):
        """structural identity (no solver, no fork)"""
        o = SInt.lift(o)
        return self.p == o.p

    # -- evaluation / z3
    def subs(self, env):
        tot = 0
        for m, c in self.p.items():
            v = c
            for k, e in m:
                v *= env[k] ** e
            tot += v
        return tot

    def z3(self):
        tot = z3.IntVal(0)
        first = True
        for m, c in sorted(self.p.items()):
            t = z3.IntVal(c)
            for k, e in m:
                for _ in range(e):
                    t = t * z3.Int(k)
            tot = t if first else tot + t
            first = False
        return tot


def _norm(s):
    """Return a plain int when the polynomial is constant (keeps concrete code paths concrete)."""
    if s.is_const():
        return s.p.get((), 0)
    return s


def sint_key(x):
    return SInt.lift(x).key()


def is_sym(x):
    return isinstance(x, SInt)


def same(a, b):
    return SInt.lift(a).same(b)


# ------------------------------------------------------------------------------------------------ SBool
class SBool:
    __slots__ = ("op", "p")

    def __init__(self, op, p):
        self.op = op
        self.p = SInt.lift(p)  # compared against 0

    def negate(self):
        return SBool({"==": "!=", "!=": "==", "<": ">=", ">=": "<", ">": "<=", "<=": ">"}[self.op], self.p)

    def structural(self):
        """True / False when decidable from atom lower bounds alone, else None."""
        p = self.p
        if p.is_const():
            c = p.p.get((), 0)
            return {"==": c == 0, "!=": c != 0, "<": c < 0, "<=": c <= 0, ">": c > 0, ">=": c >= 0}[self.op]
        lo = hi = None
        if all(atom_lower(k) >= 1 for k in p.atoms()):
            nonconst = [c for m, c in p.p.items() if m != ()]
            c0 = p.p.get((), 0)
            if all(c > 0 for c in nonconst):
                lo = c0 + sum(nonconst)  # every monomial >= 1
            if all(c < 0 for c in nonconst):
                hi = c0 + sum(nonconst)
        if lo is not None:
            if lo > 0:
                return {"==": False, "!=": True, "<": False, "<=": False, ">": True, ">=": True}[self.op]
            if lo == 0 and self.op in (">=", "<"):
                return self.op == ">="
        if hi is not None:
            if hi < 0:
                return {"==": False, "!=": True, "<": True, "<=": True, ">": False, ">=": False}[self.op]
            if hi == 0 and self.op in ("<=", ">"):
                return self.op == "<="
        return None

    def z3(self):
        e = self.p.z3()
        return {"==": e == 0, "!=": e != 0, "<": e < 0, "<=": e <= 0, ">": e > 0, ">=": e >= 0}[self.op]

    def __bool__(self):
        s = self.structural()
        if s is not None:
            return s
        ctx = current_ctx()
        if ctx is None:
            raise NeedsConcrete(f"symbolic condition {self!r} evaluated outside an exploration context")
        return ctx.decide(self)

    def __repr__(self):
        return f"({self.p!r} {self.op} 0)"

    def __and__(self, o):
        return bool(self) and bool(o)

    def __or__(self, o):
        return bool(self) or bool(o)

    def __invert__(self):
        return self.negate()

    def __eq__(self, o):
        return bool(self) == bool(o)

    def __hash__(self):
        return hash((self.op, self.p))


# ------------------------------------------------------------------------------------------------ contexts
_TLS = threading.local()


def current_ctx():
    return getattr(_TLS, "ctx", None)


class Ctx:
    """One execution of the function under exploration."""

    def __init__(self, assumptions=(), decisions=(), solver_timeout_ms=5000):
        self.assumptions = list(assumptions)  # SBool or z3 BoolRef
        self.decisions = list(decisions)
        self.pos = 0
        self.path = []  # list of SBool taken as true on this path (forced or chosen)
        self.data_path = []  # (DataBool, value) decisions on symbolic data
        self.taken = []  # fork decisions actually made (list of bool: False=first branch, True=second)
        self.solver = z3.Solver()
        self.solver.set("timeout", solver_timeout_ms)
        self._atoms_declared = set()
        for a in self.assumptions:
            self._add(a)
        self.queries = 0
        self.unknowns = 0

    def _declare(self, sb):
        p = sb.p if isinstance(sb, SBool) else None
        if p is None:
            return
        for k in p.atoms():
            if k not in self._atoms_declared:
                self._atoms_declared.add(k)
                self.solver.add(z3.Int(k) >= atom_lower(k))

    def _add(self, a):
        if isinstance(a, SBool):
            self._declare(a)
            self.solver.add(a.z3())
        elif isinstance(a, bool):
            if not a:
                self.solver.add(z3.BoolVal(False))
        elif hasattr(a, "z3") and callable(a.z3):
            self.solver.add(a.z3())
        else:
            self.solver.add(a)

    def _feasible(self, sb):
        self._declare(sb)
        self.queries += 1
        self.solver.push()
        self.solver.add(sb.z3())
        r = self.solver.check()
        self.solver.pop()
        if r == z3.unknown:
            self.unknowns += 1
            return True  # over-approximate: keep the branch
        return r == z3.sat

    def decide(self, sb):
        t = self._feasible(sb)
        f = self._feasible(sb.negate())
        if t and not f:
            return True
        if f and not t:
            return False
        if not t and not f:
            # path itself infeasible (can happen after an `unknown`): pick True, harmless
            return True
        if self.pos < len(self.decisions):
            second = self.decisions[self.pos]
        else:
            second = False
        self.pos += 1
        self.taken.append(second)
        val = not second  # first branch: condition True
        chosen = sb if val else sb.negate()
        self.path.append(chosen)
        self._add(chosen)
        return val

    def decide_data(self, db):
        """A comparison on symbolic data: both outcomes feasible (no solver); fork and record."""
        if self.pos < len(self.decisions):
            second = self.decisions[self.pos]
        else:
            second = False
        self.pos += 1
        self.taken.append(second)
        val = not second
        self.data_path.append((db, val))
        return val

    def assume(self, sb):
        """Add a fact to the path (used by contracts: e.g. k <= n at a slice)."""
        if isinstance(sb, bool):
            return
        self.path.append(sb)
        self._add(sb)

    def entails(self, sb):
        s = sb.structural() if isinstance(sb, SBool) else None
        if s is not None:
            return s
        return not self._feasible(sb.negate())

    def consistent(self, extra):
        """is assumptions ∧ path ∧ extra satisfiable?  (unknown counts as satisfiable)"""
        self.solver.push()
        for sb in extra:
            if isinstance(sb, bool):
                if not sb:
                    self.solver.add(z3.BoolVal(False))
                continue
            self._declare(sb)
            self.solver.add(sb.z3())
        r = self.solver.check()
        self.solver.pop()
        return r != z3.unsat

    def model(self):
        """A small model of assumptions ∧ path (atom -> int), or None."""
        o = z3.Optimize()
        o.set("timeout", 5000)
        names = set(self._atoms_declared)
        for a in self.assumptions + self.path:
            if isinstance(a, SBool):
                names.update(a.p.atoms())
                o.add(a.z3())
            elif hasattr(a, "z3") and callable(a.z3):
                o.add(a.z3())
            elif not isinstance(a, bool):
                o.add(a)
        for k in names:
            o.add(z3.Int(k) >= atom_lower(k))
        if names:
            o.minimize(z3.Sum([z3.Int(k) for k in names]))
        if o.check() != z3.sat:
            return None
        m = o.model()
        return {k: m.eval(z3.Int(k), model_completion=True).as_long() for k in names}

    def __enter__(self):
        self._prev = current_ctx()
        _TLS.ctx = self
        return self

    def __exit__(self, *a):
        _TLS.ctx = self._prev
        return False


class Path:
    def __init__(self, cond, kind, value, ctx):
        self.cond = cond  # list of SBool
        self.kind = kind  # 'ok' | 'exc' | 'engine'
        self.value = value
        self.ctx = ctx

    def __repr__(self):
        return f"<Path {self.kind} cond={self.cond!r} value={self.value!r:.80}>"


def explore(fn, assumptions=(), max_paths=4096, catch=(Exception,)):
    """Run `fn()` once per feasible path.  Returns list[Path].

    Repo exceptions are recorded as kind 'exc'; EngineError as kind 'engine' (undecided)."""
    paths = []
    decisions = []
    while True:
        ctx = Ctx(assumptions, decisions)
        with ctx:
            try:
                v = fn()
                kind = "ok"
            except EngineError as e:
                v, kind = e, "engine"
            except catch as e:  # noqa
                v, kind = e, "exc"
        paths.append(Path(list(ctx.path), kind, v, ctx))
        if len(paths) > max_paths:
            raise PathCap(f"more than {max_paths} paths")
        d = list(ctx.taken)
        while d and d[-1]:
            d.pop()
        if not d:
            break
        d[-1] = True
        decisions = d
    return paths


def run_single_path(fn, assumptions=()):
    """Run fn under a context and insist on exactly one feasible path."""
    ps = explore(fn, assumptions)
    if len(ps) != 1:
        raise EngineError(f"expected a single path, got {len(ps)}: {[p.cond for p in ps]}")
    return ps[0]


# ------------------------------------------------------------------------------------------------ helpers
def sprod(xs):
    r = 1
    for x in xs:
        r = r * x
    return r


def smin(a, b):
    return a if a <= b else b


def smax(a, b):
    return a if a >= b else b
