"""Validation of the primitive contracts (assumption A3, DESIGN §2.9), run by setup_cmd and by every check.

Every symbolic primitive of GBackend is applied to symbolic tensors with symbolic sizes, the result is evaluated
at sampled concrete sizes/values and compared with *the callable actually registered in NumpyBackend*
(looked up from tensorly.backend.numpy_backend each run).  This is a bounded validation of an assumption —
labelled so in the evidence; it is not a proof of numpy.
"""
import sys

import numpy as np

from . import gtensor as G
from . import gbackend as B
from .symint import atom, explore
from .oblig import compare_num


def cases():
    a, b, c, d = atom("pa"), atom("pb"), atom("pc"), atom("pd")
    X = lambda: G.sym_input("PX", [a, b, c])
    M = lambda: G.sym_input("PM", [c, d])
    V = lambda: G.sym_input("PV", [c])
    W = lambda: G.sym_input("PW", [a, b, c])
    Q = lambda: G.sym_input("PQ", [a, c, d])
    Z = lambda: G.sym_input("PZ", [a, b, c], "complex128")
    out = [
        ("reshape", lambda be, X=X: be.reshape(X(), (a, -1)), lambda np_, I: np_.reshape(I["PX"], (I["PX"].shape[0], -1))),
        ("reshape", lambda be: be.reshape(X(), (a * b, c)), lambda np_, I: np_.reshape(I["PX"], (-1, I["PX"].shape[2]))),
        ("reshape", lambda be: be.reshape(X(), (a, 1, b, 1, c)), lambda np_, I: np_.reshape(I["PX"], (I["PX"].shape[0], 1, I["PX"].shape[1], 1, I["PX"].shape[2]))),
        ("reshape", lambda be: be.reshape(be.reshape(X(), (-1,)), (a, b * c)), lambda np_, I: np_.reshape(np_.reshape(I["PX"], (-1,)), (I["PX"].shape[0], -1))),
        ("transpose", lambda be: be.transpose(X()), lambda np_, I: np_.transpose(I["PX"])),
        ("transpose", lambda be: be.transpose(X(), (1, 2, 0)), lambda np_, I: np_.transpose(I["PX"], (1, 2, 0))),
        ("moveaxis", lambda be: be.moveaxis(X(), 2, 0), lambda np_, I: np_.moveaxis(I["PX"], 2, 0)),
        ("moveaxis", lambda be: be.moveaxis(X(), 0, -1), lambda np_, I: np_.moveaxis(I["PX"], 0, -1)),
        ("moveaxis", lambda be: be.moveaxis(X(), [0, 1], [-1, -2]), lambda np_, I: np_.moveaxis(I["PX"], [0, 1], [-1, -2])),
        ("moveaxis", lambda be: be.moveaxis(X(), [2, 0], [0, 1]), lambda np_, I: np_.moveaxis(I["PX"], [2, 0], [0, 1])),
        ("reshape", lambda be: be.reshape(be.transpose(X(), (2, 0, 1)), (c, -1)), lambda np_, I: np_.reshape(np_.transpose(I["PX"], (2, 0, 1)), (I["PX"].shape[2], -1))),
        ("dot", lambda be: be.dot(X(), M()), lambda np_, I: np_.dot(I["PX"], I["PM"])),
        ("dot", lambda be: be.dot(X(), V()), lambda np_, I: np_.dot(I["PX"], I["PV"])),
        ("dot", lambda be: be.dot(V(), V()), lambda np_, I: np_.dot(I["PV"], I["PV"])),
        ("dot", lambda be: be.dot(X(), Q()), lambda np_, I: np_.dot(I["PX"], I["PQ"])),
        ("matmul", lambda be: be.matmul(X(), M()), lambda np_, I: np_.matmul(I["PX"], I["PM"])),
        ("matmul", lambda be: be.matmul(X(), Q()), lambda np_, I: np_.matmul(I["PX"], I["PQ"])),
        ("matmul", lambda be: be.matmul(X(), V()), lambda np_, I: np_.matmul(I["PX"], I["PV"])),
        ("tensordot", lambda be: be.tensordot(X(), M(), axes=1), lambda np_, I: np_.tensordot(I["PX"], I["PM"], axes=1)),
        ("tensordot", lambda be: be.tensordot(X(), W(), axes=([0, 2], [0, 2])), lambda np_, I: np_.tensordot(I["PX"], I["PW"], axes=([0, 2], [0, 2]))),
        ("einsum", lambda be: be.einsum("abc,cd,abe->ed", X(), M(), W()), lambda np_, I: np_.einsum("abc,cd,abe->ed", I["PX"], I["PM"], I["PW"])),
        ("einsum", lambda be: be.einsum("abc->ca", X()), lambda np_, I: np_.einsum("abc->ca", I["PX"])),
        ("sum", lambda be: be.sum(X()), lambda np_, I: np_.sum(I["PX"])),
        ("sum", lambda be: be.sum(X(), axis=1), lambda np_, I: np_.sum(I["PX"], axis=1)),
        ("mean", lambda be: be.mean(X(), axis=0), lambda np_, I: np_.mean(I["PX"], axis=0)),
        ("mean", lambda be: be.mean(X()), lambda np_, I: np_.mean(I["PX"])),
        ("kron", lambda be: be.kron(M(), G.sym_input("PK", [a, b])), lambda np_, I: np_.kron(I["PM"], I["PK"])),
        ("conj", lambda be: be.conj(Z()), lambda np_, I: np_.conj(I["PZ"])),
        ("abs", lambda be: be.abs(X()) ** 2, lambda np_, I: np_.abs(I["PX"]) ** 2),
        ("abs", lambda be: be.abs(Z()) ** 2, lambda np_, I: np_.abs(I["PZ"]) ** 2),
        ("sqrt", lambda be: be.sqrt(be.sum(X() ** 2, axis=0)), lambda np_, I: np_.sqrt(np_.sum(I["PX"] ** 2, axis=0))),
        ("norm", lambda be: be.norm(X()), lambda np_, I: np_.norm(I["PX"])),
        ("norm", lambda be: be.norm(X(), 2, axis=0), lambda np_, I: np_.norm(I["PX"], 2, axis=0)),
        ("eye", lambda be: be.eye(c) * be.dot(be.transpose(M()), M())[:c, :c] if False else be.eye(c), lambda np_, I: np_.eye(I["PV"].shape[0])),
        ("ones", lambda be: be.ones((a, c)) * V(), lambda np_, I: np_.ones((I["PX"].shape[0], I["PX"].shape[2])) * I["PV"]),
        ("zeros", lambda be: be.zeros((a, c)) + V(), lambda np_, I: np_.zeros((I["PX"].shape[0], I["PX"].shape[2])) + I["PV"]),
        ("diag", lambda be: be.diag(V()), lambda np_, I: np_.diag(I["PV"])),
        ("stack", lambda be: be.stack([V(), V() * 2, V() * 3], axis=1), lambda np_, I: np_.stack([I["PV"], I["PV"] * 2, I["PV"] * 3], axis=1)),
        ("getitem", lambda be: X()[:, 0, :], lambda np_, I: I["PX"][:, 0, :]),
        ("getitem", lambda be: X()[..., 0], lambda np_, I: I["PX"][..., 0]),
        ("getitem", lambda be: V()[None, :] * X(), lambda np_, I: I["PV"][None, :] * I["PX"]),
        ("divide", lambda be: X() / (be.abs(W()) + 1), lambda np_, I: I["PX"] / (np_.abs(I["PW"]) + 1)),
    ]
    return out


class _NP:
    """The callables registered in NumpyBackend (not numpy directly): what the library really calls."""

    def __init__(self):
        from tensorly.backend.numpy_backend import NumpyBackend
        self.be = NumpyBackend()

    def __getattr__(self, name):
        return getattr(self.be, name)


def run(verbose=False):
    fails = []
    n = 0
    npb = _NP()
    with B.symbolic_session() as be:
        for name, sym_f, num_f in cases():
            G.INPUTS.pop("PK", None)
            ps = explore(lambda: sym_f(be))
            if len(ps) != 1 or ps[0].kind != "ok":
                fails.append((name, f"symbolic primitive did not return on a single path: {ps}"))
                continue
            res = ps[0].value
            for env in (dict(pa=2, pb=3, pc=4, pd=2), dict(pa=1, pb=2, pc=3, pd=5), dict(pa=3, pb=1, pc=2, pd=1)):
                rng = np.random.RandomState(7 + n)
                inputs = {}
                for nm, meta in G.INPUTS.items():
                    if not nm.startswith("P"):
                        continue
                    shp = [int(np.prod([int(G.SInt.lift(meta["digits"][i]).subs(env)) for i in ax])) if ax else 1 for ax in meta["axes"]]
                    arr = rng.standard_normal(shp)
                    if meta["dtype"].startswith("complex"):
                        arr = arr + 1j * rng.standard_normal(shp)
                    inputs[nm] = arr
                want = num_f(npb, inputs)
                got = G.evaluate(res, env, inputs)
                ok, info = compare_num(got, np.asarray(want), 1e-9, 1e-10)
                n += 1
                if not ok:
                    fails.append((name, f"env={env}: {info}"))
    if verbose or fails:
        print(f"primcheck: {n} comparisons, {len(fails)} disagreements")
        for f in fails:
            print("  PRIMITIVE-CONTRACT-MISMATCH", f)
    return n, fails


if __name__ == "__main__":
    n, fails = run(verbose=True)
    sys.exit(1 if fails else 0)
