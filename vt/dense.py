"""Engine E1-dense (DESIGN §2.3): concrete shapes, symbolic real scalars.

Tensors are real numpy `dtype=object` arrays holding `Sc` scalars (z3 real terms), so all structural numpy behaviour
(reshape, views, fancy indexing, broadcasting, cumsum, dot, ...) is numpy's own; only comparison-based primitives are
overridden to build `If` terms instead of forcing a fork.  `bool(SB)` (an `if` on data in the repo code) asks the
exploration context, which decides by z3 under the path condition or forks.  Results hold for ALL real values at the
enumerated shapes (size-bounded, reported so).
"""
import builtins
import itertools
import math
import warnings
from fractions import Fraction

import numpy as np
import z3

from .symint import EngineError, NeedsConcrete, current_ctx, explore, Ctx

warnings.filterwarnings("ignore", message="Creating a subclass of BaseBackend")
from tensorly.backend.core import Backend  # noqa: E402

_cnt = itertools.count()
DEFS = []  # definitional constraints of fresh variables created during the current execution (division, sqrt)
DOMAIN = []  # (description, z3 Bool that must hold): divisors non-zero, sqrt operands non-negative


def reset():
    del DEFS[:]
    del DOMAIN[:]


def _define(c):
    DEFS.append(c)
    ctx = current_ctx()
    if ctx is not None:
        ctx.solver.add(c)


def _q(x):
    if isinstance(x, Sc):
        return x.e
    if isinstance(x, bool):
        return z3.RealVal(int(x))
    if isinstance(x, (builtins.int, np.integer)):
        return z3.RealVal(int(x))
    if isinstance(x, Fraction):
        return z3.RealVal(f"{x.numerator}/{x.denominator}")
    if isinstance(x, (float, np.floating)):
        if x != x or x in (float("inf"), float("-inf")):
            raise EngineError("non-finite constant in symbolic arithmetic")
        f = Fraction(float(x))
        return z3.RealVal(f"{f.numerator}/{f.denominator}")
    if isinstance(x, np.ndarray) and x.ndim == 0:
        return _q(x.item())
    raise TypeError(f"cannot convert {type(x)} to a symbolic scalar")


class SB:
    """symbolic boolean on data"""
    __slots__ = ("b",)

    def __init__(self, b):
        self.b = b

    def z3(self):
        return self.b

    def negate(self):
        return SB(z3.Not(self.b))

    def structural(self):
        s = z3.simplify(self.b)
        if z3.is_true(s):
            return True
        if z3.is_false(s):
            return False
        return None

    def __bool__(self):
        s = self.structural()
        if s is not None:
            return s
        ctx = current_ctx()
        if ctx is None:
            raise NeedsConcrete("truth value of a symbolic comparison outside an exploration context")
        return ctx.decide(self)

    def __and__(self, o):
        return SB(z3.And(self.b, _b(o)))

    __rand__ = __and__

    def __or__(self, o):
        return SB(z3.Or(self.b, _b(o)))

    __ror__ = __or__

    def __invert__(self):
        return self.negate()

    def __mul__(self, o):  # numpy-style boolean product (to_numpy(a>=0) * to_numpy(b>=0))
        if isinstance(o, SB):
            return SB(z3.And(self.b, o.b))
        return ite(self, 1, 0) * o

    __rmul__ = __mul__

    def __eq__(self, o):
        if isinstance(o, (builtins.int, bool)) and o in (0, 1):
            return self if o == 1 else self.negate()
        return SB(_b(self) == _b(o))

    __hash__ = object.__hash__

    def __repr__(self):
        return f"SB({self.b})"


def _b(x):
    if isinstance(x, SB):
        return x.b
    if isinstance(x, (bool, np.bool_)):
        return z3.BoolVal(bool(x))
    raise TypeError(f"not a boolean: {x!r}")


class Sc:
    """symbolic real scalar"""
    __slots__ = ("e",)

    def __init__(self, e):
        self.e = e

    @staticmethod
    def lift(x):
        return x if isinstance(x, Sc) else Sc(_q(x))

    def _bin(self, o, f):
        try:
            return Sc(f(self.e, _q(o)))
        except TypeError:
            return NotImplemented

    def __add__(self, o):
        return self._bin(o, lambda a, b: a + b)

    __radd__ = __add__

    def __sub__(self, o):
        return self._bin(o, lambda a, b: a - b)

    def __rsub__(self, o):
        return self._bin(o, lambda a, b: b - a)

    def __mul__(self, o):
        if isinstance(o, SB):
            return self * ite(o, 1, 0)
        return self._bin(o, lambda a, b: a * b)

    __rmul__ = __mul__

    def __neg__(self):
        return Sc(-self.e)

    def __pos__(self):
        return self

    def __truediv__(self, o):
        try:
            d = _q(o)
        except TypeError:
            return NotImplemented
        return _div(self.e, d)

    def __rtruediv__(self, o):
        return _div(_q(o), self.e)

    def __pow__(self, p):
        if isinstance(p, (builtins.int, np.integer)) or (isinstance(p, float) and p == int(p)):
            p = int(p)
            if p >= 0:
                r = z3.RealVal(1)
                for _ in range(p):
                    r = r * self.e
                return Sc(r)
            return Sc(z3.RealVal(1)) / (self ** (-p))
        if p == 0.5:
            return self.sqrt()
        raise EngineError(f"power {p} of a symbolic scalar")

    def sqrt(self):
        y = z3.Real(f"sqrt{next(_cnt)}")
        DOMAIN.append(("sqrt operand >= 0", self.e >= 0))
        _define(z3.And(y >= 0, y * y == self.e))
        return Sc(y)

    def __abs__(self):
        return Sc(z3.If(self.e >= 0, self.e, -self.e))

    def conjugate(self):
        return self

    def conj(self):
        return self

    @property
    def real(self):
        return self

    def _cmp(self, o, f):
        try:
            return SB(f(self.e, _q(o)))
        except TypeError:
            return NotImplemented

    def __lt__(self, o):
        return self._cmp(o, lambda a, b: a < b)

    def __le__(self, o):
        return self._cmp(o, lambda a, b: a <= b)

    def __gt__(self, o):
        return self._cmp(o, lambda a, b: a > b)

    def __ge__(self, o):
        return self._cmp(o, lambda a, b: a >= b)

    def __eq__(self, o):
        r = self._cmp(o, lambda a, b: a == b)
        return False if r is NotImplemented else r

    def __ne__(self, o):
        r = self._cmp(o, lambda a, b: a != b)
        return True if r is NotImplemented else r

    __hash__ = object.__hash__

    def __bool__(self):
        return bool(self != 0)

    def __index__(self):
        """a data-dependent integer used as an index: fork over the feasible values"""
        s = z3.simplify(self.e)
        if z3.is_rational_value(s) and s.denominator_as_long() == 1:
            return s.numerator_as_long()
        for k in range(0, 64):
            if bool(SB(self.e == k)):
                return k
        for k in range(-1, -8, -1):
            if bool(SB(self.e == k)):
                return k
        raise EngineError("symbolic index outside the explored range")

    __int__ = __index__

    def __float__(self):
        s = z3.simplify(self.e)
        if z3.is_rational_value(s):
            return float(s.numerator_as_long()) / float(s.denominator_as_long())
        raise NeedsConcrete("float() of a symbolic scalar")

    def __repr__(self):
        return f"Sc({z3.simplify(self.e)})"


def _div(n, d):
    sd = z3.simplify(d)
    if z3.is_rational_value(sd):
        if sd.numerator_as_long() == 0:
            raise ZeroDivisionError("division by the constant 0")
        return Sc(n / sd)
    q = z3.Real(f"quot{next(_cnt)}")
    DOMAIN.append(("divisor != 0", d != 0))
    _define(z3.Implies(d != 0, q * d == n))
    return Sc(q)


def ite(c, a, b):
    return Sc(z3.If(_b(c), _q(a), _q(b)))


def sym(name):
    return Sc(z3.Real(name))


def sym_array(name, shape):
    a = np.empty(shape, dtype=object)
    for idx in itertools.product(*[range(s) for s in shape]):
        a[idx] = sym(name + "_" + "_".join(map(str, idx)))
    return a


def lift_array(x):
    """any array-like -> object array of Sc / numbers"""
    if isinstance(x, np.ndarray) and x.dtype == object:
        return x
    a = np.asarray(x)
    if a.dtype == object:
        return a
    out = np.empty(a.shape, dtype=object)
    for idx in itertools.product(*[range(s) for s in a.shape]):
        v = a[idx]
        out[idx] = v.item() if hasattr(v, "item") else v
    return out


def _map(f, *arrs):
    arrs = np.broadcast_arrays(*[lift_array(a) for a in arrs])
    out = np.empty(arrs[0].shape, dtype=object)
    for idx in itertools.product(*[range(s) for s in arrs[0].shape]):
        out[idx] = f(*[a[idx] for a in arrs])
    return out


def _smax(a, b):
    if not isinstance(a, Sc) and not isinstance(b, Sc):
        return builtins.max(a, b)
    return ite(Sc.lift(a) >= b, a, b)


def _smin(a, b):
    if not isinstance(a, Sc) and not isinstance(b, Sc):
        return builtins.min(a, b)
    return ite(Sc.lift(a) <= b, a, b)


def _reduce(f, arr, axis):
    arr = lift_array(arr)
    if axis is None:
        vals = list(arr.ravel())
        r = vals[0]
        for v in vals[1:]:
            r = f(r, v)
        return r
    arr = np.moveaxis(arr, axis, 0)
    out = np.empty(arr.shape[1:], dtype=object)
    for idx in itertools.product(*[range(s) for s in arr.shape[1:]]):
        r = arr[(0,) + idx]
        for k in range(1, arr.shape[0]):
            r = f(r, arr[(k,) + idx])
        out[idx] = r
    return out if out.ndim else out.item()


def _argsort_1d(vals):
    """indices sorting vals ascending (stable): decided by forks on comparisons (insertion sort)"""
    order = []
    for i, v in enumerate(vals):
        pos = len(order)
        for p, j in enumerate(order):
            lt = Sc.lift(v) < vals[j]
            if bool(lt if isinstance(lt, SB) else lt):
                pos = p
                break
        order.insert(pos, i)
    return order


class DBackend(Backend, backend_name="vtdense"):
    int64 = np.int64
    int32 = np.int32
    float64 = np.float64
    float32 = np.float32
    complex128 = np.complex128
    complex64 = np.complex64
    pi = math.pi
    e = math.e
    inf = float("inf")
    nan = float("nan")
    index = Backend.index

    @staticmethod
    def context(tensor):
        return {}

    @staticmethod
    def tensor(data, dtype=None, **kw):
        return lift_array(data)

    @staticmethod
    def is_tensor(obj):
        return isinstance(obj, np.ndarray)

    @staticmethod
    def to_numpy(tensor):
        return lift_array(tensor)

    @staticmethod
    def shape(tensor):
        return tuple(np.shape(tensor))

    @staticmethod
    def ndim(tensor):
        return np.ndim(tensor)

    @staticmethod
    def copy(tensor):
        return np.array(tensor, dtype=object, copy=True)

    reshape = staticmethod(lambda t, s: np.reshape(lift_array(t), s))
    transpose = staticmethod(lambda t, axes=None: np.transpose(t, axes))
    moveaxis = staticmethod(np.moveaxis)
    flip = staticmethod(lambda t, axis=None: np.flip(t, axis=axis))
    concatenate = staticmethod(lambda ts, axis=0: np.concatenate([lift_array(t) for t in ts], axis=axis))
    stack = staticmethod(lambda ts, axis=0: np.stack([lift_array(t) for t in ts], axis=axis))
    arange = staticmethod(np.arange)
    conj = staticmethod(lambda t, *a, **k: t)
    kron = staticmethod(lambda a, b: np.kron(lift_array(a), lift_array(b)))
    trace = staticmethod(lambda t: np.trace(lift_array(t)))

    @staticmethod
    def ones(shape, dtype=None, **kw):
        a = np.empty(shape, dtype=object)
        a.fill(1)
        return a

    @staticmethod
    def zeros(shape, dtype=None, **kw):
        a = np.empty(shape, dtype=object)
        a.fill(0)
        return a

    @staticmethod
    def zeros_like(t):
        return DBackend.zeros(np.shape(t))

    @staticmethod
    def eye(n, **kw):
        a = DBackend.zeros((n, n))
        for i in range(n):
            a[i, i] = 1
        return a

    @staticmethod
    def diag(v, k=0):
        return np.diag(lift_array(v), k=k) if np.ndim(v) == 2 else _diag_obj(lift_array(v), k)

    @staticmethod
    def dot(a, b):
        return np.dot(lift_array(a), lift_array(b))

    @staticmethod
    def matmul(a, b):
        return np.matmul(lift_array(a), lift_array(b))

    @staticmethod
    def tensordot(a, b, axes=2):
        return np.tensordot(lift_array(a), lift_array(b), axes=axes)

    @staticmethod
    def einsum(sub, *ops):
        return np.einsum(sub, *[lift_array(o) for o in ops])

    @staticmethod
    def sum(t, axis=None, keepdims=False):
        return np.sum(lift_array(t), axis=axis, keepdims=keepdims)

    @staticmethod
    def mean(t, axis=None):
        a = lift_array(t)
        n = a.size if axis is None else a.shape[axis]
        return np.sum(a, axis=axis) / n

    @staticmethod
    def prod(t, axis=None):
        return _reduce(lambda x, y: x * y, t, axis)

    @staticmethod
    def cumsum(t, axis=None):
        return np.cumsum(lift_array(t), axis=axis)

    @staticmethod
    def abs(t):
        return _map(lambda x: abs(x), t)

    @staticmethod
    def sqrt(t):
        if isinstance(t, Sc):
            return t.sqrt()
        if isinstance(t, (builtins.int, float)):
            return math.sqrt(t)
        return _map(lambda x: Sc.lift(x).sqrt() if isinstance(x, Sc) else math.sqrt(x), t)

    @staticmethod
    def sign(t):
        return _map(lambda x: ite(Sc.lift(x) > 0, 1, ite(Sc.lift(x) < 0, -1, 0)) if isinstance(x, Sc) else (x > 0) - (x < 0), t)

    @staticmethod
    def clip(t, a_min=None, a_max=None):
        def f(x):
            r = x
            if a_min is not None:
                r = _smax(r, a_min)
            if a_max is not None:
                r = _smin(r, a_max)
            return r
        return _map(f, t)

    @staticmethod
    def maximum(a, b, *args, **k):
        return _map(_smax, a, b)

    @staticmethod
    def minimum(a, b, *args, **k):
        return _map(_smin, a, b)

    @staticmethod
    def max(t, axis=None):
        return _reduce(_smax, t, axis)

    @staticmethod
    def min(t, axis=None):
        return _reduce(_smin, t, axis)

    @staticmethod
    def where(cond, x, y):
        def f(c, a, b):
            if isinstance(c, SB):
                return ite(c, a, b)
            return a if c else b
        return _map(f, cond, x, y)

    @staticmethod
    def all(t):
        vals = [v for v in lift_array(t).ravel()]
        bs = [_b(v) if isinstance(v, (SB, bool, np.bool_)) else _b(Sc.lift(v) != 0) for v in vals]
        return SB(z3.And(*bs)) if bs else True

    @staticmethod
    def any(t, *a, **k):
        vals = [v for v in lift_array(t).ravel()]
        bs = [_b(v) if isinstance(v, (SB, bool, np.bool_)) else _b(Sc.lift(v) != 0) for v in vals]
        return SB(z3.Or(*bs)) if bs else False

    @staticmethod
    def argsort(t, axis=-1):
        a = lift_array(t)
        if a.ndim == 1:
            return np.array(_argsort_1d(list(a)), dtype=int)
        a2 = np.moveaxis(a, axis, -1)
        out = np.empty(a2.shape, dtype=int)
        for idx in itertools.product(*[range(s) for s in a2.shape[:-1]]):
            out[idx] = _argsort_1d(list(a2[idx]))
        return np.moveaxis(out, -1, axis)

    @staticmethod
    def sort(t, axis=-1):
        a = lift_array(t)
        if axis is None:
            a = a.ravel()
            axis = 0
        idx = DBackend.argsort(a, axis=axis)
        return np.take_along_axis(a, idx, axis=axis)

    @staticmethod
    def argmax(t, axis=None):
        a = lift_array(t)
        if axis is None:
            return _argsort_1d([-Sc.lift(v) for v in a.ravel()])[0]
        a2 = np.moveaxis(a, axis, -1)
        out = np.empty(a2.shape[:-1], dtype=int)
        for idx in itertools.product(*[range(s) for s in a2.shape[:-1]]):
            out[idx] = _argsort_1d([-Sc.lift(v) for v in a2[idx]])[0]
        return out

    @staticmethod
    def argmin(t, axis=None):
        a = lift_array(t)
        if axis is None:
            return _argsort_1d(list(a.ravel()))[0]
        a2 = np.moveaxis(a, axis, -1)
        out = np.empty(a2.shape[:-1], dtype=int)
        for idx in itertools.product(*[range(s) for s in a2.shape[:-1]]):
            out[idx] = _argsort_1d(list(a2[idx]))[0]
        return out

    @staticmethod
    def count_nonzero(t):
        return builtins.sum(ite(Sc.lift(v) != 0, 1, 0) for v in lift_array(t).ravel())

    @staticmethod
    def index_update(tensor, indices, values):
        tensor[indices] = values
        return tensor

    @staticmethod
    def solve(a, b):
        """exact symbolic solve by Cramer-free Gaussian elimination is avoided: the result is a fresh tensor x with the
        defining constraint a @ x == b (contract A3 of solve; a assumed non-singular)"""
        a, b = lift_array(a), lift_array(b)
        x = np.empty(b.shape, dtype=object)
        for idx in itertools.product(*[range(s) for s in b.shape]):
            x[idx] = Sc(z3.Real(f"sol{next(_cnt)}"))
        prod = np.dot(a, x)
        for idx in itertools.product(*[range(s) for s in b.shape]):
            _define(_q(prod[idx]) == _q(b[idx]))
        return x

    @staticmethod
    def eps(dtype):
        return np.finfo(np.float64).eps

    finfo = staticmethod(np.finfo)

    @staticmethod
    def check_random_state(seed):
        raise EngineError("random numbers in E1-dense")

    def __getattr__(self, name):
        raise EngineError(f"backend primitive {name!r} has no contract in E1-dense")


def _diag_obj(v, k=0):
    n = len(v) + builtins.abs(k)
    a = DBackend.zeros((n, n))
    for i, x in enumerate(v):
        if k >= 0:
            a[i, i + k] = x
        else:
            a[i - k, i] = x
    return a


for _n in ("svd", "qr", "eigh", "lstsq", "log", "log2", "exp", "sin", "cos", "tan", "logsumexp", "randn", "gamma"):
    if _n not in DBackend.__dict__:
        def _mk(n):
            def f(*a, **k):
                raise EngineError(f"backend primitive {n!r} has no contract in E1-dense")
            return staticmethod(f)
        setattr(DBackend, _n, _mk(_n))


# ------------------------------------------------------------------------------------------------ logic helpers (symbolic or float)
TOL = 1e-7


def is_sym(x):
    return isinstance(x, (Sc, SB))


def d_and(*xs):
    xs = [x for x in xs]
    if any(isinstance(x, SB) for x in xs):
        return SB(z3.And(*[_b(x) for x in xs]))
    return all(bool(x) for x in xs)


def d_or(*xs):
    if any(isinstance(x, SB) for x in xs):
        return SB(z3.Or(*[_b(x) for x in xs]))
    return any(bool(x) for x in xs)


def d_implies(a, b):
    if isinstance(a, SB) or isinstance(b, SB):
        return SB(z3.Implies(_b(a), _b(b)))
    return (not a) or bool(b)


def d_not(a):
    return a.negate() if isinstance(a, SB) else (not a)


def d_le(a, b, scale=1.0):
    if isinstance(a, Sc) or isinstance(b, Sc):
        return Sc.lift(a) <= b
    return float(a) <= float(b) + TOL * max(1.0, builtins.abs(scale))


def d_lt(a, b, scale=1.0):
    """strict in the symbolic reading; with a float tolerance margin natively (used only as a hypothesis)"""
    if isinstance(a, Sc) or isinstance(b, Sc):
        return Sc.lift(a) < b
    return float(a) < float(b) - TOL * max(1.0, builtins.abs(scale))


def d_eq(a, b, scale=1.0):
    if isinstance(a, Sc) or isinstance(b, Sc):
        return Sc.lift(a) == b
    return builtins.abs(float(a) - float(b)) <= TOL * max(1.0, builtins.abs(scale), builtins.abs(float(a)), builtins.abs(float(b)))


def d_abs(a):
    return abs(a)


def d_sum(xs):
    r = 0
    for x in xs:
        r = r + x
    return r


def d_max(xs):
    xs = list(xs)
    r = xs[0]
    for x in xs[1:]:
        r = _smax(r, x)
    return r


def d_ite(c, a, b):
    if isinstance(c, SB):
        return ite(c, a, b)
    return a if c else b
