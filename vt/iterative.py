"""Harness for iterative decompositions: loop-cut execution of the real function with stubs and probes (DESIGN §2.5).

* `Probe`      a list subclass given to the code as its `rec_errors`: every append records the value together with a
               snapshot of the caller's locals (weights, factors, tensor, ...), i.e. the iterate the value belongs to.
* `stubbed`    context manager rebinding names in a repo module's globals (callee-by-contract stubs).
"""
import contextlib
import sys


class Probe(list):
    def __init__(self, initial=(), watch=()):
        super().__init__(initial)
        self.watch = tuple(watch)
        self.records = []

    def append(self, v):
        fr = sys._getframe(1)
        snap = {}
        for k in self.watch:
            if k in fr.f_locals:
                val = fr.f_locals[k]
                snap[k] = list(val) if isinstance(val, list) else val
        self.records.append((v, snap))
        super().append(v)


class CallbackProbe:
    def __init__(self, ret=None):
        self.records = []
        self.ret = ret

    def __call__(self, decomp, err=None):
        self.records.append((decomp, err))
        return self.ret


@contextlib.contextmanager
def stubbed(module, **names):
    saved = {}
    for k, v in names.items():
        saved[k] = module.__dict__.get(k, _MISSING)
        module.__dict__[k] = v
    try:
        yield
    finally:
        for k, v in saved.items():
            if v is _MISSING:
                module.__dict__.pop(k, None)
            else:
                module.__dict__[k] = v


_MISSING = object()
