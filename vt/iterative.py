"""Harness for iterative decompositions: loop-cut execution of the real function with stubs and probes (DESIGN §2.5).

* `Probe`      a list subclass given to the code as its `rec_errors`: every append records the value together with a
               snapshot of the caller's locals (weights, factors, tensor, ...), i.e. the iterate the value belongs to.
* `stubbed`    context manager rebinding names in a repo module's globals (callee-by-contract stubs).
"""
import contextlib
import sys


class Probe(list):
    def __init__(self, initial=(), watch=()):
        super().__init__(initial)
        self.watch = tuple(watch)
        self.records = []

    def append(self, v):
        fr = sys._getframe(1)
        snap = {}
        for k in self.watch:
            if k in fr.f_locals:
                val = fr.f_locals[k]
                snap[k] = list(val) if isinstance(val, list) else val
        self.records.append((v, snap))
        super().append(v)


class CallbackProbe:
    def __init__(self, ret=None):
        self.records = []
        self.ret = ret

    def __call__(self, decomp, err=None):
        self.records.append((decomp, err))
        return self.ret


STUB_CALLS = []  # (name, args, kwargs) of every call made to a contract stub: lets effect obligations check what callers hand to callees


def _recording(name, f):
    import types
    if not isinstance(f, (types.FunctionType, types.MethodType)):
        return f

    try:
        import inspect
        ps = inspect.signature(f).parameters.values()
        open_kw = any(p.kind is p.VAR_KEYWORD for p in ps)
        known = {p.name for p in ps if p.kind in (p.POSITIONAL_OR_KEYWORD, p.KEYWORD_ONLY)}
    except (TypeError, ValueError):
        open_kw, known = True, set()

    def w(*a, **k):
        STUB_CALLS.append((name, a, dict(k)))      # (recorded in full: effect obligations inspect what the caller handed over)
        if len(STUB_CALLS) > 10000:
            del STUB_CALLS[:5000]
        if not open_kw:
            k = {q: v for q, v in k.items() if q in known}   # a contract stub written before the callee gained an optional keyword ignores that keyword
        return f(*a, **k)
    w.__wrapped__ = f
    return w


@contextlib.contextmanager
def stubbed(module, **names):
    saved = {}
    for k, v in names.items():
        saved[k] = module.__dict__.get(k, _MISSING)
        module.__dict__[k] = _recording(k, v)
    try:
        yield
    finally:
        for k, v in saved.items():
            if v is _MISSING:
                module.__dict__.pop(k, None)
            else:
                module.__dict__[k] = v


_MISSING = object()


def real_dtype(t):
    """dtype contract of singular values / norms: real, of the precision of the argument"""
    return {"float32": "float32", "complex64": "float32"}.get(str(t.dtype), "float64")


def vector_dtype(t):
    """dtype contract of singular / eigen vectors: the argument's floating dtype; LAPACK works in double precision on integer and boolean data"""
    d = str(t.dtype)
    return d if d.startswith(("float", "complex")) else "float64"


def make_svd_stub(S, rec=None, exact=False, square_u=False):
    """svd_interface by contract (A3): U has orthonormal columns, S >= 0, V has orthonormal rows; with `exact` the
    hypothesis 'the truncated SVD is exact' (U diag(S) V = M) is registered (C09: requested rank >= rank of the unfolding).
    Natively the real function is called and its results recorded under the same opaque names."""
    from . import gtensor as G

    def stub(matrix, n_eigenvecs=None, **kw):
        if rec is not None:
            rec.append(dict(matrix=matrix, n_eigenvecs=n_eigenvecs, kw=dict(kw), at=G.caller_snapshot()))
        if S.name == "sym":
            k = n_eigenvecs
            nonneg = kw.get("non_negative") not in (None, False)   # svd_interface's contract: with the non-negative option both factors are entrywise non-negative (NNDSVD, C05) - and no longer orthonormal
            U = G.opaque_tensor("SVDU", [G.axis_sizes(matrix)[0], k], vector_dtype(matrix), ortho_axis=None if nonneg else (2 if square_u else 0), nonneg=nonneg)
            Sv = G.opaque_tensor("SVDS", [k], real_dtype(matrix), nonneg=True)  # contract: singular values are non-negative; dtype real, same precision
            V = G.opaque_tensor("SVDV", [k, G.axis_sizes(matrix)[1]], vector_dtype(matrix), ortho_axis=None if nonneg else 1, nonneg=nonneg)
            G.NONNEG.add(G.name_of(Sv))
            if exact:
                G.register_factorisation((G.name_of(U), G.name_of(Sv), G.name_of(V)), matrix)
            if rec is not None:
                rec[-1].update(U=U, S=Sv, V=V)
            return U, Sv, V
        import numpy as np
        from tensorly.tenalg.svd import svd_interface as real
        if rec is not None:
            rec[-1]["matrix"] = np.array(matrix, copy=True)
        out = real(matrix, n_eigenvecs=n_eigenvecs, **kw)
        S.record("SVDU", out[0])
        S.record("SVDS", out[1])
        S.record("SVDV", out[2])
        if rec is not None:
            rec[-1].update(U=out[0], S=out[1], V=out[2])
        return out
    return stub
