"""C03  Factorised tensors reconstruct to their defining contraction; views agree; invalid factor sets rejected.

Contracts on cp_tensor / tucker_tensor / tt_tensor / tr_tensor / tt_matrix / parafac2_tensor conversion functions,
wrapper classes and validators.  Conversions: E1-generic, result ≡ defining contraction for all sizes, ranks,
entries (both tenalg backends).  Validators: every dimension of every factor is an independent atom; z3 proves
`path ⇒ Valid` on normal return and `path ⇒ ¬Valid` on ValueError.
"""
import itertools

from ..oblig import GOb, Obligation, Verdict, PROVED, REFUTED, UNDECIDED
from ..symint import atom, explore, SInt, EngineError
from .. import specs as SP
from .. import gtensor as G
from .. import gbackend as B

PID = "C03"
LEVEL = "proof"
BACKENDS = ("core", "einsum")
C = "complex128"
TRUSTED_BASE = [
    "numpy einsum/dot/reshape/transpose/moveaxis contracts (vt.primcheck each run)",
    "CPython; shadows int/np/math.prod",
    "the VC generator (canaries + soundness monitor)",
]
ASSUMPTIONS = [
    "floats treated as reals/complex (A1)",
    "order (number of factors/cores) and number of PARAFAC2 slices are enumerated (order <= 4 quick, <= 5 thorough; slices <= 3 / 4); sizes, ranks and entries universally quantified",
    "PARAFAC2 orthonormality test: `max|P^T P - I| > 1e-5` is an uninterpreted data comparison; the obligation is that every normally-returning path took its False branch for every slice",
]
QUANTIFICATION = "forall mode sizes, ranks, slice heights (all orderings), real/complex entries; enumerated: order, #slices, unfolding mode, weights present/absent, tuple vs wrapper input, tenalg backend"
EXPLANATION = ("Conversions of every factorised format are proved equal to the defining contraction in canonical form; views (unfolded, vec, matrix, "
               "slices), .shape/.rank and norms are proved consistent with it; validators are proved to accept exactly the valid dimension patterns.")


def dims(N, p="n"):
    return [atom(f"{p}{k}") for k in range(N)]


def others(N, m):
    return [k for k in range(N) if k != m]


# ------------------------------------------------------------------------------------------------ validator obligations
class ValidatorOb(Obligation):
    """Runs a _validate_* function on factor sets whose every dimension is an independent atom.  For every path:
    normal return => all validity equalities are entailed by the path (and the returned shape/rank are the spec);
    ValueError => path ∧ Valid is unsatisfiable."""
    engine = "E1-generic+z3-paths"

    def __init__(self, name, function, build, call, valid, expect=None, instance=None, data_checks=None, native_data=None):
        super().__init__(PID, name, function, instance=instance or {}, clause="accepts exactly the valid factor sets",
                         forall=["every dimension of every factor (independent atoms)"], enumerated=list(instance or {}))
        self.build, self.call, self.valid, self.expect, self.data_checks = build, call, valid, expect, data_checks
        self.native_data = native_data

    def run(self):
        with B.symbolic_session(tenalg="core"):
            G.INPUTS.clear()
            obj, facts = self.build(lambda name, dims, orth=False: G.sym_input(name, dims))
            paths = explore(lambda: self.call(obj))
            n_ok = 0
            for p in paths:
                if p.kind == "engine":
                    return Verdict(UNDECIDED, "engine", str(p.value), len(paths))
                V = self.valid(facts)
                if p.kind == "ok":
                    n_ok += 1
                    for sb in V:
                        if not (sb if isinstance(sb, bool) else p.ctx.entails(sb)):
                            return Verdict(REFUTED, "z3", f"returned normally on a path where validity clause {sb!r} can be false; path={p.cond!r}",
                                           len(paths), self._witness(p, sb))
                    if self.expect is not None:
                        want = self.expect(facts)
                        got = p.value
                        if not _tuple_same(got, want):
                            return Verdict(REFUTED, "z3", f"returned {got!r}, expected {want!r}", len(paths), None)
                    if self.data_checks is not None:
                        why = self.data_checks(p, obj)
                        if why:
                            wit = None
                            if self.native_data is not None:
                                try:
                                    okn, info = self.native_data()
                                    wit = dict(replayable=True, native_fails=not okn, observed=info, kind="data-test")
                                except Exception as e:  # noqa
                                    wit = dict(replayable=True, native_fails=False, observed=f"harness error {type(e).__name__}: {e}", kind="data-test")
                            return Verdict(REFUTED, "path-condition", why, len(paths), wit)
                elif isinstance(p.value, ValueError):
                    if p.ctx.data_path and all(v for _, v in p.ctx.data_path[-1:]):
                        continue  # rejected because of a data test (orthonormality): allowed
                    if p.ctx.consistent(V):
                        return Verdict(REFUTED, "z3", f"ValueError although the factor set can be valid on this path: {p.cond!r}: {p.value}", len(paths), None)
                else:
                    return Verdict(REFUTED, "z3", f"unexpected exception {type(p.value).__name__}: {p.value}", len(paths), None)
            if n_ok == 0:
                return Verdict(REFUTED, "z3", "no normally-returning path: valid factor sets are rejected", len(paths), None)
            return Verdict(PROVED, "z3", "", len(paths))

    def _witness(self, p, sb):
        # a model of path ∧ ¬clause: an invalid factor set that is accepted; replayed natively
        ctx = p.ctx
        ctx.path.append(sb.negate())
        m = ctx.model()
        ctx.path.pop()
        if m is None:
            return dict(replayable=False)
        wit = dict(replayable=True, native_fails=False, env=m, seed=0, kind="accepted-invalid")
        try:
            ok, info = self.replay(wit)
            wit["native_fails"] = not ok
            wit["observed"] = info
        except Exception as e:  # noqa
            wit["observed"] = f"replay harness error {type(e).__name__}: {e}"
        return wit

    def replay(self, witness):
        """Build concrete factors with the witness sizes and run the real validator natively (NumPy backend)."""
        import numpy as np
        import tensorly as tl
        if witness.get("kind") == "data-test":
            return self.native_data()
        env = _Env(witness["env"])
        rng = np.random.RandomState(witness.get("seed", 0))

        def mk(name, dims, orth=False):
            shp = [int(SInt.lift(d).subs(env)) if isinstance(d, SInt) else int(d) for d in dims]
            a = rng.standard_normal(shp)
            if orth and len(shp) == 2 and shp[0] >= shp[1]:
                a = np.linalg.qr(a)[0]
            return a
        from ..oblig import _native_backend
        with _native_backend("core"):
            obj, facts = self.build(mk)
            V = self.valid(facts)
            is_valid = all((sb if isinstance(sb, bool) else _holds(sb, env)) for sb in V)
            try:
                self.call(obj)
                accepted = True
            except ValueError:
                accepted = False
            if accepted and not is_valid:
                return False, f"invalid factor set with dimensions {env} was accepted"
            if not accepted and is_valid:
                return False, f"valid factor set with dimensions {env} was rejected"
            return True, "validator agrees with the validity predicate on this input"


class _Env(dict):
    def __missing__(self, k):
        return 2


def _holds(sb, env):
    v = sb.p.subs(env)
    return {"==": v == 0, "!=": v != 0, "<": v < 0, "<=": v <= 0, ">": v > 0, ">=": v >= 0}[sb.op]


def _tuple_same(got, want):
    if isinstance(want, (tuple, list)):
        return isinstance(got, (tuple, list)) and len(got) == len(want) and all(_tuple_same(g, w) for g, w in zip(got, want))
    if isinstance(want, SInt) or isinstance(got, SInt):
        return SInt.lift(got).same(want)
    return got == want


def obligations(tier):
    import tensorly as tl
    import tensorly.cp_tensor as cpt
    import tensorly.tucker_tensor as tkt
    import tensorly.tt_tensor as ttt
    import tensorly.tr_tensor as trt
    import tensorly.tt_matrix as ttm
    import tensorly.parafac2_tensor as p2t

    maxN = 4 if tier == "quick" else 5
    obs = []
    R = atom("R")

    def add(be, fn, tag, setup, call, post, instance, clause="≡defining contraction", **kw):
        inst = dict(instance, tenalg=be)
        obs.append(GOb(PID, f"{PID}/{fn}/{clause}[{be},{tag}]", f"tensorly.{fn}", setup, call, post, tenalg=be, instance=inst, clause=clause,
                       forall=["mode sizes", "ranks", "entries"], enumerated=list(inst), **kw))

    for be in BACKENDS:
        # ================================================================== CP
        for N in range(1, maxN + 1):
            for wts in (True, False):
                for wrap in (False, True):
                    if N == 1 and not wts and not wrap:
                        continue  # order-1 tuple with weights=None is outside the documented domain (weights*factor)
                    def setup(S, N=N, wts=wts):
                        n = dims(N)
                        return dict(w=S.input("w", [R]) if wts else None, fs=[S.input(f"U{k}", [n[k], R], C) for k in range(N)], n=tuple(n))
                    mk = (lambda I: cpt.CPTensor((I["w"], list(I["fs"])))) if wrap else (lambda I: (I["w"], list(I["fs"])))
                    tag = f"N={N},weights={wts},{'CPTensor' if wrap else 'tuple'}"
                    inst = dict(order=N, weights=wts, wrapper=wrap)
                    add(be, "cp_tensor:cp_to_tensor", tag, setup, lambda I, mk=mk: cpt.cp_to_tensor(mk(I)),
                        lambda S, I, r: [("tensor", r, SP.cp_to_tensor(S, I["w"], I["fs"]))], inst)
                    if N >= 2:
                        for m in range(N):
                            add(be, "cp_tensor:cp_to_unfolded", tag + f",mode={m}", setup, lambda I, mk=mk, m=m: cpt.cp_to_unfolded(mk(I), m),
                                lambda S, I, r, N=N, m=m: [("unfolded", r, S.group(SP.cp_to_tensor(S, I["w"], I["fs"]), [[m], others(N, m)]))],
                                dict(inst, mode=m), clause="≡unfold(to_tensor)")
                    add(be, "cp_tensor:cp_to_vec", tag, setup, lambda I, mk=mk: cpt.cp_to_vec(mk(I)),
                        lambda S, I, r, N=N: [("vec", r, S.group(SP.cp_to_tensor(S, I["w"], I["fs"]), [list(range(N))]))], inst, clause="≡vec(to_tensor)")
                    add(be, "cp_tensor:cp_norm", tag, setup, lambda I, mk=mk: cpt.cp_norm(mk(I)),
                        lambda S, I, r: [("norm²", S.resolve_abs(r ** 2, [S.sumsq(SP.cp_to_tensor(S, I["w"], I["fs"]))]), S.sumsq(SP.cp_to_tensor(S, I["w"], I["fs"])))], inst, clause="norm²≡Σ|to_tensor|²")
                    if wrap:
                        add(be, "cp_tensor:CPTensor", tag, setup, lambda I, mk=mk: (mk(I).shape, mk(I).rank, mk(I).to_tensor(), mk(I).norm() ** 2),
                            lambda S, I, r: [("shape", r[0], I["n"]), ("rank", r[1], R), ("to_tensor", r[2], SP.cp_to_tensor(S, I["w"], I["fs"])),
                                             ("norm²", S.resolve_abs(r[3], [S.sumsq(SP.cp_to_tensor(S, I["w"], I["fs"]))]), S.sumsq(SP.cp_to_tensor(S, I["w"], I["fs"])))], inst, clause="shape/rank/to_tensor/norm agree")
            if N >= 2:
                def setup_m(S, N=N):
                    n = dims(N)
                    return dict(w=S.input("w", [R]), fs=[S.input(f"U{k}", [n[k], R], C) for k in range(N)], mask=S.input("mask", n))
                add(be, "cp_tensor:cp_to_tensor", f"N={N},mask", setup_m, lambda I: cpt.cp_to_tensor((I["w"], list(I["fs"])), mask=I["mask"]),
                    lambda S, I, r: [("tensor", r, SP.cp_to_tensor(S, I["w"], I["fs"], I["mask"]))], dict(order=N, mask=True), clause="≡masked contraction")
                # the other argument forms of the masked branch: no weights (tuple with None), wrapper object with and without weights
                for wts, wrap in ((False, False), (True, True), (False, True)):
                    mkm = (lambda I, wts=wts: cpt.CPTensor((I["w"] if wts else None, list(I["fs"])))) if wrap else (lambda I, wts=wts: (I["w"] if wts else None, list(I["fs"])))
                    add(be, "cp_tensor:cp_to_tensor", f"N={N},mask,weights={wts},{'CPTensor' if wrap else 'tuple'}", setup_m, lambda I, mkm=mkm: cpt.cp_to_tensor(mkm(I), mask=I["mask"]),
                        lambda S, I, r, wts=wts: [("tensor", r, SP.cp_to_tensor(S, I["w"] if wts else None, I["fs"], I["mask"]))], dict(order=N, mask=True, weights=wts, wrapper=wrap), clause="≡masked contraction")
        # ================================================================== Tucker
        for N in range(2, maxN + 1):
            def setup(S, N=N):
                n, r = dims(N), dims(N, "r")
                return dict(core=S.input("G", r, C), fs=[S.input(f"U{k}", [n[k], r[k]], C) for k in range(N)], n=tuple(n), r=tuple(r))
            for wrap in (False, True):
                mk = (lambda I: tkt.TuckerTensor((I["core"], list(I["fs"])))) if wrap else (lambda I: (I["core"], list(I["fs"])))
                tag = f"N={N},{'TuckerTensor' if wrap else 'tuple'}"
                inst = dict(order=N, wrapper=wrap)
                add(be, "tucker_tensor:tucker_to_tensor", tag, setup, lambda I, mk=mk: tkt.tucker_to_tensor(mk(I)),
                    lambda S, I, r: [("tensor", r, SP.tucker_to_tensor(S, I["core"], I["fs"]))], inst)
                for m in range(N):
                    add(be, "tucker_tensor:tucker_to_unfolded", tag + f",mode={m}", setup, lambda I, mk=mk, m=m: tkt.tucker_to_unfolded(mk(I), m),
                        lambda S, I, r, N=N, m=m: [("unfolded", r, S.group(SP.tucker_to_tensor(S, I["core"], I["fs"]), [[m], others(N, m)]))],
                        dict(inst, mode=m), clause="≡unfold(to_tensor)")
                add(be, "tucker_tensor:tucker_to_vec", tag, setup, lambda I, mk=mk: tkt.tucker_to_vec(mk(I)),
                    lambda S, I, r, N=N: [("vec", r, S.group(SP.tucker_to_tensor(S, I["core"], I["fs"]), [list(range(N))]))], inst, clause="≡vec(to_tensor)")
                if wrap:
                    add(be, "tucker_tensor:TuckerTensor", tag, setup, lambda I, mk=mk: (mk(I).shape, mk(I).rank, mk(I).to_tensor(), mk(I).norm() ** 2),
                        lambda S, I, r: [("shape", r[0], I["n"]), ("rank", r[1], I["r"]), ("to_tensor", r[2], SP.tucker_to_tensor(S, I["core"], I["fs"])),
                                         ("norm²", r[3], S.sumsq(SP.tucker_to_tensor(S, I["core"], I["fs"])))], inst, clause="shape/rank/to_tensor/norm agree")
            for skip in range(N):
                add(be, "tucker_tensor:tucker_to_tensor", f"N={N},skip_factor={skip}", setup, lambda I, skip=skip: tkt.tucker_to_tensor((I["core"], list(I["fs"])), skip_factor=skip),
                    lambda S, I, r, skip=skip: [("tensor", r, SP.tucker_to_tensor(S, I["core"], I["fs"], skip=skip))], dict(order=N, skip_factor=skip))
            def setup_t(S, N=N):
                n, r = dims(N), dims(N, "r")
                return dict(core=S.input("G", n, C), fs=[S.input(f"U{k}", [n[k], r[k]], C) for k in range(N)])
            add(be, "tucker_tensor:tucker_to_tensor", f"N={N},transpose_factors", setup_t, lambda I: tkt.tucker_to_tensor((I["core"], list(I["fs"])), transpose_factors=True),
                lambda S, I, r: [("tensor", r, SP.tucker_to_tensor(S, I["core"], I["fs"], transpose=True))], dict(order=N, transpose_factors=True))
        # ================================================================== TT-matrix (conversion itself is tenalg-dispatched)
        for d in range(1, maxN + 1):
            def setup(S, d=d):
                rk = [1] + [atom(f"r{k}") for k in range(1, d)] + [1]
                ins, outs = dims(d, "in"), dims(d, "out")
                return dict(cores=[S.input(f"G{k}", [rk[k], ins[k], outs[k], rk[k + 1]], C) for k in range(d)], ins=tuple(ins), outs=tuple(outs), rk=tuple(rk))
            for wrap in (False, True):
                mk = (lambda I: ttm.TTMatrix(list(I["cores"]))) if wrap else (lambda I: list(I["cores"]))
                tag = f"d={d},{'TTMatrix' if wrap else 'list'}"
                inst = dict(n_cores=d, wrapper=wrap)
                add(be, "tt_matrix:tt_matrix_to_matrix", tag, setup, lambda I, mk=mk: ttm.tt_matrix_to_matrix(mk(I)),
                    lambda S, I, r, d=d: [("matrix", r, S.group(SP.tt_matrix_to_tensor(S, I["cores"]), [list(range(d)), list(range(d, 2 * d))]))], inst, clause="≡matrix of the contraction")
                add(be, "tt_matrix:tt_matrix_to_vec", tag, setup, lambda I, mk=mk: ttm.tt_matrix_to_vec(mk(I)),
                    lambda S, I, r, d=d: [("vec", r, S.group(SP.tt_matrix_to_tensor(S, I["cores"]), [list(range(2 * d))]))], inst, clause="≡vec(to_tensor)")
                for m in range(2 * d):
                    add(be, "tt_matrix:tt_matrix_to_unfolded", tag + f",mode={m}", setup, lambda I, mk=mk, m=m: ttm.tt_matrix_to_unfolded(mk(I), m),
                        lambda S, I, r, d=d, m=m: [("unfolded", r, S.group(SP.tt_matrix_to_tensor(S, I["cores"]), [[m], others(2 * d, m)]))], dict(inst, mode=m), clause="≡unfold(to_tensor)")
                if wrap:
                    add(be, "tt_matrix:TTMatrix", tag, setup, lambda I, mk=mk: (mk(I).shape, mk(I).rank, mk(I).to_tensor(), mk(I).to_matrix()),
                        lambda S, I, r, d=d: [("shape", r[0], I["ins"] + I["outs"]), ("rank", r[1], I["rk"]), ("to_tensor", r[2], SP.tt_matrix_to_tensor(S, I["cores"])),
                                              ("to_matrix", r[3], S.group(SP.tt_matrix_to_tensor(S, I["cores"]), [list(range(d)), list(range(d, 2 * d))]))],
                        inst, clause="shape/rank/to_tensor/to_matrix agree")
    # ====================================================================== TT / TR (no tenalg dispatch inside): one backend
    be = "core"
    for d in range(1, maxN + 1):
        def setup(S, d=d):
            rk = [1] + [atom(f"r{k}") for k in range(1, d)] + [1]
            n = dims(d)
            return dict(cores=[S.input(f"G{k}", [rk[k], n[k], rk[k + 1]], C) for k in range(d)], n=tuple(n), rk=tuple(rk))
        for wrap in (False, True):
            mk = (lambda I: ttt.TTTensor(list(I["cores"]))) if wrap else (lambda I: list(I["cores"]))
            tag = f"d={d},{'TTTensor' if wrap else 'list'}"
            inst = dict(n_cores=d, wrapper=wrap)
            add(be, "tt_tensor:tt_to_tensor", tag, setup, lambda I, mk=mk: ttt.tt_to_tensor(mk(I)),
                lambda S, I, r: [("tensor", r, SP.tt_to_tensor(S, I["cores"]))], inst)
            for m in range(d):
                add(be, "tt_tensor:tt_to_unfolded", tag + f",mode={m}", setup, lambda I, mk=mk, m=m: ttt.tt_to_unfolded(mk(I), m),
                    lambda S, I, r, d=d, m=m: [("unfolded", r, S.group(SP.tt_to_tensor(S, I["cores"]), [[m], others(d, m)]))], dict(inst, mode=m), clause="≡unfold(to_tensor)")
            add(be, "tt_tensor:tt_to_vec", tag, setup, lambda I, mk=mk: ttt.tt_to_vec(mk(I)),
                lambda S, I, r, d=d: [("vec", r, S.group(SP.tt_to_tensor(S, I["cores"]), [list(range(d))]))], inst, clause="≡vec(to_tensor)")
            if wrap:
                add(be, "tt_tensor:TTTensor", tag, setup, lambda I, mk=mk: (mk(I).shape, mk(I).rank, mk(I).to_tensor(), mk(I).norm() ** 2),
                    lambda S, I, r: [("shape", r[0], I["n"]), ("rank", r[1], I["rk"]), ("to_tensor", r[2], SP.tt_to_tensor(S, I["cores"])),
                                     ("norm²", r[3], S.sumsq(SP.tt_to_tensor(S, I["cores"])))], inst, clause="shape/rank/to_tensor/norm agree")
    for d in range(2, maxN + 1):
        def setup(S, d=d):
            rk = [atom(f"r{k}") for k in range(d)]
            rk.append(rk[0])
            n = dims(d)
            return dict(cores=[S.input(f"G{k}", [rk[k], n[k], rk[k + 1]], C) for k in range(d)], n=tuple(n), rk=tuple(rk))
        for wrap in (False, True):
            mk = (lambda I: trt.TRTensor(list(I["cores"]))) if wrap else (lambda I: list(I["cores"]))
            tag = f"d={d},{'TRTensor' if wrap else 'list'}"
            inst = dict(n_cores=d, wrapper=wrap)
            add(be, "tr_tensor:tr_to_tensor", tag, setup, lambda I, mk=mk: trt.tr_to_tensor(mk(I)),
                lambda S, I, r: [("tensor", r, SP.tr_to_tensor(S, I["cores"]))], inst)
            for m in range(d):
                add(be, "tr_tensor:tr_to_unfolded", tag + f",mode={m}", setup, lambda I, mk=mk, m=m: trt.tr_to_unfolded(mk(I), m),
                    lambda S, I, r, d=d, m=m: [("unfolded", r, S.group(SP.tr_to_tensor(S, I["cores"]), [[m], others(d, m)]))], dict(inst, mode=m), clause="≡unfold(to_tensor)")
            add(be, "tr_tensor:tr_to_vec", tag, setup, lambda I, mk=mk: trt.tr_to_vec(mk(I)),
                lambda S, I, r, d=d: [("vec", r, S.group(SP.tr_to_tensor(S, I["cores"]), [list(range(d))]))], inst, clause="≡vec(to_tensor)")
            if wrap:
                add(be, "tr_tensor:TRTensor", tag, setup, lambda I, mk=mk: (mk(I).shape, mk(I).rank, mk(I).to_tensor()),
                    lambda S, I, r: [("shape", r[0], I["n"]), ("rank", r[1], I["rk"]), ("to_tensor", r[2], SP.tr_to_tensor(S, I["cores"]))], inst, clause="shape/rank/to_tensor agree")
    # ====================================================================== PARAFAC2
    for nI in range(1, (3 if tier == "quick" else 4) + 1):
        for wts in (True, False):
            def setup(S, nI=nI, wts=wts):
                Jn = [atom(f"J{i}") for i in range(nI)]
                K = atom("K")
                return dict(w=S.input("w", [R]) if wts else None, A=S.input("A", [nI, R]), B=S.input("B", [R, R]), Cc=S.input("Cm", [K, R]),
                            P=[S.input(f"P{i}", [Jn[i], R]) for i in range(nI)], J=Jn, K=K)
            # projections are symbolic (not known orthonormal): validation is switched off for the conversion obligations,
            # the orthonormality test itself is the subject of the validator obligations below
            def mk(I):
                return (I["w"], (I["A"], I["B"], I["Cc"]), list(I["P"]))
            inst = dict(n_slices=nI, weights=wts)
            tag = f"slices={nI},weights={wts}"
            for i in range(nI):
                add(be, "parafac2_tensor:parafac2_to_slice", tag + f",slice={i}", setup, lambda I, i=i: p2t.parafac2_to_slice(mk(I), i, validate=False),
                    lambda S, I, r, i=i: [("slice", r, SP.parafac2_slice(S, I["w"], I["A"], I["B"], I["Cc"], I["P"][i], i))], dict(inst, slice=i), clause="≡P_i B diag(a_i∘w) Cᵀ")
            add(be, "parafac2_tensor:parafac2_to_slices", tag, setup, lambda I: p2t.parafac2_to_slices(mk(I), validate=False),
                lambda S, I, r, nI=nI: [("slices", list(r), [SP.parafac2_slice(S, I["w"], I["A"], I["B"], I["Cc"], I["P"][i], i) for i in range(nI)])], inst, clause="≡all slices")
            add(be, "parafac2_tensor:apply_parafac2_projections", tag, setup, lambda I: _noval(p2t, lambda: p2t.apply_parafac2_projections(mk(I))),
                lambda S, I, r, nI=nI: [("weights", r[0], I["w"]), ("A", r[1][0], I["A"]), ("C", r[1][2], I["Cc"]),
                                        ("evolving", list(r[1][1]), [S.einsum("js,sr->jr", I["P"][i], I["B"]) for i in range(nI)])], inst, clause="B_i≡P_i B")
            def spec_tensor(S, I, nI=nI):
                mx = max(I["J"]) if S.name == "sym" else max(I["J"])
                return S.stack([S.pad_to(SP.parafac2_slice(S, I["w"], I["A"], I["B"], I["Cc"], I["P"][i], i), 0, mx) for i in range(nI)], 0)
            add(be, "parafac2_tensor:parafac2_to_tensor", tag, setup, lambda I: _noval(p2t, lambda: p2t.parafac2_to_tensor(mk(I))),
                lambda S, I, r, spec_tensor=spec_tensor: [("tensor (zero padded)", r, spec_tensor(S, I))], inst, clause="≡stack of zero-padded slices")
            if tier == "thorough" or nI <= 2:
                for m in range(3):
                    add(be, "parafac2_tensor:parafac2_to_unfolded", tag + f",mode={m}", setup, lambda I, m=m: _noval(p2t, lambda: p2t.parafac2_to_unfolded(mk(I), m)),
                        lambda S, I, r, m=m, spec_tensor=spec_tensor: [("unfolded", r, S.group(spec_tensor(S, I), [[m], others(3, m)]))], dict(inst, mode=m), clause="≡unfold(to_tensor)")
                add(be, "parafac2_tensor:parafac2_to_vec", tag, setup, lambda I: _noval(p2t, lambda: p2t.parafac2_to_vec(mk(I))),
                    lambda S, I, r, spec_tensor=spec_tensor: [("vec", r, S.group(spec_tensor(S, I), [[0, 1, 2]]))], inst, clause="≡vec(to_tensor)")
    obs.extend(_validators(tier, cpt, tkt, ttt, trt, ttm, p2t))
    return obs


def _noval(p2t, thunk):
    """Run with PARAFAC2 validation stubbed by its contract (returns normally): used only where the inputs are arbitrary
    symbolic projections; the validator body has its own obligations."""
    real = p2t._validate_parafac2_tensor

    def contract(t):
        # what the validator returns for a valid PARAFAC2 tensor: per-slice shapes and the rank
        if isinstance(t, p2t.Parafac2Tensor):
            return t.shape, t.rank
        w, fs, ps = t
        return tuple((p.shape[0], fs[2].shape[0]) for p in ps), fs[0].shape[1]
    p2t._validate_parafac2_tensor = contract
    try:
        return thunk()
    finally:
        p2t._validate_parafac2_tensor = real


def _validators(tier, cpt, tkt, ttt, trt, ttm, p2t):
    obs = []
    maxN = 4 if tier == "quick" else 5

    def A(name):
        return atom(name)

    for N in range(1, maxN + 1):
        # ---- CP: factors (a_k x b_k), weights (c,) or None
        for wts in (True, False):
            def build(mk, N=N, wts=wts):
                a = [A(f"va{k}") for k in range(N)]
                b = [A(f"vb{k}") for k in range(N)]
                c = A("vc")
                fs = [mk(f"U{k}", [a[k], b[k]]) for k in range(N)]
                w = mk("w", [c]) if wts else None
                return (w, fs), dict(a=a, b=b, c=c, wts=wts)
            obs.append(ValidatorOb(f"{PID}/cp_tensor:_validate_cp_tensor/accepts-iff-valid[N={N},weights={wts}]", "tensorly.cp_tensor:_validate_cp_tensor",
                                   build, lambda o: cpt._validate_cp_tensor(o),
                                   lambda f: [f["b"][k] == f["b"][0] for k in range(1, len(f["b"]))] + ([f["c"] == f["b"][0]] if f["wts"] else []),
                                   lambda f: (tuple(f["a"]), f["b"][0]), dict(order=N, weights=wts)))
        # ---- Tucker
        if N >= 2:
            def build(mk, N=N):
                a = [A(f"va{k}") for k in range(N)]
                b = [A(f"vb{k}") for k in range(N)]
                g = [A(f"vg{k}") for k in range(N)]
                return (mk("G", g), [mk(f"U{k}", [a[k], b[k]]) for k in range(N)]), dict(a=a, b=b, g=g)
            obs.append(ValidatorOb(f"{PID}/tucker_tensor:_validate_tucker_tensor/accepts-iff-valid[N={N}]", "tensorly.tucker_tensor:_validate_tucker_tensor",
                                   build, lambda o: tkt._validate_tucker_tensor(o), lambda f: [f["b"][k] == f["g"][k] for k in range(len(f["b"]))],
                                   lambda f: (tuple(f["a"]), tuple(f["b"])), dict(order=N)))
        # ---- TT
        def build(mk, N=N):
            l = [A(f"vl{k}") for k in range(N)]
            r = [A(f"vr{k}") for k in range(N)]
            n = [A(f"vn{k}") for k in range(N)]
            return [mk(f"G{k}", [l[k], n[k], r[k]]) for k in range(N)], dict(l=l, r=r, n=n)
        obs.append(ValidatorOb(f"{PID}/tt_tensor:_validate_tt_tensor/accepts-iff-valid[d={N}]", "tensorly.tt_tensor:_validate_tt_tensor",
                               build, lambda o: ttt._validate_tt_tensor(o),
                               lambda f: [f["l"][0] == 1, f["r"][-1] == 1] + [f["r"][k] == f["l"][k + 1] for k in range(len(f["l"]) - 1)],
                               lambda f: (tuple(f["n"]), tuple(f["l"]) + (f["r"][-1],)), dict(n_cores=N)))
        # ---- TR
        if N >= 2:
            obs.append(ValidatorOb(f"{PID}/tr_tensor:_validate_tr_tensor/accepts-iff-valid[d={N}]", "tensorly.tr_tensor:_validate_tr_tensor",
                                   build, lambda o: trt._validate_tr_tensor(o),
                                   lambda f: [f["r"][-1] == f["l"][0]] + [f["r"][k] == f["l"][k + 1] for k in range(len(f["l"]) - 1)],
                                   lambda f: (tuple(f["n"]), tuple(f["l"]) + (f["r"][-1],)), dict(n_cores=N)))
        # ---- TT-matrix
        def build4(mk, N=N):
            l = [A(f"vl{k}") for k in range(N)]
            r = [A(f"vr{k}") for k in range(N)]
            i_ = [A(f"vi{k}") for k in range(N)]
            o_ = [A(f"vo{k}") for k in range(N)]
            return [mk(f"G{k}", [l[k], i_[k], o_[k], r[k]]) for k in range(N)], dict(l=l, r=r, i=i_, o=o_)
        obs.append(ValidatorOb(f"{PID}/tt_matrix:_validate_tt_matrix/accepts-iff-valid[d={N}]", "tensorly.tt_matrix:_validate_tt_matrix",
                               build4, lambda o: ttm._validate_tt_matrix(o),
                               lambda f: [f["l"][0] == 1, f["r"][-1] == 1] + [f["r"][k] == f["l"][k + 1] for k in range(len(f["l"]) - 1)],
                               lambda f: (tuple(f["i"]) + tuple(f["o"]), tuple(f["l"]) + (f["r"][-1],)), dict(n_cores=N)))
    # ---- PARAFAC2: dimension pattern + the orthonormality test is taken (False branch) for every slice on every accepting path
    for nI in range(1, (3 if tier == "quick" else 4)):
        for wts in (True, False):
            def build(mk, nI=nI, wts=wts):
                ra, rb, rc, c = A("vra"), A("vrb"), A("vrc"), A("vc")
                J = [A(f"vJ{i}") for i in range(nI)]
                q = [A(f"vq{i}") for i in range(nI)]
                kb, kc = A("vkb"), A("vkc")
                w = mk("w", [c]) if wts else None
                fac = (mk("A", [nI, ra]), mk("B", [kb, rb]), mk("Cm", [kc, rc]))
                P = [mk(f"P{i}", [J[i], q[i]], orth=True) for i in range(nI)]
                return (w, fac, P), dict(ra=ra, rb=rb, rc=rc, c=c, J=J, q=q, kc=kc, wts=wts, nI=nI)
            def data_checks(p, obj, nI=nI):
                # every accepting path must have evaluated `max|PᵀP − I| > 1e-5` as False once per slice, on the right operand
                seen = []
                for db, val in p.ctx.data_path:
                    lhs = db.lhs
                    if db.op == ">" and isinstance(lhs, G.GTensor) and lhs.ndim == 0 and float(db.rhs) == 1e-5 and val is False:
                        ts = lhs.body.terms
                        if len(ts) == 1 and ts[0].facs and ts[0].facs[0][0][0] == "E" and ts[0].facs[0][0][1] in G.OPAQUE:
                            seen.append(G.OPAQUE[ts[0].facs[0][0][1]])
                if len(seen) != nI:
                    return f"orthonormality test passed for {len(seen)} of {nI} slices on an accepting path"
                S = __import__("vt.ns", fromlist=["SymNS"]).SymNS()
                for i, (op, operand) in enumerate(seen):
                    P = obj[2][i]
                    want = S.abs(G.binop(S.einsum("ja,jb->ab", P, P), S.eye(P.shape[1]), "sub"))
                    ok, info = G.tensors_equal(operand, want)
                    if op != "max" or not ok:
                        return f"slice {i}: the tested quantity is not max|P_iᵀP_i − I|: {info}"
                return None
            def native_data(nI=nI, wts=wts):
                """for every slice j: a factor set whose only defect is a non-orthonormal projection j must be rejected"""
                import numpy as np
                from ..oblig import _native_backend
                rng = np.random.RandomState(0)
                with _native_backend("core"):
                    for j in range(nI):
                        r = 2
                        P = [np.linalg.qr(rng.standard_normal((4 + i, r)))[0] for i in range(nI)]
                        P[j] = rng.standard_normal((4 + j, r))
                        t = (np.ones(r) if wts else None, (rng.standard_normal((nI, r)), rng.standard_normal((r, r)), rng.standard_normal((3, r))), P)
                        try:
                            p2t._validate_parafac2_tensor(t)
                            return False, f"a PARAFAC2 tensor whose projection {j} (of {nI}) is not orthonormal was accepted"
                        except ValueError:
                            pass
                return True, "non-orthonormal projections rejected at every slice index"
            obs.append(ValidatorOb(f"{PID}/parafac2_tensor:_validate_parafac2_tensor/accepts-iff-valid[slices={nI},weights={wts}]",
                                   "tensorly.parafac2_tensor:_validate_parafac2_tensor", build, lambda o: p2t._validate_parafac2_tensor(o),
                                   lambda f: [f["q"][i] == f["ra"] for i in range(f["nI"])] + [f["rb"] == f["ra"], f["rc"] == f["ra"]] + ([f["c"] == f["ra"]] if f["wts"] else []),
                                   lambda f: (tuple((f["J"][i], f["kc"]) for i in range(f["nI"])), f["ra"]), dict(n_slices=nI, weights=wts), data_checks=data_checks, native_data=native_data))
    return obs


def canaries(tier):
    import tensorly.cp_tensor as cpt
    R = atom("R")
    def setup(S):
        n = dims(3)
        return dict(w=S.input("w", [R]), fs=[S.input(f"U{k}", [n[k], R], C) for k in range(3)])
    return [GOb(PID, f"{PID}/canary/cp_to_tensor-without-weights", "tensorly.cp_tensor:cp_to_tensor", setup,
                lambda I: cpt.cp_to_tensor((I["w"], list(I["fs"]))), lambda S, I, r: [("tensor", r, SP.cp_to_tensor(S, None, I["fs"]))],
                tenalg="core", instance={}, clause="canary")]
