"""C10  Non-negative decompositions return entrywise non-negative factors.

Float-robust sign domain on E1-generic (shape-agnostic: all sizes), loop-cut invariants "every factor / weight / core of a
declared non-negative mode is >= 0".  The data tensor is signed (unconstrained); inner NNLS solvers enter by their `ensures
result >= 0` (proved on their bodies in C13); results are non-negative BY CONSTRUCTION (products / quotients / sums of
non-negative quantities, abs, clip at a non-negative bound), which survives IEEE rounding.
"""
from ..oblig import GOb
from ..symint import atom, EngineError
from ..loopcut import LoopCut
from ..iterative import stubbed, make_svd_stub, real_dtype
from .. import gtensor as G

PID = "C10"
LEVEL = "proof"
TRUSTED_BASE = [
    "IEEE sign facts: products, quotients and sums of non-negative floats are non-negative; abs and clip(x, lo >= 0) are non-negative",
    "ensures result >= eps >= 0 of hals_nnls / fista (proved in C13 at enumerated sizes), active_set_nnls (bounded stand-in in C13) — used by contract",
    "svd_interface by contract in the initialisers: orthonormal factors with arbitrary signs without the non-negative option (the callers' abs must make them non-negative), entrywise non-negative factors with it (make_svd_non_negative: proved entrywise non-negative and defined in C05 at enumerated shapes, bounded beyond)",
    "numpy primitive contracts; CPython; loop extraction",
]
ASSUMPTIONS = [
    "user-supplied initialisations are entrywise non-negative with non-negative weights (the property's precondition)",
    "cp/tucker normalisation inside the loops under the side condition 'no zero column' (where(s == 0, 1, s) = s); order enumerated 2..3 (4 thorough)",
    "constrained_parafac(non_negative) follows from C11 (provenance) and C12 (prox feasibility); PARAFAC2's unconstrained mode 1 is documented as not constrained",
]
QUANTIFICATION = "forall mode sizes, ranks, SIGNED data tensors, current non-negative iterate, solver outputs, iteration index; enumerated: algorithm, order, nn_modes subsets, options"
EXPLANATION = "Sign-domain invariant: established by the initialisers, preserved by every sweep, returned at every exit."


def dims(N, p="n"):
    return [atom(f"{p}{k}") for k in range(N)]


def obligations(tier):
    import tensorly as tl
    import tensorly.decomposition._cp as _cp
    import tensorly.decomposition._nn_cp as _nn
    import tensorly.decomposition._tucker as _tk
    import tensorly.decomposition._parafac2 as _p2
    from tensorly.cp_tensor import CPTensor

    maxN = 3 if tier == "quick" else 4
    obs = []
    R = atom("R")

    def add(fn, tag, setup, call, post, instance, clause, **kw):
        obs.append(GOb(PID, f"{PID}/{fn}/{clause}[{tag}]", f"tensorly.decomposition.{fn}", setup, call, post, tenalg="core", instance=instance, clause=clause,
                       forall=["mode sizes", "rank", "signed data", "current iterate", "solver outputs"], enumerated=list(instance), **kw))

    def nn_stub(prefix, S_holder):
        def stub(a, b, V=None, x=None, **kw):
            ref = V if V is not None else x
            S = S_holder["S"]
            if S.name == "sym":
                return G.opaque_tensor(prefix, G.axis_sizes(ref) if prefix != "ASET" else [G.flat_sizes(ref)], (G._result_dtype(a, b, ref) if prefix == "FISTA" else ref.dtype), nonneg=True)
            import tensorly.solvers.nnls as nnls
            real = dict(HALS=nnls.hals_nnls, FISTA=nnls.fista, ASET=nnls.active_set_nnls)[prefix]
            out = real(a, b, V, **kw) if prefix == "HALS" else real(a, b, x=x, **kw)
            S.record(prefix, out)
            return out
        return stub

    # ====================================================================== initialisers
    for N in range(2, maxN + 1):
        for init in ("svd", "random"):
            for normalize in (False, True):
                def setup(S, N=N):
                    return dict(_S=S, X=S.input("X", dims(N)))
                def call(I, init=init, normalize=normalize):
                    S = I["_S"]
                    with stubbed(_cp, svd_interface=make_svd_stub(S, None)):
                        kt = _cp.initialize_cp(I["X"], R if S.name == "sym" else 2, init=init, non_negative=True, normalize_factors=normalize, random_state=0)
                    return (kt.weights, list(kt.factors))
                add("_cp:initialize_cp", f"N={N},init={init},normalize_factors={normalize}", setup, call,
                    lambda S, I, r: [("weights >= 0", S.is_nonneg(r[0]), True)] + [(f"factor {k} >= 0", S.is_nonneg(f), True) for k, f in enumerate(r[1])],
                    dict(order=N, init=init, normalize_factors=normalize), "non-negative initialisation for signed data", side_nonzero=True,
                    assumptions=lambda I: [R <= n for n in dims(len(I["X"].shape))] if I["_S"].name == "sym" else [])
            def setup_t(S, N=N):
                return dict(_S=S, X=S.input("X", dims(N)), r=dims(N, "r"))
            def call_t(I, init=init, N=N):
                S = I["_S"]
                rank = list(I["r"])
                with stubbed(_tk, svd_interface=make_svd_stub(S, None)):
                    core, factors = _tk.initialize_tucker(I["X"], rank, list(range(N)), 0, init=init, non_negative=True)
                return (core, list(factors))
            add("_tucker:initialize_tucker", f"N={N},init={init}", setup_t, call_t,
                lambda S, I, r: [("core >= 0", S.is_nonneg(r[0]), True)] + [(f"factor {k} >= 0", S.is_nonneg(f), True) for k, f in enumerate(r[1])],
                dict(order=N, init=init), "non-negative initialisation for signed data",
                assumptions=lambda I: ([I["r"][k] <= dims(len(I["r"]))[k] for k in range(len(I["r"]))] if I["_S"].name == "sym" else []))
    # ====================================================================== CP family sweeps
    def cp_setup(N):
        def setup(S):
            n = dims(N)
            return dict(_S=S, X=S.input("X", n), w=S.input("w", [R], nonneg=True), fs=[S.input(f"U{k}", [n[k], R], nonneg=True) for k in range(N)],
                        e1=S.input("e_prev1", []), e2=S.input("e_prev2", []))
        return setup
    holder = {"S": None}
    def run_cp(func, module, I, kwargs, stubs=None, it=1):
        S = I["_S"]
        holder["S"] = S
        cut = LoopCut(func)
        with stubbed(module, initialize_cp=lambda *a, **k: CPTensor((I["w"], list(I["fs"]))), **(stubs or {})):
            st = cut.prefix(I["X"], R if S.name == "sym" else I["fs"][0].shape[1], **kwargs)
            st["factors"] = list(st["factors"])
            st["rec_errors"] = [I["e2"], I["e1"]]
            kind, st2 = cut.body(st, it)
            ret = cut.suffix(st2)
        cp = ret[0] if isinstance(ret, tuple) and isinstance(ret[0], CPTensor) else ret
        return dict(kind=kind, weights=cp.weights, factors=list(cp.factors), loop_w=st2["weights"], loop_f=list(st2["factors"]))
    def cp_post(nn_modes=None):
        def post(S, I, r):
            N = len(r["factors"])
            modes = range(N) if nn_modes is None else nn_modes
            out = [(f"[{r['kind']}] weights >= 0 after the sweep and in the result", (S.is_nonneg(r["loop_w"]), S.is_nonneg(r["weights"])), (True, True))]
            for m in modes:
                out.append((f"[{r['kind']}] factor {m} >= 0 after the sweep (invariant preserved)", S.is_nonneg(r["loop_f"][m]), True))
                out.append((f"[{r['kind']}] returned factor {m} >= 0", S.is_nonneg(r["factors"][m]), True))
            return out
        return post
    for N in range(2, maxN + 1):
        for opt, kwargs in [("plain", dict()), ("normalize_factors", dict(normalize_factors=True)), ("fixed_mode_0", dict(fixed_modes=[0])),
                            ("normalize_factors,fixed_mode_0", dict(normalize_factors=True, fixed_modes=[0]))]:
            if N >= 4 and "normalize" in opt:
                continue  # (order-4 normalised multiplicative sweeps exceed the per-obligation budget: orders 2-3 only)
            add("_nn_cp:non_negative_parafac", f"N={N},{opt}", cp_setup(N), lambda I, kwargs=kwargs: run_cp(_nn.non_negative_parafac, _nn, I, dict(kwargs, return_errors=True)),
                cp_post(), dict(order=N, options=opt), "sign invariant preserved by a sweep and returned at every exit", side_nonzero=True)
        hals_modes = [("all", "all", None)] + [(f"{{{m}}}", {m}, [m]) for m in range(N)] + ([("{0,1}", {0, 1}, [0, 1])] if N >= 3 else [])
        for tag, nnm, check in hals_modes:
            for opt, kwargs in [("plain", dict()), ("normalize_factors", dict(normalize_factors=True)), ("sparsity", dict(sparsity_coefficients=[0.1] * N)),
                                ("fixed_mode_0", dict(fixed_modes=[0])), ("fixed_mode_1", dict(fixed_modes=[1]))]:
                if opt in ("normalize_factors", "sparsity") and tag != "all":
                    continue
                if opt.startswith("fixed") and (N < 3 or tag == "all"):
                    continue   # (a fixed mode shifts positions in the update sequence against mode numbers: with strict subsets of non-negative modes, order 3)
                add("_nn_cp:non_negative_parafac_hals", f"N={N},nn_modes={tag},{opt}", cp_setup(N),
                    lambda I, kwargs=kwargs, nnm=nnm: run_cp(_nn.non_negative_parafac_hals, _nn, I, dict(kwargs, return_errors=True, nn_modes=nnm), stubs=dict(hals_nnls=nn_stub("HALS", holder))),
                    cp_post(check), dict(order=N, nn_modes=tag, options=opt), "sign invariant on exactly the declared non-negative modes", side_nonzero=True)
    # ====================================================================== Tucker family sweeps
    def tk_setup(N):
        def setup(S):
            n, r = dims(N), dims(N, "r")
            return dict(_S=S, X=S.input("X", n), core=S.input("G", r, nonneg=True), fs=[S.input(f"U{k}", [n[k], r[k]], nonneg=True) for k in range(N)], r=r,
                        e1=S.input("e_prev1", []), e2=S.input("e_prev2", []))
        return setup
    def run_tk(func, I, kwargs, stubs=None):
        S = I["_S"]
        holder["S"] = S
        cut = LoopCut(func)
        import tensorly as tl_
        def tsvd_stub(M, *a, **k):
            if S.name == "sym":
                return None, [G.opaque_tensor("SIGMA", [], real_dtype(M), nonneg=True)], None
            from tensorly.tenalg.svd import truncated_svd as real
            out = real(M, *a, **k)
            S.record("SIGMA", out[1][0])
            return out
        with stubbed(_tk, initialize_tucker=lambda *a, **k: (I["core"], list(I["fs"])), validate_tucker_rank=lambda shape, rank=None, **k: rank, **(stubs or {})), stubbed(tl_, truncated_svd=tsvd_stub):
            st = cut.prefix(I["X"], list(I["r"]), **kwargs)
            st["nn_factors"] = list(st["nn_factors"])
            st["rec_errors"] = [I["e2"], I["e1"]]
            kind, st2 = cut.body(st, 3)
            ret = cut.suffix(st2)
        t = ret[0] if isinstance(ret, tuple) else ret
        return dict(kind=kind, core=t.core, factors=list(t.factors), loop_core=st2["nn_core"], loop_f=list(st2["nn_factors"]))
    def tk_post(S, I, r):
        out = [(f"[{r['kind']}] core >= 0 after the sweep and in the result", (S.is_nonneg(r["loop_core"]), S.is_nonneg(r["core"])), (True, True))]
        for m, (a, b) in enumerate(zip(r["loop_f"], r["factors"])):
            out.append((f"[{r['kind']}] factor {m} >= 0 after the sweep and in the result", (S.is_nonneg(a), S.is_nonneg(b)), (True, True)))
        return out
    for N in range(2, min(maxN, 3) + 1):
        for opt, kwargs in [("plain", dict()), ("normalize_factors", dict(normalize_factors=True))]:
            add("_tucker:non_negative_tucker", f"N={N},{opt}", tk_setup(N), lambda I, kwargs=kwargs: run_tk(_tk.non_negative_tucker, I, dict(kwargs, return_errors=True)), tk_post,
                dict(order=N, options=opt), "sign invariant preserved by a sweep and returned at every exit", side_nonzero=True)
        for algo in ("fista", "active_set"):
            add("_tucker:non_negative_tucker_hals", f"N={N},{algo}", tk_setup(N),
                lambda I, algo=algo: run_tk(_tk.non_negative_tucker_hals, I, dict(return_errors=True, algorithm=algo),
                                            stubs=dict(hals_nnls=nn_stub("HALS", holder), fista=nn_stub("FISTA", holder), active_set_nnls=nn_stub("ASET", holder))),
                tk_post, dict(order=N, core_solver=algo), "sign invariant preserved by a sweep and returned at every exit", side_nonzero=True)
    # ====================================================================== PARAFAC2 line search: iterates clipped on non-negative modes
    for nnm in ([0], [2], [0, 2], (0, 2), {0, 2}, (2,), "all", [0, 1, 2], [1]):   # (the declaration may be a list, a tuple, a set - or the documented string 'all')
        def setup(S, nnm=nnm):
            K = atom("K")
            b_nn = nnm == "all" or 1 in nnm      # (the inner solver then keeps the projected-space factor of mode 1 non-negative: precondition on the incoming iterates)
            return dict(_S=S, Xs=[S.input(f"X{i}", [atom(f"J{i}"), K]) for i in range(2)], w=S.input("w", [R], nonneg=True),
                        fs=[S.input("A", [2, R], nonneg=True), S.input("B", [R, R], nonneg=b_nn), S.input("Cm", [K, R], nonneg=True)],
                        fl=[S.input("Al", [2, R], nonneg=True), S.input("Bl", [R, R], nonneg=b_nn), S.input("Cl", [K, R], nonneg=True)],
                        P=[S.input(f"P{i}", [atom(f"J{i}"), R]) for i in range(2)], err=S.input("err", []), nrm=S.input("nrm", [], nonneg=True))
        def call(I, nnm=nnm):
            S = I["_S"]
            import tensorly.parafac2_tensor as p2t
            from .c03 import _noval
            ls = _p2._BroThesisLineSearch(I["nrm"], "truncated_svd", verbose=False, nn_modes=nnm)
            def go():
                with stubbed(_p2, _compute_projections=lambda ts, fs, svd: list(I["P"]), _validate_parafac2_tensor=p2t._validate_parafac2_tensor):
                    return ls.line_step(8, list(I["Xs"]), list(I["fl"]), I["w"], list(I["fs"]), list(I["P"]), I["err"])
            f, p, e = _noval(p2t, go)
            return list(f)
        clipped = [0, 1, 2] if nnm == "all" else sorted(nnm)     # (every mode the inner non-negative solver constrains - with 'all' also the projected-space factor of mode 1: an extrapolated iterate left outside that set makes the next sweep raise the error, C07)
        add("_parafac2:_BroThesisLineSearch.line_step", f"nn_modes={type(nnm).__name__} {nnm if nnm == 'all' else sorted(nnm)}", setup, call,
            lambda S, I, r, clipped=clipped: [(f"mode {m} of the iterate returned by the line search (accepted or rejected) >= 0", S.is_nonneg(r[m]), True) for m in clipped],
            dict(nn_modes=str(nnm)), "line-search iterates are clipped on the non-negative modes")
    # ====================================================================== callee contracts used above, discharged here too: the inner NNLS solvers return
    # entries >= eps >= 0 (the same loop-cut bodies as C13, E1-dense + z3 at enumerated sizes; only the sign clause is claimed under C10)
    from . import c13
    from ..oblig_dense import DOb
    for ob in c13.obligations(tier):
        if isinstance(ob, DOb) and ob.function.endswith((":hals_nnls", ":fista")) and "cold start" not in ob.name:   # (the cold-start obligation is about definedness of the default iterate, no sign clause)
            def claims(I, out, ob=ob):
                sel = [c for c in ob.claims(I, out) if ">= eps" in c[0]]
                assert sel, "sign clause missing"
                return sel
            parts = ob.name.split("/")
            obs.append(DOb(PID, f"{PID}/callee-contract/{parts[1]}/result ≥ eps ≥ 0" + ob.name[ob.name.index("["):], ob.function, ob.inputs, ob.call, claims, params=ob.params, pre=ob.pre,
                           instance=dict(ob.instance), clause="ensures result >= eps >= 0 (contract used by the sweeps)", solver_timeout_ms=ob.solver_timeout_ms,
                           check_domain=ob.check_domain, max_paths=ob.max_paths))
    # ====================================================================== bounded stand-in (never counted as proved): end-to-end native survey - the real
    # entry points, unstubbed, on seeded tensors; a cross-check of the composed contracts on what they assume away (degenerate data, option combinations)
    from .c09 import BoundedOb
    from . import e2e_native
    obs.append(BoundedOb(f"{PID}/bounded/native survey: every returned factor, weight and core is finite and non-negative", "tensorly.decomposition:non_negative_parafac+non_negative_parafac_hals+non_negative_tucker+non_negative_tucker_hals", lambda: e2e_native.c10(tier), dict(orders="2-3 (4 thorough)", data="signed, non-negative, sparse, integer, all-negative", budgets="0, 1, 6"), "seed 0; SVD and random initialisation, with and without normalisation, FISTA and active-set core; calls raising LinAlgError('Singular matrix') are skipped", pid=PID))
    from .c09 import BoundedOb as _BOb
    from . import e2e_native as _e2e
    obs.append(_BOb(f"{PID}/bounded/native survey of secondary entry points: PARAFAC2 variants, TR-ALS, constrained / randomised CP, masks, sparse component, normalisation exits, CMTF, TT-matrix",
                    "tensorly.decomposition:parafac2+tensor_ring_als+constrained_parafac+randomised_parafac+parafac+non_negative_tucker+non_negative_tucker_hals+coupled_matrix_tensor_3d_factorization+tensor_train_matrix",
                    lambda: _e2e.extras(tier, PID), dict(entry_points=9, clauses="those of this property"), "seed 0; tolerances 1e-6 (errors), 1e-8 (structure); one shared run per process, failures filtered by property", pid=PID))
    # ---- the class wrappers hand the non-negativity options, initialisation and normalisation to the functions proved above
    from . import wrappers as _W
    obs.extend(_W.obligations(PID, select=("CP_NN", "CP_NN_HALS", "Tucker_NN", "Tucker_NN_HALS", "ConstrainedCP", "Parafac2"),
                              only=("nn_modes", "non_negative", "init", "normalize_factors", "sparsity_coefficients", "core_sparsity_coefficient", "fixed_modes", "algorithm", "exact", "rank")))
    # ====================================================================== non-negatively constrained CP: the factor of every mode declared non-negative is the output of
    # the proximal operator for THAT mode's specification (initialiser, ADMM exits, every sweep, with and without fixed modes) - the provenance obligations of
    # C11 on the same call sites, re-discharged here; entrywise non-negativity of the non-negativity operator's output is C12's (clip at 0)
    from . import c11 as _c11
    for ob in _c11.obligations(tier):
        if type(ob) is GOb and ob.function.endswith((":initialize_constrained_parafac", ":admm", ":constrained_parafac")):
            obs.append(GOb(PID, f"{PID}/" + ob.name.split("/", 1)[1], ob.function, ob.setup, ob.call, ob.post, tenalg=ob.tenalg, assumptions=ob.assumptions, side_nonzero=ob.side_nonzero,
                           instance=dict(ob.instance, source="C11"), clause=ob.clause, forall=list(ob.forall), enumerated=list(ob.enumerated)))
    return obs


def canaries(tier):
    import tensorly.decomposition._cp as _cp
    R = atom("R")
    def setup(S):
        return dict(_S=S, X=S.input("X", dims(3)))
    def call(I):
        with stubbed(_cp, svd_interface=make_svd_stub(I["_S"], None)):
            kt = _cp.initialize_cp(I["X"], R, init="svd", non_negative=False)
        return list(kt.factors)
    return [GOb(PID, f"{PID}/canary/plain-svd-init-is-non-negative", "tensorly.decomposition._cp:initialize_cp", setup, call,
                lambda S, I, r: [("must fail", S.is_nonneg(r[0]), True)], tenalg="core", instance={}, clause="canary",
                assumptions=lambda I: [R <= n for n in dims(3)])]
