"""C09  SVD-based decompositions: exact at sufficient rank, else quasi-optimal.

Proved (E1-generic, hypothesis rewriting): under the hypothesis that every truncated SVD of the run is exact (which is what
"requested rank >= rank of the corresponding unfolding" means for the values; that the k-th remainder matrix has the rank of
the k-th sequential unfolding is part of trusted lemma L7), TT-SVD, TT-matrix and tensor-ring SVD (every starting mode)
reconstruct the input exactly; conformance of every SVD call (C08 shares these).  The quasi-optimality BOUNDS are theorems
about the algorithm (L7): they are only checked by a bounded stand-in on native inputs, labelled so and never counted as proved.
"""
import itertools
import time

import numpy as np

from ..oblig import GOb, Obligation, Verdict, PROVED, REFUTED
from ..symint import atom, sprod
from ..iterative import stubbed, make_svd_stub
from .. import specs as SP
from .. import gtensor as G

PID = "C09"
LEVEL = "proof"
TRUSTED_BASE = [
    "svd contract (A3) incl. exactness of a truncated SVD that keeps at least rank(M) components (U diag(S) V = M)",
    "L7: sequential-unfolding rank facts and the HOSVD / TT-SVD quasi-optimality bounds (theorems, not proved here)",
    "numpy primitive contracts (vt.primcheck); CPython; the VC generator",
]
ASSUMPTIONS = [
    "floats as reals (A1) in the exactness proofs ('to rounding error' is not quantified)",
    "order enumerated (2..3 quick, 2..4 thorough)",
    "exactness of Tucker/HOOI at sufficient multilinear rank and ALL numeric bounds are covered only by the bounded stand-in (native runs, orders 2-4, seeded) — reported separately, never counted as proved",
]
QUANTIFICATION = "forall mode sizes, ranks (within the exactness hypothesis), data; enumerated: order, TR starting mode; bounded stand-in: seeded native tensors"
EXPLANATION = "Exact-SVD hypothesis registered as a factorisation rewriting rule; reconstruction compared with the input in canonical form."


def dims(N, p="n"):
    return [atom(f"{p}{k}") for k in range(N)]


class BoundedOb(Obligation):
    """bounded stand-in: native runs on seeded inputs; never counted as proved"""
    engine = "bounded-native"

    def __init__(self, name, function, fn, instance, bound, pid=None):
        super().__init__(pid or PID, name, function, instance=instance, clause="bounded stand-in", forall=[], enumerated=list(instance))
        self.fn, self.bound = fn, bound
        self.bounded = True

    def run(self):
        t0 = time.time()
        n, fails = self.fn()
        v = Verdict(PROVED if not fails else REFUTED, "bounded-native", "; ".join(fails[:3]), extra=dict(evaluations=n, bound=self.bound),
                    witness=dict(replayable=True, native_fails=True, failures=fails[:3]) if fails else None)
        v.time_s = time.time() - t0
        return v

    def replay(self, witness):
        n, fails = self.fn()
        return (not fails), "; ".join(fails[:3])


def obligations(tier):
    import tensorly as tl
    import tensorly.decomposition._tt as _tt
    import tensorly.decomposition._tr_svd as _trs

    maxN = 3 if tier == "quick" else 4
    obs = []

    def add(fn, tag, setup, call, post, instance, clause, **kw):
        obs.append(GOb(PID, f"{PID}/{fn}/{clause}[{tag}]", f"tensorly.decomposition.{fn}", setup, call, post, tenalg="core", instance=instance, clause=clause,
                       forall=["mode sizes", "ranks", "data"], enumerated=list(instance), **kw))

    # ---- TT-SVD exact at sufficient rank
    def tt_setup(N):
        def setup(S):
            n = dims(N)
            return dict(_S=S, X=S.input("X", n), n=n, rk=[1] + [atom(f"r{k}") for k in range(1, N)] + [1])
        return setup
    def tt_pre(N):
        def pre(I):
            out = []
            for k in range(1, N):
                out.append(I["rk"][k] <= I["rk"][k - 1] * I["n"][k - 1])
                out.append(I["rk"][k] <= sprod(I["n"][k:]))
            return out
        return pre
    def run_tt(I):
        with stubbed(_tt, svd_interface=make_svd_stub(I["_S"], None, exact=True)):
            return list(_tt.tensor_train(I["X"], list(I["rk"])).factors)
    def run_tt_class(I):
        with stubbed(_tt, svd_interface=make_svd_stub(I["_S"], None, exact=True)):
            return list(_tt.TensorTrain(list(I["rk"])).fit_transform(I["X"]).factors)
    for N in range(2, maxN + 1):
        add("_tt:TensorTrain.fit_transform", f"N={N}", tt_setup(N), run_tt_class, lambda S, I, r: ([("tt_to_tensor(TensorTrain(rank).fit_transform(X)) ≡ X when every truncated SVD is exact", SP.tt_to_tensor(S, r), I["X"])] if S.name == "sym" else []),
            dict(order=N, entry="class wrapper"), "exact reconstruction at sufficient rank", assumptions=tt_pre(N))
        add("_tt:tensor_train", f"N={N}", tt_setup(N), run_tt, lambda S, I, r: ([("tt_to_tensor(TT-SVD(X)) ≡ X when every truncated SVD is exact", SP.tt_to_tensor(S, r), I["X"])] if S.name == "sym" else []),
            dict(order=N), "exact reconstruction at sufficient rank", assumptions=tt_pre(N))
    # ---- a requested rank above what a mode allows is clamped in the RESULT, never in the caller's rank specification: the list the caller hands over is the same
    #      after the call, so a later call with the same list (or the same TensorTrain(rank=[...]) object) on a larger tensor still requests what the caller asked for
    def run_tt_keep(I):
        rk = list(I["rk"])
        with stubbed(_tt, svd_interface=make_svd_stub(I["_S"], None)):
            cores = list(_tt.tensor_train(I["X"], rk).factors)
        return dict(cores=cores, rk=rk)
    def run_tt_keep_class(I):
        rk = list(I["rk"])
        with stubbed(_tt, svd_interface=make_svd_stub(I["_S"], None)):
            est = _tt.TensorTrain(rk)
            cores = list(est.fit_transform(I["X"]).factors)
        return dict(cores=cores, rk=rk, est_rank=list(est.rank) if isinstance(est.rank, (list, tuple)) else est.rank)
    for fn, runner in (("_tt:tensor_train", run_tt_keep), ("_tt:TensorTrain.fit_transform", run_tt_keep_class)):
        def post_keep(S, I, r):
            # (the requested first rank exceeds the first mode size, so the rank the decomposition works with differs from the requested one on every path)
            out = [("the caller's rank list is left as supplied (length)", len(r["rk"]), len(I["rk"]))]
            out += [(f"the caller's rank list is left as supplied (entry {q})", a, b) for q, (a, b) in enumerate(zip(r["rk"], I["rk"]))]
            if "est_rank" in r:
                out += [(f"the estimator still holds the requested rank (entry {q})", a, b) for q, (a, b) in enumerate(zip(r["est_rank"], I["rk"]))]
            return out
        add(fn, "N=3, requested rank above the first mode size", tt_setup(3), runner, post_keep, dict(order=3, case="r1 > n0: clamped"), "rank specification of the caller is not written (the clamp is local)",
            assumptions=lambda I: [I["n"][0] < I["rk"][1], I["rk"][2] <= I["n"][2]])
    # ---- TT-matrix (2 cores, 3 in thorough)
    for d in (1, 2) + ((3,) if tier == "thorough" else ()):  # d = 1: a plain matrix, returned as a single core without any SVD
        def setup(S, d=d):
            ins, outs = dims(d, "in"), dims(d, "out")
            return dict(_S=S, X=S.input("X", ins + outs), ins=ins, outs=outs, rk=[1] + [atom(f"r{k}") for k in range(1, d)] + [1])
        def pre(I, d=d):
            sz = [a * b for a, b in zip(I["ins"], I["outs"])]
            out = []
            for k in range(1, d):
                out.append(I["rk"][k] <= I["rk"][k - 1] * sz[k - 1])
                out.append(I["rk"][k] <= sprod(sz[k:]))
            return out
        def call(I):
            with stubbed(_tt, svd_interface=make_svd_stub(I["_S"], None, exact=True)):
                return list(_tt.tensor_train_matrix(I["X"], list(I["rk"])).factors)
        def call_class(I):
            with stubbed(_tt, svd_interface=make_svd_stub(I["_S"], None, exact=True)):
                return list(_tt.TensorTrainMatrix(list(I["rk"])).fit_transform(I["X"]).factors)
        add("_tt:TensorTrainMatrix.fit_transform", f"d={d}", setup, call_class, lambda S, I, r, d=d: ([("tt_matrix_to_tensor(TensorTrainMatrix(rank).fit_transform(X)) ≡ X when every truncated SVD is exact", SP.tt_matrix_to_tensor(S, r), I["X"])] if S.name == "sym" or d == 1 else []),
            dict(n_cores=d, entry="class wrapper"), "exact reconstruction at sufficient rank (interleaving transpose as documented)", assumptions=pre)
        add("_tt:tensor_train_matrix", f"d={d}", setup, call, lambda S, I, r, d=d: ([("tt_matrix_to_tensor(TTM-SVD(X)) ≡ X when every truncated SVD is exact", SP.tt_matrix_to_tensor(S, r), I["X"])] if S.name == "sym" or d == 1 else []),
            dict(n_cores=d), "exact reconstruction at sufficient rank (interleaving transpose as documented)", assumptions=pre)
    # ---- tensor ring SVD, every starting mode
    for N in (3,) + ((4,) if tier == "thorough" else ()):
        for mode in range(N):
            def setup(S, N=N):
                n = dims(N)
                rk = [atom(f"r{k}") for k in range(N)]
                rk.append(rk[0])
                return dict(_S=S, X=S.input("X", n), n=n, rk=rk)
            def pre(I, mode=mode, N=N):
                n, rk = I["n"], I["rk"]
                order = list(range(mode, N)) + list(range(mode))
                nn = [n[o] for o in order]
                rr = rk[mode:-1] + rk[:mode] + [rk[mode]]
                out = [rr[0] * rr[1] <= nn[0], rr[0] * rr[1] <= sprod(nn[1:])]
                for k in range(1, N - 1):
                    out.append(rr[k + 1] <= rr[k] * nn[k])
                    out.append(rr[k + 1] <= rr[0] * sprod(nn[k + 1:]))
                return out
            def call(I, mode=mode):
                with stubbed(_trs, svd_interface=make_svd_stub(I["_S"], None, exact=True)):
                    return list(_trs.tensor_ring(I["X"], list(I["rk"]), mode=mode).factors)
            def call_class(I, mode=mode):
                with stubbed(_trs, svd_interface=make_svd_stub(I["_S"], None, exact=True)):
                    return list(_trs.TensorRing(list(I["rk"]), mode=mode).fit_transform(I["X"]).factors)
            add("_tr_svd:TensorRing.fit_transform", f"N={N},mode={mode}", setup, call_class, lambda S, I, r: ([("tr_to_tensor(TensorRing(rank, mode).fit_transform(X)) ≡ X when every truncated SVD is exact", SP.tr_to_tensor(S, r), I["X"])] if S.name == "sym" else []),
                dict(order=N, mode=mode, entry="class wrapper"), "exact reconstruction at sufficient rank", assumptions=pre)
            add("_tr_svd:tensor_ring", f"N={N},mode={mode}", setup, call, lambda S, I, r: ([("tr_to_tensor(TR-SVD(X)) ≡ X when every truncated SVD is exact", SP.tr_to_tensor(S, r), I["X"])] if S.name == "sym" else []),
                dict(order=N, mode=mode), "exact reconstruction at sufficient rank", assumptions=pre)
    # ---- integer-valued data stored with an integer dtype (the quantifier lists it): the factors and cores come out of the SVD in floating point and must stay
    #      so - a cast back into the input's integer context truncates orthonormal vectors to 0 / +-1 and destroys exactness.  Decided on dtype tags (every
    #      primitive asks numpy for its result dtype; SVD contract: vectors and values are float64 for integer input), for all sizes and ranks.
    import tensorly.decomposition._tucker as _tk
    for N in (3,):
        def int_setup(S, N=N):
            n = dims(N)
            return dict(_S=S, X=S.input("X", n, "int64"), n=n)
        def int_call(I, N=N):
            S = I["_S"]
            Rq = atom("R")
            sym = S.name == "sym"
            out = {}
            with stubbed(_tt, svd_interface=make_svd_stub(S, None)):
                out["tensor_train"] = [str(f.dtype) for f in _tt.tensor_train(I["X"], [1] + [Rq] * (N - 1) + [1] if sym else [1] * (N + 1)).factors]
            for mode in range(N):
                with stubbed(_trs, svd_interface=make_svd_stub(S, None)):
                    out[f"tensor_ring, mode {mode}"] = [str(f.dtype) for f in _trs.tensor_ring(I["X"], [Rq] * (N + 1) if sym else [1] * (N + 1), mode=mode).factors]
            for budget in (0, 1):
                with stubbed(_tk, svd_interface=make_svd_stub(S, None)):
                    t = _tk.tucker(I["X"], [Rq] * N if sym else [1] * N, n_iter_max=budget, tol=0)
                out[f"tucker, budget {budget}"] = [str(t.core.dtype)] + [str(f.dtype) for f in t.factors]
            return out
        def int_post(S, I, r):
            return [(f"{k}: every returned array is floating point", v, ["float64"] * len(v)) for k, v in r.items()]
        add("_tt:tensor_train+_tr_svd:tensor_ring+_tucker:tucker", f"N={N},int64 data", int_setup, int_call, int_post, dict(order=N, dtype="int64"),
            "integer-dtype input: cores and factors stay floating point",
            assumptions=lambda I: [atom("R") <= x for x in I["n"]] + [atom("R") * atom("R") <= x for x in I["n"]])
    # ---- bounded stand-in for the numeric bounds and for Tucker exactness
    def bounded():
        from tensorly.decomposition import tucker, tensor_train
        from tensorly import tucker_to_tensor, tt_to_tensor, unfold
        import warnings
        warnings.simplefilter("ignore")
        seed = 0
        rng = np.random.RandomState(seed)
        n_eval, fails = 0, []
        shapes = [(4, 5), (3, 4, 5), (3, 3, 4, 2), (2, 2, 10)] if tier == "quick" else [(4, 5), (5, 4), (3, 4, 5), (4, 4, 4), (3, 3, 4, 2), (2, 3, 2, 3), (2, 2, 10), (1, 4, 8, 1), (6, 6)]
        for shape in shapes:
            N = len(shape)
            gens = {"generic": rng.standard_normal(shape), "integer": rng.randint(-3, 4, size=shape).astype(float), "integer-dtype": rng.randint(-3, 4, size=shape)}
            core = rng.standard_normal([2] * N)
            low = core
            for k, s in enumerate(shape):
                low = np.moveaxis(np.tensordot(rng.standard_normal((s, 2)), np.moveaxis(low, k, 0), axes=1), 0, k)
            gens["low-multilinear-rank"] = low
            for kind, X in gens.items():
                Xf = X.astype(float)
                nx = np.linalg.norm(Xf)
                sv = [np.linalg.svd(unfold(Xf, k), compute_uv=False) for k in range(N)]
                seq = [np.linalg.svd(Xf.reshape(int(np.prod(shape[:k + 1])), -1), compute_uv=False) for k in range(N - 1)]
                for r in range(1, max(shape) + 2):
                    ranks = [min(r, s) for s in shape]
                    try:
                        t = tucker(X, ranks, init="svd", n_iter_max=50, tol=1e-12)
                    except Exception as e:  # noqa
                        fails.append(f"tucker {kind} {shape} ranks {ranks}: raises {type(e).__name__}: {str(e)[:80]}")
                        continue
                    err = np.linalg.norm(X - tucker_to_tensor(t))
                    tails = [np.sqrt(np.sum(s_[rk:] ** 2)) for s_, rk in zip(sv, ranks)]
                    n_eval += 1
                    if err > np.sqrt(sum(t_ ** 2 for t_ in tails)) * (1 + 1e-8) + 1e-9 * nx:
                        fails.append(f"tucker {kind} {shape} ranks {ranks}: error {err:.3e} above the HOSVD bound {np.sqrt(sum(t_**2 for t_ in tails)):.3e}")
                    if err < max(tails) * (1 - 1e-8) - 1e-9 * nx:
                        fails.append(f"tucker {kind} {shape} ranks {ranks}: error {err:.3e} below the largest discarded tail {max(tails):.3e}")
                    if N >= 2:
                        tt_rank = [1] + [r] * (N - 1) + [1]
                        try:
                            tt = tensor_train(X, tt_rank)
                        except Exception as e:  # noqa
                            fails.append(f"tensor_train {kind} {shape} rank {r}: raises {type(e).__name__}: {str(e)[:80]}")
                            continue
                        err = np.linalg.norm(X - tt_to_tensor(tt))
                        used = list(tt.rank)[1:-1]
                        tails = [np.sqrt(np.sum(s_[rk:] ** 2)) for s_, rk in zip(seq, used)]
                        n_eval += 1
                        if err > np.sqrt(sum(t_ ** 2 for t_ in tails)) * (1 + 1e-8) + 1e-9 * nx:
                            fails.append(f"tensor_train {kind} {shape} rank {r}: error {err:.3e} above the TT-SVD bound")
                        if err < max(tails + [0.0]) * (1 - 1e-8) - 1e-9 * nx:
                            fails.append(f"tensor_train {kind} {shape} rank {r}: error {err:.3e} below the largest discarded tail")
                        if any(u > r for u in used):
                            fails.append(f"tensor_train {shape}: returned rank {used} exceeds requested {r}")
        # exactness at sufficient rank for every exact SVD method, tensor ring (every starting mode) and TT-matrix, float and integer dtype, rank-deficient data
        from tensorly.decomposition import tensor_ring, tensor_train_matrix
        from tensorly import tr_to_tensor, tt_matrix_to_tensor
        def lowrank(shape, r):
            t = rng.randint(-2, 3, size=[r] * len(shape)).astype(float)
            for k, s in enumerate(shape):
                t = np.moveaxis(np.tensordot(rng.randint(-2, 3, size=(s, r)).astype(float), np.moveaxis(t, k, 0), axes=1), 0, k)
            return t
        exact_cases = [("generic float", rng.standard_normal((3, 4, 3))), ("integer dtype", rng.randint(-3, 4, size=(3, 4, 3))), ("rank-1 square", np.outer(rng.standard_normal(6), rng.standard_normal(6))),
                       ("outer product (4,2,2)", lowrank((4, 2, 2), 1)), ("low rank (3,3,3,3)", lowrank((3, 3, 3, 3), 1)), ("low rank integer dtype", lowrank((4, 3, 4), 2).astype(int))]
        for kind, X in exact_cases:
            Xf = X.astype(float)
            nx = max(np.linalg.norm(Xf), 1.0)
            N = X.ndim
            for svd_m in ("truncated_svd", "symeig_svd"):
                tol = 1e-8 if svd_m == "truncated_svd" else 1e-5
                for extra in (0, 3):
                    n_eval += 3
                    try:
                        t = tucker(X, [s + extra for s in X.shape], svd=svd_m, n_iter_max=20, tol=1e-12)
                        e1 = np.linalg.norm(Xf - tucker_to_tensor(t)) / nx
                    except Exception as e:  # noqa
                        e1 = f"{type(e).__name__}: {e}"
                    try:
                        tt = tensor_train(X, [1] + [int(np.prod(X.shape)) + extra] * (N - 1) + [1], svd=svd_m)
                        e2 = np.linalg.norm(Xf - tt_to_tensor(tt)) / nx
                    except Exception as e:  # noqa
                        e2 = f"{type(e).__name__}: {e}"
                    for nm, e_ in (("tucker", e1), ("tensor_train", e2)):
                        if isinstance(e_, str) or not (e_ <= tol):
                            fails.append(f"{nm} {kind} svd={svd_m} ranks beyond the sizes (+{extra}): not exact ({e_})")
                if N >= 3:
                    for mode in range(N):
                        # exact TR ranks: r0 = 1, then the sequential unfolding sizes
                        order = list(range(mode, N)) + list(range(mode))
                        shp = [X.shape[o] for o in order]
                        rk = [1]
                        for k_ in range(N - 1):
                            rk.append(min(rk[-1] * shp[k_], int(np.prod(shp[k_ + 1:]))))
                        rk = rk + [1]
                        ring = [None] * (N + 1)
                        for j, o in enumerate(order):
                            ring[o] = rk[j]
                        ring[N] = ring[0]
                        n_eval += 1
                        try:
                            tr = tensor_ring(X, ring, mode=mode, svd=svd_m)
                            e3 = np.linalg.norm(Xf - tr_to_tensor(tr)) / nx
                        except Exception as e:  # noqa
                            e3 = f"{type(e).__name__}: {e}"
                        if isinstance(e3, str) or not (e3 <= tol):
                            fails.append(f"tensor_ring {kind} svd={svd_m} mode={mode} ranks {ring}: not exact ({e3})")
            if N == 4 or N == 2:
                Xm = X if N == 4 else X.reshape(2, 3, 2, 3) if X.size == 36 else None
                if Xm is not None:
                    n_eval += 1
                    ttm = tensor_train_matrix(Xm, [1, Xm.size, 1])
                    e4 = np.linalg.norm(Xm.astype(float) - tt_matrix_to_tensor(ttm)) / nx
                    if not (e4 <= 1e-8):
                        fails.append(f"tensor_train_matrix {kind}: not exact ({e4})")
        return n_eval, fails
    obs.append(BoundedOb(f"{PID}/bounded/quasi-optimality bounds and Tucker exactness on native inputs", "tensorly.decomposition:tucker+tensor_train", bounded,
                         dict(orders="2-4", kinds="generic/integer-valued/integer-dtype/low-rank/rank-deficient", ranks="1..max+1 and beyond the sizes", methods="truncated_svd / symeig_svd"), "orders 2-4, 4 tensor kinds per shape (bounds) + 6 exactness cases x 2 exact SVD methods for Tucker, TT, TR (every mode), TT-matrix, all uniform ranks from 1 past the sizes, seed 0"))
    _BOb = BoundedOb
    from . import e2e_native as _e2e
    obs.append(_BOb(f"{PID}/bounded/native survey of secondary entry points: PARAFAC2 variants, TR-ALS, constrained / randomised CP, masks, sparse component, normalisation exits, CMTF, TT-matrix",
                    "tensorly.decomposition:parafac2+tensor_ring_als+constrained_parafac+randomised_parafac+parafac+non_negative_tucker+non_negative_tucker_hals+coupled_matrix_tensor_3d_factorization+tensor_train_matrix",
                    lambda: _e2e.extras(tier, PID), dict(entry_points=9, clauses="those of this property"), "seed 0; tolerances 1e-6 (errors), 1e-8 (structure); one shared run per process, failures filtered by property", pid=PID))
    from . import wrappers as _W
    obs.extend(_W.obligations(PID, select=("Tucker", "TensorTrain", "TensorTrainMatrix", "TensorRing"), only=("rank", "mode", "svd", "init", "fixed_factors")))
    return obs


def canaries(tier):
    import tensorly.decomposition._tt as _tt
    def setup(S):
        n = dims(3)
        return dict(_S=S, X=S.input("X", n), n=n, rk=[1, atom("r1"), atom("r2"), 1])
    def call(I):
        # WITHOUT the exactness hypothesis the reconstruction must not be provable
        with stubbed(_tt, svd_interface=make_svd_stub(I["_S"], None, exact=False)):
            return list(_tt.tensor_train(I["X"], list(I["rk"])).factors)
    return [GOb(PID, f"{PID}/canary/tt-exact-without-hypothesis", "tensorly.decomposition._tt:tensor_train", setup, call,
                lambda S, I, r: [("must fail", SP.tt_to_tensor(S, r), I["X"])] if S.name == "sym" else [("must fail", 0, 1)], tenalg="core", instance={}, clause="canary",
                assumptions=lambda I: [I["rk"][1] <= I["n"][0], I["rk"][1] <= I["n"][1] * I["n"][2], I["rk"][2] <= I["rk"][1] * I["n"][1], I["rk"][2] <= I["n"][2]])]
