"""C19  Tensor regressors predict with exactly the weights they expose.

E1-generic: predictions ≡ contraction of each sample with the exposed weight tensor (arbitrary symbolic weights, so
multi-output shapes are covered); fit suffix (loop cut, solver results havoc'd): weight_tensor_ ≡ to_tensor(exposed factors),
vec_W_ ≡ vec(weight_tensor_) at every loop exit; CP_PLSR: transform(X_train) ≡ fitted scores, unit-norm loadings,
invariance of the centred data (hence of everything downstream) under constant shifts of X and Y.
"""
from ..oblig import GOb
from ..symint import atom, EngineError
from ..loopcut import LoopCut
from ..iterative import stubbed
from .. import specs as SP
from .. import gtensor as G

PID = "C19"
LEVEL = "proof"
TRUSTED_BASE = [
    "numpy primitive contracts (vt.primcheck each run)",
    "solve results havoc'd in the fit obligations (the exposed-weights identities must hold whatever the solver returns)",
    "CPython; shadows; mechanical loop extraction",
    "the VC generator (canaries + soundness monitor)",
]
ASSUMPTIONS = [
    "floats treated as reals (A1)",
    "X order enumerated (3..4; order-2 X makes both regressors raise in fit — observed, outside the property's conclusion), PLS components enumerated (1..2) with one inner iteration whose result is arbitrary (initialize_cp stubbed by an arbitrary rank-1 CP tensor)",
    "unit-norm clause of PLSR loadings proved under the side condition that the normalised vector is non-zero (cleared-denominator form)",
    "sample-permutation equivariance of CP_PLSR is not covered by an obligation",
]
QUANTIFICATION = "forall sample counts, mode sizes, ranks, weight tensors / factors, data; enumerated: X order, target kind, #components"
EXPLANATION = "Predictions, exposed weight tensors and PLS scores are compared in canonical form with the defining contractions."


def dims(N, p="n"):
    return [atom(f"{p}{k}") for k in range(N)]


def obligations(tier):
    import tensorly.regression.cp_regression as cpr
    import tensorly.regression.tucker_regression as tkr
    import tensorly.regression.cp_plsr as pls
    from tensorly.cp_tensor import CPTensor

    maxN = 3 if tier == "quick" else 4
    obs = []
    R = atom("R")
    ns_ = atom("ns")

    def add(fn, tag, setup, call, post, instance, clause, **kw):
        obs.append(GOb(PID, f"{PID}/{fn}/{clause}[{tag}]", f"tensorly.regression.{fn}", setup, call, post, tenalg="core", instance=instance, clause=clause,
                       forall=["sample count", "mode sizes", "ranks", "weights", "data"], enumerated=list(instance), **kw))

    # ---------------------------------------------------------------------- predict ≡ <X_s, W>
    for N in range(1, maxN + 1):
        for ny in (0, 1, 2):
            def setup(S, N=N, ny=ny):
                n, m = dims(N), dims(ny, "m")
                return dict(_S=S, X=S.input("X", [ns_] + n), Wt=S.input("Wt", n + m))
            def call(I):
                est = cpr.CPRegressor(weight_rank=1)
                est.weight_tensor_ = I["Wt"]
                return est.predict(I["X"])
            def post(S, I, r, N=N, ny=ny):
                lx, ly = SP.letters(N, 1), SP.letters(ny, 1 + N)
                return [("prediction", r, S.einsum(f"a{lx},{lx}{ly}->a{ly}", I["X"], I["Wt"]))]
            add("cp_regression:CPRegressor.predict", f"X-order={N + 1},target-modes={ny}", setup, call, post, dict(x_order=N + 1, target_modes=ny),
                "prediction ≡ contraction of each sample with weight_tensor_")
        def setup_t(S, N=N):
            n = dims(N)
            return dict(_S=S, X=S.input("X", [ns_] + n), vW=S.input("vW", [n]))
        def call_t(I):
            est = tkr.TuckerRegressor(weight_ranks=[1])
            est.vec_W_ = I["vW"]
            return est.predict(I["X"])
        add("tucker_regression:TuckerRegressor.predict", f"X-order={N + 1}", setup_t, call_t,
            lambda S, I, r, N=N: [("prediction", r, S.einsum("az,z->a", S.group(I["X"], [[0], list(range(1, N + 1))]), I["vW"]))], dict(x_order=N + 1),
            "prediction ≡ vec(X_s)·vec_W_")
    # ---------------------------------------------------------------------- fit: exposed attributes agree (every loop exit)
    def run_fit(cls, est, I, init_state, it):
        cut = LoopCut(cls.fit)
        st = cut.prefix(est, I["X"], I["y"])
        st.update(init_state)
        kind, st2 = cut.body(st, it)
        if kind == "return":
            raise EngineError("fit returned inside the loop")
        cut.suffix(st2)
        return est, kind
    for N in range(2, maxN + 1):
        for vec in (False, True):
            def setup(S, N=N, vec=vec):
                n = dims(N)
                d = dict(_S=S, X=S.input("X", [ns_] + n), W=[S.input(f"W{k}", [n[k], R]) for k in range(N)])
                if vec:
                    m = atom("m")
                    d["y"] = S.input("y", [ns_, m])
                    d["W"].append(S.input("Wy", [m, R]))
                else:
                    d["y"] = S.input("y", [ns_])
                return d
            def call(I, tol_kw={}):
                S = I["_S"]
                est = cpr.CPRegressor(weight_rank=R if S.name == "sym" else I["W"][0].shape[1], verbose=0, **tol_kw)
                nw = [G.opaque_tensor("NW", []), G.opaque_tensor("NW", [])] if S.name == "sym" else [1.0, 2.0]
                est, kind = run_fit(cpr.CPRegressor, est, I, dict(W=list(I["W"]), norm_W=nw), 3)
                return dict(wt=est.weight_tensor_, cp=est.cp_weight_, vec=est.vec_W_, kind=kind, pred=est.predict(I["X"]))
            def post(S, I, r, N=N, vec=vec):
                w, fs = r["cp"]
                dense = SP.cp_to_tensor(S, w, fs)
                ntot = N + (1 if vec else 0)
                lx = SP.letters(N, 1)
                out = [(f"[{r['kind']}] weight_tensor_ ≡ cp_to_tensor(cp_weight_)", r["wt"], dense),
                       (f"[{r['kind']}] vec_W_ ≡ vec(weight_tensor_)", r["vec"], S.group(dense, [list(range(ntot))])),
                       (f"[{r['kind']}] predict(X) ≡ <X_s, reconstruction of the exposed factors>", r["pred"],
                        S.einsum(f"a{lx},{lx}{'o' if vec else ''}->a{'o' if vec else ''}", I["X"], dense))]
                return out
            add("cp_regression:CPRegressor.fit", f"X-order={N + 1},{'vector' if vec else 'scalar'} target", setup, call, post, dict(x_order=N + 1, target="vector" if vec else "scalar"),
                "exposed weight tensor ≡ reconstruction of exposed factors ≡ what predict uses (all loop exits)")
            # tol = 0 means 'run exactly n_iter_max sweeps': the convergence bookkeeping may be skipped, the exposed weights must still be those of the last sweep
            add("cp_regression:CPRegressor.fit", f"X-order={N + 1},{'vector' if vec else 'scalar'} target,tol=0", setup, lambda I, call=call: call(I, dict(tol=0)), post,
                dict(x_order=N + 1, target="vector" if vec else "scalar", tol=0), "exposed weight tensor ≡ reconstruction of exposed factors ≡ what predict uses (all loop exits)")
        def setup_t(S, N=N):
            n, r = dims(N), dims(N, "r")
            return dict(_S=S, X=S.input("X", [ns_] + n), y=S.input("y", [ns_]), W=[S.input(f"W{k}", [n[k], r[k]]) for k in range(N)], Gc=S.input("Gc", r), r=r)
        def call_t(I, tol_kw={}):
            S = I["_S"]
            ranks = list(I["r"]) if S.name == "sym" else [w.shape[1] for w in I["W"]]
            est = tkr.TuckerRegressor(weight_ranks=ranks, verbose=0, **tol_kw)
            nw = [G.opaque_tensor("NW", []), G.opaque_tensor("NW", [])] if S.name == "sym" else [1.0, 2.0]
            est, kind = run_fit(tkr.TuckerRegressor, est, I, dict(W=list(I["W"]), G=I["Gc"], norm_W=nw), 3)
            return dict(wt=est.weight_tensor_, tk=est.tucker_weight_, vec=est.vec_W_, kind=kind, pred=est.predict(I["X"]))
        def post_t(S, I, r, N=N):
            core, fs = r["tk"]
            dense = SP.tucker_to_tensor(S, core, fs)
            lx = SP.letters(N, 1)
            return [(f"[{r['kind']}] weight_tensor_ ≡ tucker_to_tensor(tucker_weight_)", r["wt"], dense),
                    (f"[{r['kind']}] vec_W_ ≡ vec(weight_tensor_)", r["vec"], S.group(dense, [list(range(N))])),
                    (f"[{r['kind']}] predict(X) ≡ <X_s, reconstruction of the exposed factors>", r["pred"], S.einsum(f"a{lx},{lx}->a", I["X"], dense))]
        add("tucker_regression:TuckerRegressor.fit", f"X-order={N + 1}", setup_t, call_t, post_t, dict(x_order=N + 1),
            "exposed weight tensor ≡ reconstruction of exposed factors ≡ what predict uses (all loop exits)")
        add("tucker_regression:TuckerRegressor.fit", f"X-order={N + 1},tol=0", setup_t, lambda I, call_t=call_t: call_t(I, dict(tol=0)), post_t, dict(x_order=N + 1, tol=0),
            "exposed weight tensor ≡ reconstruction of exposed factors ≡ what predict uses (all loop exits)")
    # ---------------------------------------------------------------------- CP_PLSR
    for N in (1, 2) + ((3,) if tier == "thorough" else ()):
        for ncomp in (1, 2):
            if (N, ncomp) != (1, 1) and tier == "quick":
                # larger instances are discharged in the thorough tier only (canonicalisation of the nested normalisations is slow)
                pass
            def setup(S, N=N):
                n = dims(N)
                m = atom("m")
                return dict(_S=S, X=S.input("X", [ns_] + n), Y=S.input("Y", [ns_, m]), n=n,
                            Z0=[S.input(f"z{c}_{k}", [n[k], 1]) for c in range(2) for k in range(N)])
            def fit(I, ncomp=ncomp, N=N, X=None, Y=None):
                S = I["_S"]
                est = pls.CP_PLSR(n_components=ncomp, n_iter_max=1, verbose=False)
                cnt = [0]
                def init_stub(Z, rank, **kw):
                    c = cnt[0]
                    cnt[0] += 1
                    return CPTensor((None, list(I["Z0"][c * N:(c + 1) * N])))
                with stubbed(pls, initialize_cp=init_stub):
                    est.fit(I["X"] if X is None else X, I["Y"] if Y is None else Y)
                return est
            def call(I, fit=fit):
                est = fit(I)
                return dict(scores=est.X_factors[0], transformed=est.transform(I["X"]), loadings=list(est.X_factors[1:]), yload=est.Y_factors[1])
            def post(S, I, r, ncomp=ncomp):
                out = [("transform(X_train) ≡ fitted scores X_factors[0]", r["transformed"], r["scores"])]
                for k, L in enumerate(r["loadings"]):  # (the Y-loading norm involves nested normalisations the rewriting does not close: not claimed)
                    g, w = S.cleared(S.einsum("ic,ic->c", L, L), S.ones([ncomp]))
                    out.append((f"loading {k}: unit norm per component (denominators cleared)", g, w))
                return out
            if (N, ncomp) == (1, 1):  # (larger instances exceed the canonicaliser's labelling budget - nested normalisations; they are exercised natively by the regressors' tests and the C15 / C18 surveys)
                o_ = GOb(PID, f"{PID}/cp_plsr:CP_PLSR.transform/transform(training X) ≡ fitted scores[X-order={N + 1},components={ncomp}]", "tensorly.regression.cp_plsr:CP_PLSR.transform",
                         setup, call, post, tenalg="core", instance=dict(x_order=N + 1, components=ncomp), clause="transform(training X) ≡ fitted scores",
                         forall=["sample count", "mode sizes", "data", "loadings of the inner iteration"], enumerated=["x_order", "components"], side_nonzero=True,
                         assumptions=lambda I: [ns_ >= 4])
                o_.timeout_s = 900
                obs.append(o_)
            # shift invariance of the centred data: fit(X + C, Y + c) and fit(X, Y) see the same centred tensors
            def setup_s(S, N=N):
                n = dims(N)
                m = atom("m")
                return dict(_S=S, X=S.input("X", [ns_] + n), Y=S.input("Y", [ns_, m]), Cx=S.input("Cx", n), cy=S.input("cy", [m]))
            def call_s(I, ncomp=ncomp):
                cut = LoopCut(pls.CP_PLSR.fit)
                est1 = pls.CP_PLSR(n_components=ncomp, n_iter_max=1, verbose=False)
                est2 = pls.CP_PLSR(n_components=ncomp, n_iter_max=1, verbose=False)
                st1 = cut.prefix(est1, I["X"], I["Y"])
                st2 = cut.prefix(est2, I["X"] + I["Cx"], I["Y"] + I["cy"])
                return dict(X1=st1["X"], Y1=st1["Y"], X2=st2["X"], Y2=st2["Y"], mx1=est1.X_mean_, mx2=est2.X_mean_, my1=est1.Y_mean_, my2=est2.Y_mean_)
            def post_s(S, I, r):
                return [("centred X unchanged by adding a constant tensor to every sample", r["X2"], r["X1"]),
                        ("centred Y unchanged by adding a constant to Y", r["Y2"], r["Y1"]),
                        ("X offset moves with the shift", r["mx2"], r["mx1"] + I["Cx"]),
                        ("Y offset moves with the shift", r["my2"], r["my1"] + I["cy"])]
            if ncomp == 1:
                add("cp_plsr:CP_PLSR.fit", f"X-order={N + 1}", setup_s, call_s, post_s, dict(x_order=N + 1),
                    "centred data (hence loadings and predictions-minus-offset) invariant under constant shifts")
    # ====================================================================== 'transform(X, Y) of the training data returns the fitted scores' holds for the SECOND call too only
    # if the first one leaves the caller's arrays alone (transform centres and deflates Y in place - on its own copy): the frame obligation of C15 on
    # CP_PLSR.fit / transform(X, Y) / predict is discharged here too (a GOb subclass, so that the effect properties do not wrap it a second time)
    from . import c15 as _c15
    class _FrameGOb(GOb):
        pass
    for ob in _c15.decomposition_obligations(tier):
        if "regression.cp_plsr:CP_PLSR/" in ob.name and type(ob) is GOb:
            o_ = _FrameGOb(PID, f"{PID}/" + ob.name.split("/", 1)[1], ob.function, ob.setup, ob.call, ob.post, tenalg=ob.tenalg, assumptions=ob.assumptions, side_nonzero=ob.side_nonzero,
                           instance=dict(ob.instance, source="C15"), clause=ob.clause, forall=list(ob.forall), enumerated=list(ob.enumerated))
            o_.backend_label = "write-log over the alias model + container identity (all paths)"
            obs.append(o_)
    # ====================================================================== bounded stand-in (never counted as proved): end-to-end native survey, including the
    # clauses no obligation above reaches (unit norm of the Y loadings, equivariance under a permutation of the samples, several PLS components)
    from .c09 import BoundedOb
    from . import e2e_native
    obs.append(BoundedOb(f"{PID}/bounded/native survey: fitted regressors predict with the weights they expose; PLS invariances and sample-permutation equivariance", "tensorly.regression:CPRegressor+TuckerRegressor+CP_PLSR",
                         lambda: e2e_native.c19(tier), dict(x_orders="2-4", targets="scalar, vector", components="1-3", samples="6-12"),
                         "seed 0; tolerances 1e-8 (weights, predictions) / 1e-6 (shift and permutation relations); cap and convergence exits", pid=PID))
    return obs


def canaries(tier):
    import tensorly.regression.cp_regression as cpr
    ns_ = atom("ns")
    def setup(S):
        n = dims(2)
        return dict(X=S.input("X", [ns_] + n), Wt=S.input("Wt", n))
    def call(I):
        est = cpr.CPRegressor(weight_rank=1)
        est.weight_tensor_ = I["Wt"]
        return est.predict(I["X"])
    return [GOb(PID, f"{PID}/canary/predict-with-transposed-weights", "tensorly.regression.cp_regression:CPRegressor.predict", setup, call,
                lambda S, I, r: [("prediction", r, S.einsum("abc,cb->a", I["X"], I["Wt"]))], tenalg="core", instance={}, clause="canary")]
