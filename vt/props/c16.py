"""C16  Seeded calls are reproducible and independent of global RNG state.

Effect proof.  While the REAL function runs on the symbolic backend, `np.random` of every tensorly module - including
tensorly.backend.core, so the real check_random_state is executed - is a tracked model: RandomState is a tracked class,
np.random.mtrand._rand a tracked *global* instance, module-level np.random.* functions are draws on that global instance.
Every construction, draw, reseed and state access is logged with the generator it happened on.  For random_state an int and
for random_state a caller-supplied generator, on every path and for all sizes / values:

  (1) nothing happens on the global generator (no draw, no seed(), no set_state) - this is also "an integer seed leaves the
      global random state untouched";
  (2) every generator the code constructs is RandomState(<the random_state argument>), and every draw is made on such a
      generator or on the supplied one; a draw's shape depends on the arguments only.

Determinism then follows because the code is a function of its arguments and of the draws (static scan for other sources of
nondeterminism below).  Callers are checked against callee contracts: each decomposition is proved to hand its random_state
argument (or the generator derived from it) to its initialiser unchanged and to make no other draw in prefix, sweep and exits.
A refutation is replayed natively: two calls with the same seed with the global state changed in between must agree bit for
bit, and numpy.random.get_state() must be unchanged by a call with an integer seed.
"""
import copy
import importlib
import time

import numpy as np

from ..oblig import GOb, Obligation, Verdict, PROVED, REFUTED, _native_backend, NumNS, concretize_args
from ..symint import atom, EngineError, sprod
from ..loopcut import LoopCut
from ..iterative import stubbed, make_svd_stub
from .. import gtensor as G
from .. import gbackend as B

PID = "C16"
LEVEL = "proof"
TRUSTED_BASE = [
    "model of numpy.random: RandomState(seed) is a deterministic function of seed and of the sequence of calls made on it; np.random.mtrand._rand is the generator behind the module-level np.random.* functions",
    "CPython evaluates the code deterministically given its arguments and the values drawn (no other source of nondeterminism: static scan for time / os.urandom / uuid / secrets / hash-ordered iteration in the modules under proof, reported in the evidence)",
    "dependencies (LAPACK through numpy, scipy.optimize.linear_sum_assignment) are deterministic functions of their arguments",
    "numpy primitive contracts; loop extraction; the VC generator",
]
ASSUMPTIONS = [
    "sweeps are taken from an arbitrary iterate (loop cut): 'no draw in a sweep' holds for every iteration",
    "tensor_train_cross, the TR-ALS-sampled sweep and CP_PLSR are outside the symbolic engine (argmax / maxvol, leverage-score sampling arithmetic): covered by the bounded native stand-in only",
]
QUANTIFICATION = "forall mode sizes, ranks, data values, paths; random_state an arbitrary int or an arbitrary caller-supplied generator; enumerated: entry point, options"
EXPLANATION = "Effect log of tracked generators: no event on the global generator, every constructed generator is RandomState(random_state), every draw on a derived generator."

SEED = 1234


def dims(N, p="n"):
    return [atom(f"{p}{k}") for k in range(N)]


def describe(e):
    g = e["gen"]
    return f"{e['ev']}({e.get('kind', '')}{e.get('seed', '') if e['ev'] in ('new', 'seed') else ''}) on the {g.role} generator"


def nat_leaves(x, out=None, seen=None, depth=0):
    out = out if out is not None else []
    seen = seen if seen is not None else set()
    if x is None or isinstance(x, (str, bytes)) or depth > 8:
        return out
    if isinstance(x, (bool, int, float, complex, np.ndarray, np.generic)):
        out.append(np.asarray(x))
        return out
    if isinstance(x, np.random.RandomState) or id(x) in seen:
        return out
    seen.add(id(x))
    if isinstance(x, dict):
        for k in sorted(x, key=str):
            if not (isinstance(k, str) and k.startswith("_")):
                nat_leaves(x[k], out, seen, depth + 1)
    elif isinstance(x, (list, tuple)):
        for v in x:
            nat_leaves(v, out, seen, depth + 1)
    elif hasattr(x, "__dict__") and type(x).__module__.startswith("tensorly"):
        for k in sorted(vars(x)):
            if not k.startswith("__"):
                nat_leaves(vars(x)[k], out, seen, depth + 1)
    return out


class RngOb(GOb):
    backend_label = "effect-log (tracked generators, all paths)"
    """user_call(I, random_state) runs the REAL function; kind: 'int' | 'generator'; draws: 'some' | 'none' | 'any'"""

    def __init__(self, name, function, setup, user_call, kind, draws, instance, clause, extra_post=None, **kw):
        self.user_call, self.kind, self.draws_expected, self.extra_post = user_call, kind, draws, extra_post

        def call(I):
            S = I["_S"]
            if S.name == "sym":
                with B.rng_tracking() as log:
                    rs = SEED if kind == "int" else B.SymRng(_role="user")
                    res = user_call(I, rs)
                    return dict(res=res, log=list(log), rs=rs)
            rs = SEED if kind == "int" else np.random.RandomState(SEED)
            return dict(res=user_call(I, rs), log=None, rs=rs)

        def post(S, I, r):
            if r["log"] is None:
                return []
            log, rs = r["log"], r["rs"]
            glob = [e for e in log if e["gen"].role == "global"]
            out = [("nothing happens on the global generator" + (": " + "; ".join(describe(e) for e in glob[:3]) if glob else ""), int(not glob), 1)]
            bad_new = [e for e in log if e["ev"] == "new" and not (kind == "int" and (e["seed"] is rs or (isinstance(e["seed"], int) and e["seed"] == rs)))]
            out.append(("every generator constructed by the code is RandomState(random_state)" + (": " + "; ".join(f"RandomState({e['seed']!r})" for e in bad_new[:3]) if bad_new else ""), int(not bad_new), 1))
            ok_gens = {id(e["gen"]) for e in log if e["ev"] == "new" and e not in bad_new}
            if kind == "generator":
                ok_gens.add(id(rs))
            bad_draw = [e for e in log if e["ev"] == "draw" and id(e["gen"]) not in ok_gens]
            out.append(("every draw is made on a generator derived from random_state" + (": " + "; ".join(describe(e) for e in bad_draw[:3]) if bad_draw else ""), int(not bad_draw), 1))
            reseed = [e for e in log if e["ev"] in ("seed", "set_state") and e["gen"].role != "global"]
            out.append(("no generator is reseeded", int(not reseed), 1))
            n = sum(1 for e in log if e["ev"] == "draw")
            if self.draws_expected == "some":
                out.append((f"the call draws from its generator ({n} draws; non-vacuity)", int(n >= 1), 1))
            elif self.draws_expected == "none":
                out.append((f"a call without random choices makes no draw ({n} draws)", int(n == 0), 1))
            if extra_post:
                out += extra_post(S, I, r)
            return out

        super().__init__(PID, name, function, setup, call, post, tenalg="core", instance=dict(instance, random_state=kind), clause=clause,
                         forall=["mode sizes", "ranks", "data", "paths", "the seed / the supplied generator"], enumerated=list(instance) + ["random_state kind"], **kw)

    # native replay of a refutation: reproducibility under a perturbed global state, and an untouched global state
    def native(self, env, seed):
        with _native_backend(self.tenalg):
            G.reset_execution()
            S = NumNS(env, np.random.RandomState(seed))
            I = concretize_args(self.setup(S), env)
            def rs():
                return SEED if self.kind == "int" else np.random.RandomState(SEED)
            np.random.seed(111 + seed)
            st0 = np.random.get_state()
            try:
                r1 = self.user_call(copy.deepcopy(I), rs())
            except Exception as e:  # noqa
                return False, f"exception {type(e).__name__}: {e}"
            st1 = np.random.get_state()
            np.random.seed(222 + seed)
            np.random.random_sample(7)
            r2 = self.user_call(copy.deepcopy(I), rs())
            same_state = st0[0] == st1[0] and np.array_equal(st0[1], st1[1]) and st0[2:] == st1[2:]
            if not same_state:
                return False, "the call changed numpy's global random state"
            a, b = nat_leaves(r1), nat_leaves(r2)
            if len(a) != len(b):
                return False, "two calls with the same random_state return differently shaped results"
            for x, y in zip(a, b):
                if x.shape != y.shape or x.dtype != y.dtype or not np.array_equal(x, y, equal_nan=True):
                    return False, "two calls with the same random_state and a different global random state return different results"
            return True, ""

    def _monitor(self, path):
        env = (self._envs(path, 1) or [None])[0]
        if env is None:
            return True, "monitor skipped: no concrete instance"
        try:
            ok, info = self.native(env, 0)
        except EngineError as e:
            return True, f"monitor skipped: {e}"
        if not ok and info.startswith("exception"):
            return True, f"monitor skipped: the native instance at {env} raises ({info[:80]})"
        return (True, f"native reproducibility confirmed at {env}") if ok else (False, f"effect proof passed but the native run is not reproducible at {env}: {info}")


def obligations(tier):
    import tensorly as tl
    import tensorly.random.base as rb
    import tensorly.decomposition._cp as _cp
    import tensorly.decomposition._nn_cp as _nn
    import tensorly.decomposition._constrained_cp as _cc
    import tensorly.decomposition._tucker as _tk
    import tensorly.decomposition._parafac2 as _p2
    import tensorly.decomposition._tr_als as _tra
    import tensorly.tenalg.svd as _svd
    from tensorly.cp_tensor import CPTensor

    obs = []
    R = atom("R")
    maxN = 3 if tier == "quick" else 4

    def add(fn, tag, setup, user_call, draws, instance, clause, kinds=("int", "generator"), **kw):
        for kind in kinds:
            obs.append(RngOb(f"{PID}/{fn}/{clause}[{tag},random_state={kind}]", f"tensorly.{fn}", setup, user_call, kind, draws, instance, clause, **kw))

    def novalidate(*mods):
        """rank validators by contract (int ranks pass through; their rounding logic draws nothing)"""
        import contextlib
        @contextlib.contextmanager
        def cm():
            with contextlib.ExitStack() as st:
                for m in mods:
                    names = {k: (lambda shape=None, rank=None, *a, **k2: rank) for k in vars(m) if k.startswith("validate_") and k.endswith("_rank")}
                    st.enter_context(stubbed(m, **names))
                yield
        return cm()

    # ====================================================================== the generator front door
    def crs_setup(S):
        return dict(_S=S)
    add("backend.core:Backend.check_random_state", "int / generator", crs_setup, lambda I, rs: (tl.check_random_state(rs), None)[1], "none", {}, "returns RandomState(seed) for an int, the generator itself otherwise; touches nothing",
        extra_post=None)
    # ====================================================================== random tensor generators
    def shp_setup(N):
        def setup(S):
            return dict(_S=S, n=dims(N), r=dims(N, "r"), R=R)
        return setup
    def conc(I, key):
        return [int(x) if not hasattr(x, "z3") else x for x in I[key]]
    for N in range(2, maxN + 1):
        CL = "draws only from the generator derived from random_state"
        add("random.base:random_tensor", f"N={N}", shp_setup(N), lambda I, rs: rb.random_tensor(tuple(I["n"]), random_state=rs), "some", dict(order=N), CL)
        for opts in (dict(), dict(full=True), dict(orthogonal=True), dict(normalise_factors=False)):
            tag = ",".join(f"{k}={v}" for k, v in opts.items()) or "plain"
            def cp_call(I, rs, opts=opts):
                with novalidate(rb):
                    return rb.random_cp(tuple(I["n"]), I["R"], random_state=rs, **opts)
            add("random.base:random_cp", f"N={N},{tag}", shp_setup(N), cp_call, "some", dict(order=N, **opts), CL, side_nonzero=True,
                assumptions=lambda I: [I["R"] <= n for n in I["n"]])
            if "normalise_factors" in opts:
                continue
            def tk_call(I, rs, opts=opts, N=N):
                with novalidate(rb):
                    return rb.random_tucker(tuple(I["n"]), list(I["r"]), random_state=rs, **opts)
            add("random.base:random_tucker", f"N={N},{tag}", shp_setup(N), tk_call, "some", dict(order=N, **opts), CL,
                assumptions=lambda I: [r <= n for r, n in zip(I["r"], I["n"])])
        for full in (False, True):
            def tt_call(I, rs, full=full, N=N):
                rk = [1] + list(I["r"][1:]) + [1]
                with novalidate(rb):
                    return rb.random_tt(tuple(I["n"]), rk, full=full, random_state=rs)
            add("random.base:random_tt", f"N={N},full={full}", shp_setup(N), tt_call, "some", dict(order=N, full=full), CL)
            def tr_call(I, rs, full=full, N=N):
                rk = (list(I["r"]))
                rk = rk + [rk[0]]
                with novalidate(rb):
                    return rb.random_tr(tuple(I["n"]), rk, full=full, random_state=rs)
            add("random.base:random_tr", f"N={N},full={full}", shp_setup(N), tr_call, "some", dict(order=N, full=full), CL)
    for full in (False, True):
        def ttm_call(I, rs, full=full):
            n = I["n"]
            with novalidate(rb):
                return rb.random_tt_matrix((n[0], n[1], n[0], n[1]), [1, I["r"][0], 1], full=full, random_state=rs)
        add("random.base:random_tt_matrix", f"2 cores,full={full}", shp_setup(2), ttm_call, "some", dict(full=full), "draws only from the generator derived from random_state")
        for norm in (False, True):
            def p2_call(I, rs, full=full, norm=norm):
                n = I["n"]
                if I["_S"].name != "sym":
                    return rb.random_parafac2([(n[0], n[2]), (n[1], n[2])], I["R"], full=full, random_state=rs, normalise_factors=norm)
                import tensorly.parafac2_tensor as p2t
                from .c03 import _noval
                with novalidate(rb):  # the PARAFAC2 validator by contract (its body is proved in C03): the projections are Q factors
                    return _noval(p2t, lambda: rb.random_parafac2([(n[0], n[2]), (n[1], n[2])], R, full=full, random_state=rs, normalise_factors=norm))
            add("random.base:random_parafac2", f"2 slices,full={full},normalise_factors={norm}", shp_setup(3), p2_call, "some", dict(full=full, normalise_factors=norm),
                "draws only from the generator derived from random_state", side_nonzero=True,
                assumptions=lambda I: [I["R"] <= n for n in I["n"]])
    # ====================================================================== backend-level draws
    add("backend.core:Backend.randn", "order 2", shp_setup(2), lambda I, rs: tl.randn(tuple(I["n"]), seed=rs), "some", {}, "draws only from the generator derived from random_state")
    # ====================================================================== randomized SVD
    def mat_setup(S):
        n = dims(2)
        return dict(_S=S, n=n, M=S.input("M", n), k=atom("k"))
    def svd_pre(I):
        return [I["k"] <= I["n"][0], I["k"] <= I["n"][1]]
    add("tenalg.svd:randomized_range_finder", "n_iter=2", mat_setup, lambda I, rs: _svd.randomized_range_finder(I["M"], n_dims=I["k"], n_iter=2, random_state=rs), "some", {},
        "draws only from the generator derived from random_state", assumptions=svd_pre)
    real_tsvd = _svd.truncated_svd
    def tsvd_stub(S):
        def stub(matrix, n_eigenvecs=None, **kw):
            if S.name != "sym":
                return real_tsvd(matrix, n_eigenvecs=n_eigenvecs, **kw)
            k = n_eigenvecs
            return (G.opaque_tensor("SVDU", [matrix.shape[0], k], matrix.dtype), G.opaque_tensor("SVDS", [k], "float64"), G.opaque_tensor("SVDV", [k, matrix.shape[1]], matrix.dtype))
        return stub
    def rsvd_call(I, rs):
        with stubbed(_svd, truncated_svd=tsvd_stub(I["_S"])):
            return _svd.randomized_svd(I["M"], n_eigenvecs=I["k"], random_state=rs)
    def rsvd_pre(I):  # the branch where the sketch is a tall matrix (n_eigenvecs + oversampling within both sizes)
        return [I["k"] + 10 <= I["n"][0], I["k"] + 10 <= I["n"][1]]
    add("tenalg.svd:randomized_svd", "default oversampling", mat_setup, rsvd_call, "some", {}, "draws only from the generator derived from random_state", assumptions=rsvd_pre)
    for opts in (dict(flip_sign=False), dict(flip_sign=False, mask=True)):
        def si_call(I, rs, opts=opts):
            S = I["_S"]
            kw = dict(opts)
            if kw.pop("mask", None):
                kw.update(mask=I["mask"], n_iter_mask_imputation=2)
            with stubbed(_svd, truncated_svd=tsvd_stub(S)):
                return _svd.svd_interface(I["M"], n_eigenvecs=I["k"], method="randomized_svd", random_state=rs, **kw)
        def si_setup(S, opts=opts):
            d = mat_setup(S)
            d["mask"] = S.input("mask", d["n"])
            if opts.get("mask"):
                d["k"] = 2     # (the imputation loop builds diag(S) entry by entry in Python: number of components enumerated)
            return d
        # (sign resolution - svd_flip's argmax - is outside E1-generic and draws nothing: bounded stand-in; the imputation loop re-runs the method)
        add("tenalg.svd:svd_interface", "method=randomized_svd," + ",".join(f"{k}={v}" for k, v in opts.items()), si_setup, si_call, "some", dict(opts),
            "draws only from the generator derived from random_state", assumptions=rsvd_pre)
    # ====================================================================== initialisers
    def cp_setup(N):
        def setup(S):
            n = dims(N)
            return dict(_S=S, n=n, X=S.input("X", n), R=R, r=dims(N, "r"))
        return setup
    def rec_svd(S, rec):
        """svd_interface by contract; records how it was called"""
        inner = make_svd_stub(S, None)
        def stub(matrix, n_eigenvecs=None, **kw):
            rec.append(dict(kw))
            if S.name == "sym":
                kw.pop("random_state", None)
            return inner(matrix, n_eigenvecs=n_eigenvecs, **kw)
        return stub
    def svd_threading_post(S, I, r):
        """a randomized SVD method draws: the generator must reach svd_interface"""
        out = []
        for i, kw in enumerate(r["res"]["svd_calls"]):
            rs = r["rs"]
            got = kw.get("random_state", None)
            ok = got is rs or (isinstance(got, B.SymRng) and (got is rs or got.seed_value is rs or got.seed_value == rs))
            out.append((f"svd call {i}: the randomized method receives a generator derived from random_state (got {type(got).__name__})", int(bool(ok)), 1))
        out.append(("the SVD initialisation calls svd_interface", int(len(r["res"]["svd_calls"]) >= 1), 1))
        return out
    for N in range(2, maxN + 1):
        for nn in (False, True):
            def ic_call(I, rs, nn=nn):
                with novalidate(_cp):
                    kt = _cp.initialize_cp(I["X"], I["R"], init="random", non_negative=nn, random_state=rs)
                return (kt.weights, list(kt.factors))
            add("decomposition._cp:initialize_cp", f"N={N},init=random,non_negative={nn}", cp_setup(N), ic_call, "some", dict(order=N, init="random", non_negative=nn),
                "draws only from the generator derived from random_state", side_nonzero=True, assumptions=lambda I: [I["R"] <= n for n in I["n"]])
        def ic_svd(I, rs):
            rec = []
            with stubbed(_cp, svd_interface=rec_svd(I["_S"], rec)):
                kt = _cp.initialize_cp(I["X"], I["R"], init="svd", svd="randomized_svd", random_state=rs)
            return dict(kt=(kt.weights, list(kt.factors)), svd_calls=rec)
        add("decomposition._cp:initialize_cp", f"N={N},init=svd,svd=randomized_svd", cp_setup(N), ic_svd, "any", dict(order=N, init="svd", svd="randomized_svd"),
            "the generator reaches the randomized SVD", extra_post=svd_threading_post, assumptions=lambda I: [I["R"] <= n for n in I["n"]])
        def icc_call(I, rs):
            with novalidate(_cc):
                kt = _cc.initialize_constrained_parafac(I["X"], I["R"], init="random", random_state=rs, non_negative=True)
            return (kt.weights, list(kt.factors))
        add("decomposition._constrained_cp:initialize_constrained_parafac", f"N={N},init=random", cp_setup(N), icc_call, "some", dict(order=N, init="random"),
            "draws only from the generator derived from random_state", side_nonzero=True, assumptions=lambda I: [I["R"] <= n for n in I["n"]])
        def icc_svd(I, rs):
            rec = []
            with stubbed(_cc, svd_interface=rec_svd(I["_S"], rec)):
                kt = _cc.initialize_constrained_parafac(I["X"], I["R"], init="svd", svd="randomized_svd", random_state=rs, non_negative=True)
            return dict(kt=(kt.weights, list(kt.factors)), svd_calls=rec)
        add("decomposition._constrained_cp:initialize_constrained_parafac", f"N={N},init=svd,svd=randomized_svd", cp_setup(N), icc_svd, "any", dict(order=N, init="svd", svd="randomized_svd"),
            "the generator reaches the randomized SVD", extra_post=svd_threading_post, assumptions=lambda I: [I["R"] <= n for n in I["n"]])
        for nn in (False, True):
            def it_call(I, rs, nn=nn, N=N):
                return _tk.initialize_tucker(I["X"], list(I["r"]), list(range(N)), rs, init="random", non_negative=nn)
            add("decomposition._tucker:initialize_tucker", f"N={N},init=random,non_negative={nn}", cp_setup(N), it_call, "some", dict(order=N, init="random", non_negative=nn),
                "draws only from the generator derived from random_state", assumptions=lambda I: [r <= n for r, n in zip(I["r"], I["n"])])
        def it_svd(I, rs, N=N):
            rec = []
            with stubbed(_tk, svd_interface=rec_svd(I["_S"], rec)):
                out = _tk.initialize_tucker(I["X"], list(I["r"]), list(range(N)), rs, init="svd", svd="randomized_svd")
            return dict(out=out, svd_calls=rec)
        add("decomposition._tucker:initialize_tucker", f"N={N},init=svd,svd=randomized_svd", cp_setup(N), it_svd, "any", dict(order=N, init="svd", svd="randomized_svd"),
            "the generator reaches the randomized SVD", extra_post=svd_threading_post, assumptions=lambda I: [r <= n for r, n in zip(I["r"], I["n"])])
    # SVD initialisation with a rank exceeding the size of mode 0: the padding columns are drawn from the generator derived from random_state
    for N in range(2, maxN + 1):
        def pad_call(I, rs):
            S = I["_S"]
            inner = make_svd_stub(S, None)
            def stub(matrix, n_eigenvecs=None, **kw):
                if S.name == "sym" and bool(G.SInt.lift(matrix.shape[0]) < n_eigenvecs):
                    return inner(matrix, n_eigenvecs=matrix.shape[0], **kw)
                return inner(matrix, n_eigenvecs=n_eigenvecs, **kw)
            with stubbed(_cp, svd_interface=stub):
                kt = _cp.initialize_cp(I["X"], I["R"], init="svd", random_state=rs)
            return (kt.weights, list(kt.factors))
        add("decomposition._cp:initialize_cp", f"N={N},init=svd,rank > size of mode 0 (random padding)", cp_setup(N), pad_call, "some", dict(order=N, init="svd", rank="exceeds mode 0"),
            "draws only from the generator derived from random_state",
            assumptions=lambda I: [I["n"][0] < I["R"]] + [I["R"] <= nk for nk in I["n"][1:]] + [I["n"][0] <= sprod(I["n"][1:])])
    # regressors: the weights are initialised from the generator derived from the estimator's random_state; the fitting sweeps draw nothing
    import tensorly.regression.cp_regression as cpr
    import tensorly.regression.tucker_regression as tkr
    ns_ = atom("ns")
    for N in (2, 3):
        for target in ("scalar", "vector"):
            def rg_setup(S, N=N, target=target):
                n = dims(N)
                return dict(_S=S, n=n, X=S.input("X", [ns_] + n), y=S.input("y", [ns_] + ([atom("m")] if target == "vector" else [])), R=R, r=dims(N, "r"))
            def cp_fit(I, rs):
                est = cpr.CPRegressor(weight_rank=I["R"], random_state=rs, verbose=0, n_iter_max=3)
                cut = LoopCut(cpr.CPRegressor.fit)
                st = cut.prefix(est, I["X"], I["y"])
                kind, st2 = cut.body(st, 0)
                if kind != "return":
                    cut.suffix(st2)
                return None
            add("regression.cp_regression:CPRegressor.fit", f"X-order={N + 1},{target} target", rg_setup, cp_fit, "some", dict(x_order=N + 1, target=target),
                "the weights are drawn from the generator derived from random_state; the sweep draws nothing")
        def tk_fit(I, rs):
            est = tkr.TuckerRegressor(weight_ranks=list(I["r"]), random_state=rs, verbose=0, n_iter_max=3)
            cut = LoopCut(tkr.TuckerRegressor.fit)
            st = cut.prefix(est, I["X"], I["y"])
            kind, st2 = cut.body(st, 0)
            if kind != "return":
                cut.suffix(st2)
            return None
        add("regression.tucker_regression:TuckerRegressor.fit", f"X-order={N + 1}", lambda S, N=N: dict(_S=S, n=dims(N), X=S.input("X", [ns_] + dims(N)), y=S.input("y", [ns_]), R=R, r=dims(N, "r")), tk_fit, "some",
            dict(x_order=N + 1), "the weights are drawn from the generator derived from random_state; the sweep draws nothing")
    # PARAFAC2 initialiser
    for nI in (2, 3):
        def p2_setup(S, nI=nI):
            K = atom("K")
            return dict(_S=S, Xs=[S.input(f"X{i}", [atom(f"J{i}"), K]) for i in range(nI)], R=R, K=K)
        def p2_pre(I):
            return [I["R"] <= I["K"]] + [I["R"] <= x.shape[0] for x in I["Xs"]]
        def p2i_call(I, rs):
            import tensorly.parafac2_tensor as p2t
            from .c03 import _noval
            if I["_S"].name != "sym":
                return _p2.initialize_decomposition(list(I["Xs"]), I["R"], init="random", random_state=rs)
            with novalidate(rb):
                return _noval(p2t, lambda: _p2.initialize_decomposition(list(I["Xs"]), I["R"], init="random", random_state=rs))
        add("decomposition._parafac2:initialize_decomposition", f"slices={nI},init=random", p2_setup, p2i_call, "some", dict(n_slices=nI, init="random"),
            "draws only from the generator derived from random_state", assumptions=p2_pre)
        def p2i_svd(I, rs):
            import tensorly.parafac2_tensor as p2t
            from .c03 import _noval
            rec = []
            with stubbed(_p2, svd_interface=rec_svd(I["_S"], rec)):
                out = _noval(p2t, lambda: _p2.initialize_decomposition(list(I["Xs"]), I["R"], init="svd", svd="randomized_svd", random_state=rs)) if I["_S"].name == "sym" else \
                    _p2.initialize_decomposition(list(I["Xs"]), I["R"], init="svd", svd="randomized_svd", random_state=rs)
            return dict(out=out, svd_calls=rec)
        add("decomposition._parafac2:initialize_decomposition", f"slices={nI},init=svd,svd=randomized_svd", p2_setup, p2i_svd, "any", dict(n_slices=nI, init="svd", svd="randomized_svd"),
            "the generator reaches the randomized SVD", extra_post=svd_threading_post, assumptions=p2_pre)
    # PARAFAC2 sweep and line search: the projections are computed by an SVD per slice - with the randomized method each of them draws, so random_state must reach
    # _compute_projections from the sweep, and from the line search the decomposition constructs
    def p2s_setup(S):
        K = atom("K")
        return dict(_S=S, Xs=[S.input(f"X{i}", [atom(f"J{i}"), K]) for i in range(2)], R=R, K=K, w=S.input("w", [R]), A=S.input("A", [2, R]), Bm=S.input("B", [R, R]), Cm=S.input("Cm", [K, R]),
                    P=[S.input(f"P{i}", [atom(f"J{i}"), R]) for i in range(2)], err=S.input("err", []))
    def p2s_call(I, rs):
        import tensorly.parafac2_tensor as p2t
        from tensorly.cp_tensor import CPTensor
        from .c03 import _noval
        S = I["_S"]
        rec = []
        def proj(ts, fs_, svd, **kw):
            rec.append(dict(kw))
            return list(I["P"])
        def inner(X, rank, init=None, **kw):
            return CPTensor((None, list(init[1])))
        def errf(*a, **k):
            return I["err"]
        def go():
            cut = LoopCut(_p2.parafac2)
            with stubbed(_p2, _compute_projections=proj, parafac=inner, _parafac2_reconstruction_error=errf, _validate_parafac2_tensor=p2t._validate_parafac2_tensor,
                         initialize_decomposition=lambda *a, **k: (I["w"], [I["A"], I["Bm"], I["Cm"]], list(I["P"]))):
                st = cut.prefix(list(I["Xs"]), I["R"] if S.name == "sym" else I["A"].shape[1], svd="randomized_svd", random_state=rs, linesearch=True, tol=1e-9)
                st["factors"] = list(st["factors"])
                st["rec_errors"] = [I["err"]]
                ls = st["linesearch"]
                cut.body(st, 1)                                  # a plain sweep
                n_sweep = len(rec)
                ls.line_step(8, list(I["Xs"]), [I["A"], I["Bm"], I["Cm"]], I["w"], [I["A"], I["Bm"], I["Cm"]], list(I["P"]), I["err"])   # the line search object the prefix built
            return dict(svd_calls=rec, n_sweep=n_sweep, ls_has=getattr(ls, "random_state", "missing"))
        return _noval(p2t, go)
    def p2s_post(S, I, r):
        out = svd_threading_post(S, I, r)[:-1]
        out.append(("the sweep and the line search each compute projections", [r["res"]["n_sweep"] >= 1, len(r["res"]["svd_calls"]) > r["res"]["n_sweep"]], [True, True]))
        return out
    add("decomposition._parafac2:parafac2", "slices=2,svd=randomized_svd,sweep and line search", p2s_setup, p2s_call, "any", dict(n_slices=2, svd="randomized_svd", site="sweep + line search"),
        "the generator reaches the randomized SVD", extra_post=p2s_post, assumptions=lambda I: [I["R"] <= I["K"]] + [I["R"] <= x.shape[0] for x in I["Xs"]])
    def cpj_call(I, rs):
        rec = []
        with stubbed(_p2, svd_interface=rec_svd(I["_S"], rec)):
            _p2._compute_projections(list(I["Xs"]), [I["A"], I["Bm"], I["Cm"]], "randomized_svd", random_state=rs)
        return dict(svd_calls=rec)
    add("decomposition._parafac2:_compute_projections", "slices=2,svd=randomized_svd", p2s_setup, cpj_call, "any", dict(n_slices=2, svd="randomized_svd"),
        "the generator reaches the randomized SVD", extra_post=svd_threading_post, assumptions=lambda I: [I["R"] <= I["K"]] + [I["R"] <= x.shape[0] for x in I["Xs"]])
    # ====================================================================== decompositions: the generator is handed to the initialiser unchanged, sweeps and exits draw nothing
    # (the loop-cut call sites of C06 / C08 are re-run with random_state injected into the cut function; initialisers, samplers and inner solvers are contract stubs
    #  whose recorded arguments are inspected; their own bodies are the obligations above)
    import inspect
    from .. import iterative as IT
    INIT_NAMES = ("initialize_cp", "initialize_tucker", "initialize_constrained_parafac", "initialize_decomposition", "random_tr", "sample_khatri_rao", "_compute_projections")
    def resolve(fn):
        mod, name = fn.split(":")
        obj = importlib.import_module(mod)
        for part in name.split("."):
            obj = getattr(obj, part)
        return obj
    def derived(got, rs):
        return got is rs or (isinstance(got, B.SymRng) and got.role == "constructed" and (got.seed_value is rs or got.seed_value == rs)) or \
            (isinstance(got, np.random.RandomState) or (isinstance(got, int) and got == rs))
    seen = set()
    for mod in ("c06", "c08"):
        m = importlib.import_module(f"vt.props.{mod}")
        for ob in m.obligations(tier):
            if type(ob) is not GOb or ob.raises is not None or ob.function.endswith(":_compute_projections") or "n_iter_max=0" in ob.name or "zero budget" in ob.name or "n_iter_max=" in ob.name or ":initialize_" in ob.function or ob.instance.get("order", 0) >= 4:
                continue  # (whole-function zero-budget call sites are not loop cuts: random_state cannot be injected there)
            try:
                f = resolve(ob.function)
                if "random_state" not in inspect.signature(f).parameters:
                    continue
            except Exception:
                continue
            key = (ob.function, repr(sorted((k, repr(v)) for k, v in ob.instance.items() if k not in ("order", "N", "n_slices"))))
            if tier == "quick" and key in seen:
                continue
            seen.add(key)
            def user_call(I, rs, ob=ob):
                LoopCut.EXTRA_KWARGS = {"random_state": rs}
                del LoopCut.INJECTED[:]
                del IT.STUB_CALLS[:]
                try:
                    ob.call(I)
                finally:
                    LoopCut.EXTRA_KWARGS = {}
                if not LoopCut.INJECTED:
                    raise EngineError("random_state could not be injected (not a loop-cut call site)")
                return dict(stub_calls=[(n, k) for n, a, k in IT.STUB_CALLS if n in INIT_NAMES], injected=list(LoopCut.INJECTED))
            def extra(S, I, r):
                out = []
                calls = r["res"]["stub_calls"]
                for n, k in calls:
                    got = k.get("random_state", "missing")
                    out.append((f"{n} is handed the generator derived from random_state (got {type(got).__name__})", int(bool(got != "missing" and derived(got, r["rs"]))), 1))
                return out
            obs.append(RngOb(f"{PID}/{ob.function.split('decomposition.')[-1]}/random_state reaches the initialiser; prefix, sweep and exits make no other draw[{ob.name.split('[', 1)[1][:-1]},random_state=int]",
                             ob.function, ob.setup, user_call, "int", "any", dict(ob.instance, source=ob.pid), "random_state reaches the initialiser; prefix, sweep and exits make no other draw",
                             extra_post=extra, assumptions=ob.assumptions, side_nonzero=ob.side_nonzero))
    # ====================================================================== static scan: no other source of nondeterminism in the modules under proof
    class ScanOb(Obligation):
        engine = "static-scan (ast)"
        def run(self):
            import ast, os
            from .. import REPO
            t0 = time.time()
            bad, n = [], 0
            for root, _d, files in os.walk(os.path.join(REPO, "tensorly")):
                if any(p in root for p in ("/tests", "/datasets", "/plugins", "/contrib/sparse")):
                    continue
                for fn in files:
                    if not fn.endswith(".py"):
                        continue
                    path = os.path.join(root, fn)
                    tree = ast.parse(open(path).read())
                    n += 1
                    for node in ast.walk(tree):
                        names = []
                        if isinstance(node, ast.Import):
                            names = [a.name for a in node.names]
                        elif isinstance(node, ast.ImportFrom) and node.level == 0:
                            names = [node.module or ""]
                        for nm in names:
                            if nm.split(".")[0] in ("time", "datetime", "uuid", "secrets", "random", "multiprocessing", "concurrent"):
                                bad.append(f"{os.path.relpath(path, REPO)}: import {nm}")
                        if isinstance(node, ast.Call) and isinstance(node.func, ast.Name) and node.func.id in ("hash", "id") :
                            bad.append(f"{os.path.relpath(path, REPO)}:{node.lineno}: {node.func.id}()")
                        if isinstance(node, ast.Attribute) and node.attr in ("urandom", "default_rng", "SeedSequence", "getrandbits"):
                            bad.append(f"{os.path.relpath(path, REPO)}:{node.lineno}: .{node.attr}")
            v = Verdict(PROVED if not bad else REFUTED, "static-scan", "; ".join(bad[:5]), extra=dict(files=n), witness=dict(native_fails=False, findings=bad[:10]) if bad else None)
            v.time_s = time.time() - t0
            return v
        def replay(self, witness):
            return self.run().status == PROVED, ""
    obs.append(ScanOb(PID, f"{PID}/static-scan/no clock, entropy, unseeded-generator, hash- or id-dependent code in the library modules", "tensorly/**/*.py (tests, datasets, plugins, sparse contrib excluded)",
                      instance={}, clause="no other source of nondeterminism", forall=["all library modules"], enumerated=[]))
    from .c09 import BoundedOb
    from . import c16_native
    obs.append(BoundedOb(f"{PID}/bounded/native reproducibility survey of the seed-accepting entry points", "tensorly (random generators, initialisers, decompositions and their classes, samplers, randomized SVD, regressors)",
                         lambda: c16_native.run((0, 12345) if tier == "quick" else (0, 1, 7, 12345, 2**31 - 1)),
                         dict(seeds="2 (5 thorough)", kinds="int / two identically seeded generators"),
                         "each entry point twice per seed and kind, global generator reseeded and advanced in between; plus 13 functions without random choices", pid=PID))
    # ---- the class wrappers hand random_state (and the initialisation / SVD choice that decide whether it is used) to the seeded functions
    from . import wrappers as _W
    obs.extend(_W.obligations(PID, only=("random_state", "init", "svd", "n_samples")))
    return obs


def canaries(tier):
    """a draw on the global generator must be flagged"""
    import tensorly as tl
    def setup(S):
        return dict(_S=S, n=dims(2))
    def user_call(I, rs):
        import tensorly.random.base as rb
        return rb.random_tensor(tuple(I["n"]), random_state=None)  # ignores the seed: global generator
    return [RngOb(f"{PID}/canary/seed-ignored", "tensorly.random.base:random_tensor", setup, user_call, "int", "any", {}, "canary")]
