"""Native dtype survey used by the bounded stand-in of C18 (never counted as proved): public entry points called with float32 / float64 / complex128 numpy inputs."""
import numpy as np, tensorly as tl, warnings, itertools
warnings.simplefilter("ignore")
from tensorly import decomposition as D, random as R, tenalg as T, metrics as M, regression as RG
from tensorly.solvers import nnls, admm as ADM
from tensorly.tenalg import proximal as P, svd as SV
from tensorly.decomposition import _cmtf_als
import tensorly.contrib.decomposition as CD

def leaves(x, path="r", seen=None, depth=0):
    seen = seen if seen is not None else set()
    if x is None or isinstance(x, (str, bytes, bool, int, float, complex)) or depth > 8: return
    if isinstance(x, (np.ndarray, np.generic)):
        yield path, x; return
    if id(x) in seen: return
    seen.add(id(x))
    if isinstance(x, dict):
        for k, v in x.items(): yield from leaves(v, f"{path}[{k!r}]", seen, depth+1)
    elif isinstance(x, (list, tuple)):
        for i, v in enumerate(x): yield from leaves(v, f"{path}[{i}]", seen, depth+1)
    elif hasattr(x, "__dict__") and type(x).__module__.startswith("tensorly"):
        for k, v in vars(x).items():
            if not k.startswith("_"): yield from leaves(v, f"{path}.{k}", seen, depth+1)

def cases(dt, rng):
    cplx = np.dtype(dt).kind == "c"
    def arr(*shape):
        a = rng.standard_normal(shape)
        if cplx: a = a + 1j * rng.standard_normal(shape)
        return a.astype(dt)
    def pos(*shape):
        return np.abs(rng.standard_normal(shape)).astype(dt) + np.asarray(0.1, dt)
    X, Xp = arr(4, 5, 6), pos(4, 5, 6)
    out = {}
    for init in ("svd", "random"):
        out[f"parafac[{init}]"] = lambda init=init: D.parafac(X, 2, init=init, n_iter_max=4, random_state=0, return_errors=True)
        out[f"parafac[{init},normalize]"] = lambda init=init: D.parafac(X, 2, init=init, n_iter_max=4, random_state=0, normalize_factors=True)
        out[f"tucker[{init}]"] = lambda init=init: D.tucker(X, [2, 2, 2], init=init, n_iter_max=4, random_state=0, return_errors=True)
        if not cplx:
            out[f"nn_parafac[{init}]"] = lambda init=init: D.non_negative_parafac(Xp, 2, init=init, n_iter_max=4, random_state=0, return_errors=True)
            out[f"nn_parafac_hals[{init}]"] = lambda init=init: D.non_negative_parafac_hals(Xp, 2, init=init, n_iter_max=4, random_state=0, return_errors=True)
            out[f"nn_tucker[{init}]"] = lambda init=init: D.non_negative_tucker(Xp, [2, 2, 2], init=init, n_iter_max=4, random_state=0, return_errors=True)
            out[f"nn_tucker_hals[{init}]"] = lambda init=init: D.non_negative_tucker_hals(Xp, [2, 2, 2], init=init, n_iter_max=4, random_state=0, return_errors=True)
            out[f"nn_tucker_hals[{init},active_set]"] = lambda init=init: D.non_negative_tucker_hals(Xp, [2, 2, 2], init=init, n_iter_max=4, random_state=0, algorithm="active_set")
            out[f"parafac2[{init}]"] = lambda init=init: D.parafac2(X, 2, init=init, n_iter_max=4, random_state=0, return_errors=True)
            out[f"parafac2[{init},nn_modes]"] = lambda init=init: D.parafac2(Xp, 2, init=init, n_iter_max=4, random_state=0, nn_modes=[0, 2])
            out[f"parafac2[{init},normalize]"] = lambda init=init: D.parafac2(X, 2, init=init, n_iter_max=4, random_state=0, normalize_factors=True)
    if not cplx:
        out["parafac[mask]"] = lambda: D.parafac(X, 2, n_iter_max=4, mask=(rng.rand(4, 5, 6) > 0.2).astype(dt), random_state=0)
        out["parafac[sparsity]"] = lambda: D.parafac(X, 2, n_iter_max=4, sparsity=0.1, random_state=0)
        out["parafac[linesearch]"] = lambda: D.parafac(X, 2, n_iter_max=12, linesearch=True, random_state=0, tol=1e-30)
        out["parafac[orthogonalise]"] = lambda: D.parafac(X, 2, n_iter_max=4, orthogonalise=True, random_state=0)
        out["parafac[l2_reg]"] = lambda: D.parafac(X, 2, n_iter_max=4, l2_reg=0.1, random_state=0)
        out["randomised_parafac"] = lambda: D.randomised_parafac(X, 2, n_samples=20, n_iter_max=4, random_state=0)
        for c, v in dict(non_negative=True, simplex=1.0, l1_reg=0.1, unimodality=True, monotonicity=True, smoothness=0.1, normalize=True, soft_sparsity=1.0, l2_reg=0.1, l2_square_reg=0.1, hard_sparsity=8, normalized_sparsity=8).items():
            out[f"constrained_parafac[{c}]"] = lambda c=c, v=v: D.constrained_parafac(X, 2, n_iter_max=3, random_state=0, return_errors=True, **{c: v})
        out["partial_tucker"] = lambda: D.partial_tucker(X, [2, 2], modes=[0, 2], n_iter_max=4)
        out["tucker[mask]"] = lambda: D.tucker(X, [2, 2, 2], n_iter_max=4, mask=(rng.rand(4, 5, 6) > 0.2).astype(dt))
        out["robust_pca"] = lambda: D.robust_pca(X, n_iter_max=5)
        out["robust_pca[bool mask]"] = lambda: D.robust_pca(X, mask=rng.rand(4, 5, 6) > 0.2, n_iter_max=5)
        out["robust_pca[float64 mask]"] = lambda: D.robust_pca(X, mask=(rng.rand(4, 5, 6) > 0.2).astype(np.float64), n_iter_max=5)
        out["parafac[float64 mask]"] = lambda: D.parafac(X, 2, n_iter_max=4, mask=(rng.rand(4, 5, 6) > 0.2).astype(np.float64), random_state=0)
        out["tucker[bool mask]"] = lambda: D.tucker(X, [2, 2, 2], n_iter_max=4, mask=rng.rand(4, 5, 6) > 0.2)
        out["tensor_ring_als_sampled[uniform]"] = lambda: D.tensor_ring_als_sampled(X, [2, 2, 2, 2], n_samples=10, n_iter_max=3, random_state=0, uniform_sampling=True)
        out["tensor_ring_als_sampled[randomized_error]"] = lambda: D.tensor_ring_als_sampled(X, [2, 2, 2, 2], n_samples=10, n_iter_max=3, random_state=0, randomized_error=True, tol=1e-12)
        out["tensor_ring_als[normal_eq]"] = lambda: D.tensor_ring_als(X, [2, 2, 2, 2], n_iter_max=3, random_state=0, ls_solve="normal_eq")
        out["parafac[linesearch,long]"] = lambda: D.parafac(X, 2, n_iter_max=20, linesearch=True, random_state=0, tol=1e-30, return_errors=True)
        out["parafac2[linesearch]"] = lambda: D.parafac2(X, 2, n_iter_max=12, linesearch=True, random_state=0, tol=1e-30, return_errors=True)
        out["cmtf"] = lambda: _cmtf_als.coupled_matrix_tensor_3d_factorization(X, arr(4, 3), 2, n_iter_max=4)
        out["cmtf[normalize]"] = lambda: _cmtf_als.coupled_matrix_tensor_3d_factorization(X, arr(4, 3), 2, n_iter_max=4, normalize_factors=True)
        out["power_iteration"] = lambda: D.parafac_power_iteration(X, 2, n_repeat=2, n_iteration=3)
        out["sym_power_iteration"] = lambda: D.symmetric_parafac_power_iteration(tl.cp_to_tensor((None, [arr(4, 2)] * 3)), 2, n_repeat=2, n_iteration=3)
        out["tensor_ring_als"] = lambda: D.tensor_ring_als(X, [2, 2, 2, 2], n_iter_max=3, random_state=0)
        out["tensor_ring_als_sampled"] = lambda: D.tensor_ring_als_sampled(X, [2, 2, 2, 2], n_samples=10, n_iter_max=3, random_state=0)
        out["tensor_train_cross"] = lambda: CD.tensor_train_cross(X, [1, 2, 2, 1], random_state=0)
    out["tensor_train"] = lambda: D.tensor_train(X, [1, 2, 2, 1])
    out["tensor_train_matrix"] = lambda: D.tensor_train_matrix(arr(2, 3, 2, 3), [1, 2, 1])
    out["tensor_ring"] = lambda: D.tensor_ring(X, [2, 2, 2, 2])
    # solvers
    if not cplx:
        A, B = pos(6, 3), pos(6, 4)
        UtU, UtM = A.T @ A, A.T @ B
        out["hals_nnls[warm]"] = lambda: nnls.hals_nnls(UtM, UtU, pos(3, 4))
        out["hals_nnls[cold]"] = lambda: nnls.hals_nnls(UtM, UtU)
        out["hals_nnls[sparsity]"] = lambda: nnls.hals_nnls(UtM, UtU, pos(3, 4), sparsity_coefficient=0.1, ridge_coefficient=0.1)
        out["fista[cold]"] = lambda: nnls.fista(UtM, UtU)
        out["fista[warm]"] = lambda: nnls.fista(UtM, UtU, x=pos(3, 4), sparsity_coef=0.1)
        out["active_set[cold]"] = lambda: nnls.active_set_nnls(UtM[:, 0], UtU)
        out["active_set[warm]"] = lambda: nnls.active_set_nnls(UtM[:, 0], UtU, x=pos(3))
        sing = np.array([[1, 1, 0], [1, 1, 0], [0, 0, 1]], dtype=dt)
        out["active_set[singular block]"] = lambda: nnls.active_set_nnls(np.array([1, 1, 0.5], dtype=dt), sing, x=np.array([1, 1, 0], dtype=dt))
        out["admm[unconstrained]"] = lambda: ADM.admm(UtM.T, UtU, pos(4, 3), np.zeros((4, 3), dt), n_const=None)
        for c, v in dict(non_negative=True, simplex=1.0, l1_reg=0.1, unimodality=True, monotonicity=True, smoothness=0.1, normalize=True, soft_sparsity=1.0, l2_reg=0.1, l2_square_reg=0.1, hard_sparsity=3, normalized_sparsity=3).items():
            out[f"admm[{c}]"] = lambda c=c, v=v: ADM.admm(UtM.T, UtU, pos(4, 3), np.zeros((4, 3), dt), n_const=1, order=0, **{c: v})
        v = arr(5, 3)
        out.update({"prox.soft_thresholding": lambda: P.soft_thresholding(v, 0.3), "prox.hard_thresholding": lambda: P.hard_thresholding(v, 4), "prox.svd_thresholding": lambda: P.svd_thresholding(v, 0.3),
                    "prox.simplex": lambda: P.simplex_prox(v, 1.0), "prox.simplex[1d]": lambda: P.simplex_prox(v[:, 0], 1.0), "prox.normalized_sparsity": lambda: P.normalized_sparsity_prox(v, 2),
                    "prox.monotonicity": lambda: P.monotonicity_prox(v), "prox.monotonicity[decreasing]": lambda: P.monotonicity_prox(v, decreasing=True), "prox.unimodality": lambda: P.unimodality_prox(v),
                    "prox.l2": lambda: P.l2_prox(v, 0.3), "prox.l2_square": lambda: P.l2_square_prox(v, 0.3), "prox.soft_sparsity": lambda: P.soft_sparsity_prox(v, 1.0), "prox.smoothness": lambda: P.smoothness_prox(v, 0.3),
                    "prox.procrustes": lambda: P.procrustes(v)})
        for c, val in dict(non_negative=True, normalize=True, l1_reg=0.2, l2_reg=0.2, l2_square_reg=0.2, unimodality=True, simplex=1.0, normalized_sparsity=2, soft_sparsity=1.0, smoothness=0.2, monotonicity=True, hard_sparsity=3).items():
            out[f"proximal_operator[{c}]"] = lambda c=c, val=val: P.proximal_operator(v, **{c: val})
    Mx = arr(5, 4)
    for method in ("truncated_svd", "symeig_svd", "randomized_svd"):
        for k in (2, None, 6):
            out[f"svd_interface[{method},{k}]"] = lambda method=method, k=k: SV.svd_interface(Mx, method=method, n_eigenvecs=k, random_state=0)
    out["svd_interface[flip]"] = lambda: SV.svd_interface(Mx, n_eigenvecs=2, flip_sign=True, u_based_flip_sign=False)
    Mw = arr(3, 6)
    for ub in (True, False):     # sign resolution when U and V have different numbers of vectors (n_eigenvecs past min(shape)): the padded sign vector
        for nm, Mq in (("tall", Mx), ("wide", Mw)):
            for k in (5, None):
                out[f"svd_interface[flip,u_based={ub},{nm},{k}]"] = lambda ub=ub, Mq=Mq, k=k: SV.svd_interface(Mq, n_eigenvecs=k, flip_sign=True, u_based_flip_sign=ub)
        out[f"svd_flip[u_based={ub},more U columns]"] = lambda ub=ub: SV.svd_flip(arr(6, 5), arr(3, 4), u_based_decision=ub)
        out[f"svd_flip[u_based={ub},more V rows]"] = lambda ub=ub: SV.svd_flip(arr(4, 3), arr(5, 6), u_based_decision=ub)
    if not cplx:
        out["svd_interface[non_negative]"] = lambda: SV.svd_interface(Mx, n_eigenvecs=2, non_negative=True)
        out["svd_interface[nndsvda]"] = lambda: SV.svd_interface(Mx, n_eigenvecs=2, non_negative="nndsvda")
        out["svd_interface[mask]"] = lambda: SV.svd_interface(Mx, n_eigenvecs=2, mask=(rng.rand(5, 4) > 0.2).astype(dt), n_iter_mask_imputation=3)
    ctx = dict(dtype=np.dtype(dt))
    out["random_cp"] = lambda: R.random_cp((4, 5, 6), 2, random_state=0, **ctx)
    out["random_cp[full]"] = lambda: R.random_cp((4, 5, 6), 2, full=True, random_state=0, **ctx)
    out["random_cp[orthogonal]"] = lambda: R.random_cp((4, 5, 6), 2, orthogonal=True, random_state=0, **ctx)
    out["random_tucker"] = lambda: R.random_tucker((4, 5, 6), [2, 2, 2], random_state=0, **ctx)
    out["random_tucker[orthogonal]"] = lambda: R.random_tucker((4, 5, 6), [2, 2, 2], orthogonal=True, random_state=0, **ctx)
    out["random_tt"] = lambda: R.random_tt((4, 5, 6), [1, 2, 2, 1], random_state=0, **ctx)
    out["random_tr"] = lambda: R.random_tr((4, 5, 6), [2, 2, 2, 2], random_state=0, **ctx)
    out["random_tt_matrix"] = lambda: R.random_tt_matrix((2, 3, 2, 3), [1, 2, 1], random_state=0, **ctx)
    out["random_parafac2"] = lambda: R.random_parafac2([(4, 3), (5, 3)], 2, random_state=0, **ctx)
    # conversions
    cp = (arr(2), [arr(4, 2), arr(5, 2), arr(6, 2)])
    out["cp_to_tensor"] = lambda: tl.cp_to_tensor(cp)
    out["cp_normalize"] = lambda: tl.cp_tensor.cp_normalize(cp)
    out["cp_norm"] = lambda: tl.cp_tensor.cp_norm(cp)
    out["cp_flip_sign"] = lambda: tl.cp_tensor.cp_flip_sign((cp[0].copy(), [f.copy() for f in cp[1]]))
    out["cp_lstsq_grad"] = lambda: tl.cp_tensor.cp_lstsq_grad(cp, X, return_loss=True) if hasattr(tl.cp_tensor, "cp_lstsq_grad") else None
    out["tucker_to_tensor"] = lambda: tl.tucker_to_tensor((arr(2, 2, 2), [arr(4, 2), arr(5, 2), arr(6, 2)]))
    out["tucker_normalize"] = lambda: tl.tucker_tensor.tucker_normalize((arr(2, 2, 2), [arr(4, 2), arr(5, 2), arr(6, 2)]))
    out["tt_to_tensor"] = lambda: tl.tt_to_tensor([arr(1, 4, 2), arr(2, 5, 2), arr(2, 6, 1)])
    out["pad_tt_rank"] = lambda: tl.tt_tensor.pad_tt_rank([arr(1, 4, 2), arr(2, 5, 2), arr(2, 6, 1)], n_padding=1)
    out["tr_to_tensor"] = lambda: tl.tr_to_tensor([arr(2, 4, 2), arr(2, 5, 2), arr(2, 6, 2)])
    out["parafac2_to_tensor"] = lambda: tl.parafac2_tensor.parafac2_to_tensor((arr(2), [arr(2, 2), arr(2, 2), arr(3, 2)], [np.linalg.qr(arr(4, 2).real)[0].astype(dt), np.linalg.qr(arr(5, 2).real)[0].astype(dt)]))
    if not cplx:
        Xr, y = arr(12, 3, 4), arr(12)
        def reg(cls, **kw):
            m = cls(**kw); m.fit(Xr, y); return dict(w=getattr(m, "weight_tensor_", None), pred=m.predict(Xr), attrs={k: v for k, v in vars(m).items() if k.endswith("_")})
        out["CPRegressor"] = lambda: reg(RG.CPRegressor, weight_rank=2, n_iter_max=5, random_state=0, verbose=0)
        out["TuckerRegressor"] = lambda: reg(RG.TuckerRegressor, weight_ranks=[2, 2], n_iter_max=5, random_state=0, verbose=0)
        def plsr():
            m = RG.CP_PLSR(n_components=2, random_state=0); m.fit(Xr, arr(12, 2)); return dict(attrs={k: v for k, v in vars(m).items() if k.endswith("_") or "factors" in k}, pred=m.predict(Xr), tr=m.transform(Xr))
        out["CP_PLSR"] = plsr
        a, b = arr(5, 4), arr(5, 4)
        out["metrics.MSE"] = lambda: M.MSE(a, b, axis=0); out["metrics.RMSE"] = lambda: M.RMSE(a, b, axis=0)
        out["metrics.R2"] = lambda: M.regression.R2_score(a, b, axis=0); out["metrics.correlation"] = lambda: M.regression.correlation(a, b, axis=0)
        out["metrics.congruence"] = lambda: M.congruence_coefficient(a, b)[0]
        out["metrics.correlation_index"] = lambda: M.correlation_index([a], [b])
    return out


SKIPPED = []


def run(dtypes=(np.float32, np.float64, np.complex128)):
    """-> (n_evaluations, failures)"""
    n, fails = 0, []
    for dt in dtypes:
        rng = np.random.RandomState(0)
        exp = {np.float32: ("float32", "complex64"), np.float64: ("float64", "complex128"), np.complex128: ("float64", "complex128")}[dt]
        for name, f in cases(dt, rng).items():
            try:
                r = f()
            except Exception as e:  # an entry point that does not run for this dtype is outside the dtype claim: reported as skipped
                SKIPPED.append(f"{name}[{np.dtype(dt).name}]: {type(e).__name__}")
                continue
            n += 1
            bad = [(p, a.dtype.name) for p, a in leaves(r) if a.dtype.kind in "fc" and a.dtype.name not in exp]
            if bad:
                fails.append(f"{name} with {np.dtype(dt).name} input returns {bad[:3]}")
    return n, fails


if __name__ == "__main__":
    print(run())
