"""Native ownership survey used by the bounded stand-in of C15 (never counted as proved): public entry points are called with numpy inputs (plain
arrays, transposed / sliced views of a caller base, tuples, lists, wrapper objects, option lists, masks), a deep copy taken before is compared bit for
bit and structurally after the call - also when the call raises."""
import copy
import warnings

import numpy as np


def snapshot(x):
    return copy.deepcopy(x)


def equal(a, b, path="arg"):
    """structural and bitwise equality; returns a description of the first difference or None"""
    if isinstance(a, np.ndarray):
        if not isinstance(b, np.ndarray) or a.shape != b.shape or a.dtype != b.dtype or not np.array_equal(a, b, equal_nan=True):
            return f"{path} (array) changed"
        return None
    if isinstance(a, (list, tuple)):
        if type(a) is not type(b) or len(a) != len(b):
            return f"{path} ({type(a).__name__}) changed length or type"
        for i, (x, y) in enumerate(zip(a, b)):
            d = equal(x, y, f"{path}[{i}]")
            if d:
                return d
        return None
    if isinstance(a, dict):
        if not isinstance(b, dict) or list(a) != list(b):
            return f"{path} (dict) changed keys"
        for k in a:
            d = equal(a[k], b[k], f"{path}[{k!r}]")
            if d:
                return d
        return None
    if hasattr(a, "__dict__") and type(a).__module__.startswith("tensorly"):
        if type(a) is not type(b):
            return f"{path} changed type"
        return equal(vars(a), vars(b), path + ".__dict__")
    if isinstance(a, np.random.RandomState):
        return None
    try:
        return None if (a == b or (a != a and b != b)) else f"{path} changed from {b!r} to {a!r}"
    except Exception:
        return None


def cases():
    import tensorly as tl
    from tensorly import decomposition as D, tenalg as T, metrics as M, regression as RG
    from tensorly.solvers import nnls, admm as ADM
    from tensorly.tenalg import proximal as P
    from tensorly.decomposition import _cmtf_als
    from tensorly import cp_tensor as CT, tucker_tensor as TK, tt_tensor as TT, parafac2_tensor as P2, preprocessing as PR
    g = np.random.RandomState(3)
    base = g.standard_normal((7, 6, 5))
    X = base.transpose(2, 1, 0)[:, ::1, :4]           # a view of a caller-owned base, shape (5, 6, 4)
    Xp = np.abs(g.standard_normal((5, 6, 4))) + 0.1
    mask = (g.rand(5, 6, 4) > 0.2).astype(float)
    def cp(shape=(5, 6, 4), r=3, pos=False, w=True):
        fs = [g.standard_normal((n, r)) for n in shape]
        if pos:
            fs = [np.abs(f) + 0.1 for f in fs]
        return (np.abs(g.standard_normal(r)) + 0.5 if w else None, fs)
    def tk(shape=(5, 6, 4), r=(2, 3, 2), pos=False):
        c = g.standard_normal(r)
        fs = [np.linalg.qr(g.standard_normal((n, k)))[0] for n, k in zip(shape, r)]
        if pos:
            c, fs = np.abs(c), [np.abs(f) for f in fs]
        return (c, fs)
    slices = [g.standard_normal((n, 4)) for n in (5, 6, 7)]
    out = []
    def add(name, f, *a, allow=(), **k):
        out.append((name, f, list(a), dict(k), allow))
    for form in ("tuple", "CPTensor", "list"):
        def mk(init, form=form):
            return CT.CPTensor(init) if form == "CPTensor" else (list(init) if form == "list" else init)
        add(f"parafac[init={form}]", D.parafac, X, 3, init=mk(cp()), n_iter_max=3)
        add(f"parafac[init={form},fixed_modes=[2,0],mask]", D.parafac, X, 3, init=mk(cp()), n_iter_max=3, fixed_modes=[2, 0], mask=mask)
        add(f"non_negative_parafac[init={form}]", D.non_negative_parafac, Xp, 3, init=mk(cp(pos=True)), n_iter_max=3, fixed_modes=[2, 1])
        add(f"non_negative_parafac_hals[init={form}]", D.non_negative_parafac_hals, Xp, 3, init=mk(cp(pos=True)), n_iter_max=3, fixed_modes=[1], sparsity_coefficients=[0.1, 0.2, 0.3])
        add(f"constrained_parafac[init={form}]", D.constrained_parafac, X, 3, init=mk(cp()), n_iter_max=2, non_negative=True, fixed_modes=[2, 0])
        add(f"randomised_parafac[init={form}]", D.randomised_parafac, X, 3, 20, init=mk(cp()), n_iter_max=3, random_state=0)
    add("parafac[svd,linesearch]", D.parafac, X, 3, n_iter_max=9, linesearch=True)
    add("parafac[sparsity]", D.parafac, X, 3, n_iter_max=3, sparsity=0.1)
    add("tucker[init=tuple,fixed_factors]", D.tucker, X, [3, 2], init=tk(), fixed_factors=[2, 0][::-1][:1] + [0][:0], n_iter_max=3)
    add("tucker[init=tuple,fixed_factors=[2,0]]", D.tucker, X, [3], init=tk(), fixed_factors=[2, 0], n_iter_max=3)
    add("tucker[init=TuckerTensor,mask]", D.tucker, X, [2, 3, 2], init=TK.TuckerTensor(tk()), mask=mask, n_iter_max=3)
    add("partial_tucker[init=tuple]", D.partial_tucker, X, [2, 2], modes=[0, 2], init=(g.standard_normal((2, 6, 2)), [np.linalg.qr(g.standard_normal((5, 2)))[0], np.linalg.qr(g.standard_normal((4, 2)))[0]]), n_iter_max=3)
    add("non_negative_tucker[init=tuple]", D.non_negative_tucker, Xp, [2, 3, 2], init=tk(pos=True), n_iter_max=3)
    add("non_negative_tucker_hals[init=tuple,lists]", D.non_negative_tucker_hals, Xp, [2, 3, 2], init=tk(pos=True), n_iter_max=3, fixed_modes=[2, 0], sparsity_coefficients=[0.1, 0.1, 0.1])
    add("parafac2[init=tuple]", D.parafac2, slices, 3, init=(np.ones(3), [g.standard_normal((3, 3)), g.standard_normal((3, 3)), g.standard_normal((4, 3))], [np.linalg.qr(g.standard_normal((n, 3)))[0] for n in (5, 6, 7)]), n_iter_max=3)
    add("parafac2[svd,nn_modes]", D.parafac2, [np.abs(s) for s in slices], 3, init="svd", n_iter_max=3, nn_modes=[0, 2])
    add("tensor_train", D.tensor_train, X, [1, 2, 2, 1])
    add("tensor_train[rank list]", D.tensor_train, X, [1, 9, 9, 1])
    add("tensor_train_matrix", D.tensor_train_matrix, g.standard_normal((2, 3, 2, 3)), [1, 2, 1])
    add("tensor_ring", D.tensor_ring, X, [2, 2, 2, 2], mode=1)
    add("tensor_ring_als", D.tensor_ring_als, X, [2, 2, 2, 2], n_iter_max=2, random_state=0)
    add("tensor_ring_als_sampled", D.tensor_ring_als_sampled, X, [2, 2, 2, 2], n_samples=[8, 8, 8], n_iter_max=2, random_state=0)
    add("robust_pca[mask]", D.robust_pca, X, mask=mask, n_iter_max=4)
    add("cmtf[init=tuple]", _cmtf_als.coupled_matrix_tensor_3d_factorization, X, g.standard_normal((5, 3)), 3, init=cp(w=False), n_iter_max=3)
    A, B = np.abs(g.standard_normal((8, 3))), np.abs(g.standard_normal((8, 4)))
    UtU, UtM = A.T @ A, A.T @ B
    add("hals_nnls[warm]", nnls.hals_nnls, UtM, UtU, np.abs(g.standard_normal((3, 4))), allow=("args[2]",))
    add("hals_nnls[cold]", nnls.hals_nnls, UtM, UtU)
    add("fista[warm]", nnls.fista, UtM, UtU, x=np.abs(g.standard_normal((3, 4))))
    add("active_set_nnls[warm]", nnls.active_set_nnls, UtM[:, 0], UtU, x=np.abs(g.standard_normal(3)))
    add("active_set_nnls[view]", nnls.active_set_nnls, UtM.T[0], UtU)
    add("admm[non_negative]", ADM.admm, UtM.T.copy(), UtU, np.abs(g.standard_normal((4, 3))), np.zeros((4, 3)), n_const=1, order=0, non_negative=True)
    add("admm[unconstrained]", ADM.admm, UtM.T.copy(), UtU, np.abs(g.standard_normal((4, 3))), np.zeros((4, 3)), n_const=None)
    v = g.standard_normal((6, 3))
    vt = g.standard_normal((3, 6)).T   # a transposed view
    for name, f, a, k in [("soft_thresholding", P.soft_thresholding, (v, 0.3), {}), ("hard_thresholding", P.hard_thresholding, (v, 4), {}), ("svd_thresholding", P.svd_thresholding, (v, 0.3), {}),
                          ("simplex_prox", P.simplex_prox, (v, 1.0), {}), ("simplex_prox[view]", P.simplex_prox, (vt, 1.0), {}), ("normalized_sparsity_prox", P.normalized_sparsity_prox, (v, 2), {}),
                          ("monotonicity_prox", P.monotonicity_prox, (v,), {}), ("monotonicity_prox[decreasing,view]", P.monotonicity_prox, (vt,), dict(decreasing=True)), ("unimodality_prox", P.unimodality_prox, (v,), {}),
                          ("l2_prox", P.l2_prox, (v, 0.3), {}), ("l2_square_prox", P.l2_square_prox, (vt, 0.3), {}), ("soft_sparsity_prox", P.soft_sparsity_prox, (v, 1.0), {}), ("smoothness_prox", P.smoothness_prox, (v, 0.3), {}),
                          ("procrustes", P.procrustes, (v,), {})]:
        add("proximal." + name, f, *a, **k)
    for c, val in dict(non_negative=True, normalize=True, l1_reg=0.2, l2_reg=0.2, l2_square_reg=0.2, unimodality=True, simplex=1.0, normalized_sparsity=2, soft_sparsity=1.0, smoothness=0.2, monotonicity=True, hard_sparsity=3).items():
        add(f"proximal_operator[{c}]", P.proximal_operator, vt, **{c: val})
    add("validate_constraints[lists]", P.validate_constraints, non_negative=[True, None, None], l1_reg=[None, 0.1, None], n_const=3)
    from tensorly.solvers.penalizations import process_regularization_weights
    add("process_regularization_weights[lists]", process_regularization_weights, [0.1, None, 0.2], [None, 0.3, 0.1], 3)
    w, fs = cp()
    M0 = g.standard_normal((3, 5))
    for backend in ("core", "einsum"):
        add(f"{backend}:mode_dot", T.mode_dot, X, M0, 0, allow=(), _tenalg=backend)
        add(f"{backend}:multi_mode_dot[list]", T.multi_mode_dot, X, [M0, g.standard_normal((2, 6))], [0, 1], _tenalg=backend)
        add(f"{backend}:khatri_rao[list,weights,mask]", T.khatri_rao, [f.copy() for f in fs], weights=w.copy(), mask=np.ones((120, 1)) if backend == "core" else np.ones((5, 6, 4)), _tenalg=backend)
        add(f"{backend}:khatri_rao[skip]", T.khatri_rao, [f.copy() for f in fs], skip_matrix=1, _tenalg=backend)
        add(f"{backend}:kronecker[list]", T.kronecker, [M0, M0.T], _tenalg=backend)
        add(f"{backend}:unfolding_dot_khatri_rao", T.unfolding_dot_khatri_rao, X, (w, fs), 1, _tenalg=backend)
        add(f"{backend}:inner", T.inner, X, X, _tenalg=backend)
        add(f"{backend}:outer[list]", T.outer, [M0[0], M0[1]], _tenalg=backend)
        add(f"{backend}:tensordot", T.tensordot, X, np.ascontiguousarray(X), ([0, 1], [0, 1]), _tenalg=backend)
        add(f"{backend}:higher_order_moment", T.higher_order_moment, M0, 3, _tenalg=backend)
    add("cp_to_tensor[mask]", CT.cp_to_tensor, (w, fs), mask=mask)
    add("cp_normalize", CT.cp_normalize, (w, fs))
    add("cp_flip_sign[tuple]", CT.cp_flip_sign, (w, fs))
    add("cp_flip_sign[CPTensor]", CT.cp_flip_sign, CT.CPTensor((w, fs)), mode=1)
    add("cp_mode_dot[copy=True]", CT.cp_mode_dot, (w, fs), M0, 0, copy=True)
    add("cp_mode_dot[vector,copy=True]", CT.cp_mode_dot, (w, fs), M0[0], 0, copy=True)
    add("cp_permute_factors", CT.cp_permute_factors, CT.CPTensor((w, fs)), CT.CPTensor((w[::-1].copy(), [f[:, ::-1].copy() for f in fs])))
    add("cp_lstsq_grad", CT.cp_lstsq_grad, (w, fs), X, return_loss=True)
    add("unfolding_dot_khatri_rao(cp_tensor)", CT.unfolding_dot_khatri_rao, X, (w, fs), 0)
    add("cp_norm", CT.cp_norm, (w, fs))
    c0, tf = tk()
    add("tucker_to_tensor[skip]", TK.tucker_to_tensor, (c0, tf), skip_factor=1)
    add("tucker_mode_dot[copy=True]", TK.tucker_mode_dot, (c0, tf), M0, 0, copy=True)
    add("tucker_normalize", TK.tucker_normalize, (c0, tf))
    tt = [g.standard_normal((1, 5, 2)), g.standard_normal((2, 6, 2)), g.standard_normal((2, 4, 1))]
    add("tt_to_tensor", TT.tt_to_tensor, tt)
    add("pad_tt_rank", TT.pad_tt_rank, tt, n_padding=1)
    p2 = (np.ones(3), [g.standard_normal((3, 3)), g.standard_normal((3, 3)), g.standard_normal((4, 3))], [np.linalg.qr(g.standard_normal((n, 3)))[0] for n in (5, 6, 7)])
    add("parafac2_to_tensor", P2.parafac2_to_tensor, p2)
    add("parafac2_normalise", P2.parafac2_normalise, p2)
    add("apply_parafac2_projections", P2.apply_parafac2_projections, p2)
    add("svd_compress_tensor_slices", PR.svd_compress_tensor_slices, [g.standard_normal((9, 4)), g.standard_normal((3, 4))])
    a_, b_ = g.standard_normal((6, 3)), g.standard_normal((6, 3))
    add("metrics.MSE", M.MSE, a_, b_, axis=0)
    add("metrics.RMSE", M.RMSE, a_, b_)
    add("metrics.congruence_coefficient[lists]", M.congruence_coefficient, [a_, b_], [b_, a_])
    add("metrics.correlation_index[lists]", M.correlation_index, [a_, b_], [b_, a_])
    Xr, y = g.standard_normal((14, 3, 4)), g.standard_normal(14)
    def fit_predict(cls, kw, X, y):
        m = cls(**kw)
        m.fit(X, y)
        return m.predict(X)
    add("CPRegressor.fit+predict", fit_predict, RG.CPRegressor, dict(weight_rank=2, n_iter_max=4, random_state=0, verbose=0), Xr, y)
    add("TuckerRegressor.fit+predict", fit_predict, RG.TuckerRegressor, dict(weight_ranks=[2, 2], n_iter_max=4, random_state=0, verbose=0), Xr, y)
    def plsr(X, Y):
        m = RG.CP_PLSR(n_components=2)
        m.fit(X, Y)
        return m.predict(X), m.transform(X, Y)
    add("CP_PLSR.fit+predict+transform", plsr, Xr, g.standard_normal((14, 2)))
    def plsr_vec(X, yv):
        m = RG.CP_PLSR(n_components=2)
        m.fit(X, yv)
        return m.transform(X, yv), m.fit_transform(X, yv), m.predict(X)
    add("CP_PLSR.fit+transform+fit_transform[vector Y]", plsr_vec, Xr, g.standard_normal(14))
    add("CP_PLSR.fit+transform[Y a column view]", plsr, Xr, g.standard_normal((2, 14)).T)
    add("parafac[mask,tol=0,no errors]", D.parafac, X, 3, n_iter_max=3, mask=mask, tol=0)
    add("parafac[mask,tol=None,init=tuple]", D.parafac, np.ascontiguousarray(X), 3, init=cp(), n_iter_max=3, mask=mask, tol=None)
    add("tucker[mask,tol=0]", D.tucker, np.ascontiguousarray(X), [2, 2, 2], n_iter_max=3, mask=mask, tol=0)
    add("non_negative_parafac[mask,tol=0]", D.non_negative_parafac, Xp, 3, n_iter_max=3, mask=mask, tol=0)
    add("cp_permute_factors[list of tensors]", CT.cp_permute_factors, CT.CPTensor((w, fs)), [CT.CPTensor((w[::-1].copy(), [f[:, ::-1].copy() for f in fs])), CT.CPTensor((w.copy(), [f.copy() for f in fs]))])
    # exits through exceptions
    add("parafac[bad init -> ValueError]", D.parafac, X, 3, init="nope", fixed_modes=[2, 0])
    add("mode_dot[shape mismatch -> ValueError]", T.mode_dot, X, M0, 1)
    add("validate_constraints[double constraint -> ValueError]", P.validate_constraints, non_negative=[True, None, None], simplex=[1.0, None, None], n_const=3)
    add("tucker[fixed_factors without init -> ValueError]", D.tucker, X, [2, 2], fixed_factors=[0])
    add("parafac2[rank too large -> assertion]", D.parafac2, slices, 9, init=(np.ones(9), [g.standard_normal((3, 9)), g.standard_normal((9, 9)), g.standard_normal((4, 9))], [g.standard_normal((n, 9)) for n in (5, 6, 7)]))
    return out, dict(base=base)


def run():
    import contextlib, io
    import tensorly.tenalg as TA
    warnings.simplefilter("ignore")
    n, fails = 0, []
    with contextlib.redirect_stdout(io.StringIO()):
        cs, extra = cases()
        base0 = extra["base"].copy()
        for name, f, a, k, allow in cs:
            backend = k.pop("_tenalg", None)
            if backend:
                TA.set_backend(backend)
            before = snapshot((a, k))
            raised = None
            try:
                f(*a, **k)
            except Exception as e:  # noqa
                raised = type(e).__name__
            finally:
                if backend:
                    TA.set_backend("core")
            n += 1
            after = (a, k)
            for i, (x, y) in enumerate(zip(after[0], before[0])):
                if f"args[{i}]" in allow:
                    continue
                d = equal(x, y, f"args[{i}]")
                if d:
                    fails.append(f"{name}{' (raised ' + raised + ')' if raised else ''}: {d}")
            d = equal(after[1], before[1], "kwargs")
            if d:
                fails.append(f"{name}{' (raised ' + raised + ')' if raised else ''}: {d}")
        if not np.array_equal(extra["base"], base0):
            fails.append("the base array behind the transposed / sliced view passed as data was modified")
    return n, fails


if __name__ == "__main__":
    print(run())
