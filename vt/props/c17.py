"""C17  Backend selection behaves as a per-thread stack over a shared default.

The REAL classmethods of BackendManager / TenalgBackendManager are run on a ghost subclass whose state is
symbolic (DESIGN §3 C17): the thread-local store is a z3 map Thread -> Option<Backend> accessed at a symbolic
current thread `me`; the shared default is a z3 constant of an uninterpreted sort; a sys.settrace line hook
havocs the shared default between any two lines of the method under proof (interference by other threads).
Every write performed by the method is logged; obligations are z3 validity queries over the final store and
the write log, i.e. they hold for all threads, all backends and all prior states — histories and schedules follow
by induction over operations (rely: only `me` writes local[me]; guarantee: proved frame obligation).
"""
import contextlib
import sys
import threading
import warnings

import z3

from ..oblig import Obligation, Verdict, PROVED, REFUTED, UNDECIDED

PID = "C17"
LEVEL = "proof"
USES_PRIMITIVES = False
TRUSTED_BASE = [
    "A5: single attribute / dict reads and writes are atomic under the GIL",
    "threading.local semantics: `local.__dict__` is the calling thread's private dict (modelled by the ghost store at thread `me`)",
    "contextlib.contextmanager (real one is used), CPython",
    "import of a backend module (importlib) registers the backend class in its registry (the real import is executed for the known names)",
]
ASSUMPTIONS = [
    "per-operation contracts compose to histories/schedules by induction (rely/guarantee): no operation writes local[t] for t != me — proved as a frame obligation on every operation",
    "interference: between any two lines of a manager method another thread may overwrite the shared default (havoc via sys.settrace)",
    "with-body of a context is havoc'd: arbitrary thread-local slot for `me` (and arbitrary shared default for the global flavour), which covers nested contexts",
    "the ghost manager owns a private name cache, except in the 'name of the other manager' obligations, which look names up in whatever cache object the real class uses; that the two real managers own separate state objects is a structural obligation of its own",
]
QUANTIFICATION = "forall threads, backends (uninterpreted sort), prior states of the thread-local map and shared default, interference schedules at line granularity, with-bodies; both managers; global and thread-local flavours"
EXPLANATION = ("Real classmethods executed on a ghost manager with z3-valued state; obligations are validity queries (unsat of the negation). "
               "A refuted obligation is replayed with real threads and dummy backends.")

Th = z3.DeclareSort("Thread")
Bk = z3.DeclareSort("Backend")
_fresh = [0]


def fresh(prefix, sort):
    _fresh[0] += 1
    return z3.Const(f"{prefix}{_fresh[0]}", sort)


class State:
    def __init__(self):
        self.me = z3.Const("me", Th)
        self.present = z3.Const("present0", z3.ArraySort(Th, z3.BoolSort()))
        self.val = z3.Const("val0", z3.ArraySort(Th, Bk))
        self.shared = z3.Const("shared0", Bk)
        self.p0, self.v0, self.s0 = self.present, self.val, self.shared
        self.log = []  # (target, term) writes by `me`
        self.objs = {}  # id(python object) -> z3 const
        self.unknown_writes = []
        self.concrete_local = None   # ("absent",) | ("present", object): scenario in which the entering thread's slot is known concretely (aliasing obligations)

    def active(self, present=None, val=None, shared=None):
        present = self.present if present is None else present
        val = self.val if val is None else val
        shared = self.shared if shared is None else shared
        return z3.If(z3.Select(present, self.me), z3.Select(val, self.me), shared)

    def term_of(self, obj):
        if hasattr(obj, "_vt_term"):
            return obj._vt_term
        k = id(obj)
        if k not in self.objs:
            self.objs[k] = (z3.Const(f"obj_{len(self.objs)}_{type(obj).__name__}", Bk), obj)
        return self.objs[k][0]


def make_ghost(which):
    """which: 'backend' | 'tenalg'.  Returns (GhostManagerClass, SymB class, state)."""
    warnings.simplefilter("ignore")
    if which == "backend":
        from tensorly.backend import BackendManager as base
        from tensorly.backend.core import Backend as inst_base
    else:
        from tensorly.tenalg import TenalgBackendManager as base
        from tensorly.tenalg.base_tenalg import TenalgBackend as inst_base
    st = State()

    class SymB(inst_base, backend_name=""):
        def __init__(self, term):
            self._vt_term = term

        @property
        def backend_name(self):
            return ("name-of", self._vt_term)

        def __getattr__(self, name):
            if name.startswith("_vt") or name.startswith("__"):
                raise AttributeError(name)
            t = self._vt_term
            return lambda *a, **k: ("called", t, name, a, k)

    class LocalView:
        """`threading.local().__dict__` of the thread that evaluated the attribute access (NOT of whoever uses it later)"""

        def __init__(self, th):
            self.th = th

        def get(self, key, default=None):
            if key != "backend":
                st.unknown_writes.append(("read-local", key))
                return default
            if st.concrete_local is not None and self.th is st.me and not any(t.startswith("local[me]") for t, _ in st.log):
                # identity-preserving reads for the aliasing scenarios (`is` tests in the code): the thread's slot is known to be empty / to hold this object
                return default if st.concrete_local[0] == "absent" else st.concrete_local[1]
            d = st.term_of(default) if default is not None else fresh("none", Bk)
            return SymB(z3.If(z3.Select(st.present, self.th), z3.Select(st.val, self.th), d))

        def __getitem__(self, key):
            return self.get(key)

        def __contains__(self, key):
            raise _Undecided("`in` test on the thread-local dict")

        def __setitem__(self, key, v):
            if key != "backend":
                st.unknown_writes.append(("local", key))
                return
            t = st.term_of(v)
            st.present = z3.Store(st.present, self.th, True)
            st.val = z3.Store(st.val, self.th, t)
            st.log.append(("local[me]" if self.th is st.me else "local[other]", t))

        def pop(self, key, *default):
            if key != "backend":
                st.unknown_writes.append(("local", key))
                return default[0] if default else None
            old = SymB(z3.Select(st.val, self.th))
            st.present = z3.Store(st.present, self.th, False)
            st.log.append(("local[me]-del" if self.th is st.me else "local[other]-del", None))
            return old

        def __delitem__(self, key):
            self.pop(key)

        def clear(self):
            self.pop("backend", None)

    class GhostLocal:
        __slots__ = ()

        @property
        def __dict__(self):
            return LocalView(st.me)

        def __setattr__(self, k, v):
            if k != "backend":
                st.unknown_writes.append(("local", k))
                return
            t = st.term_of(v)
            st.present = z3.Store(st.present, st.me, True)
            st.val = z3.Store(st.val, st.me, t)
            st.log.append(("local[me]", t))

        def __getattr__(self, k):
            if k == "backend":
                raise _Undecided("attribute read of thread-local .backend (may raise AttributeError)")
            raise AttributeError(k)

    class Meta(type(base)):
        def __setattr__(cls, k, v):
            if k == "_backend":
                st.shared = st.term_of(v)
                st.log.append(("shared", st.shared))
            elif k == "_default_backend":
                st.log.append(("default-name", v))
            elif k == "_vt_quiet":
                pass
            else:
                st.unknown_writes.append(("class-attr", k))
            type.__setattr__(cls, k, v)

    class Ghost(base, metaclass=Meta):
        _THREAD_LOCAL_DATA = GhostLocal()
        _loaded_backends = {}

    type.__setattr__(Ghost, "_backend", SymB(st.shared))
    st.Ghost, st.SymB = Ghost, SymB
    return Ghost, SymB, st


class _Undecided(Exception):
    pass


@contextlib.contextmanager
def interference(st, files=("tensorly/backend/__init__.py", "tensorly/tenalg/__init__.py")):
    """Between any two lines of a manager method, another thread may overwrite the shared default."""
    Ghost, SymB = st.Ghost, st.SymB

    def tracer(frame, event, arg):
        fn = frame.f_code.co_filename
        if not fn.endswith(files):
            return None
        if event == "line":
            st.shared = fresh("shared_h", Bk)
            type.__setattr__(Ghost, "_backend", SymB(st.shared))
        return tracer

    old = sys.gettrace()
    sys.settrace(tracer)
    try:
        yield
    finally:
        sys.settrace(old)


def valid(claim, *hyps):
    s = z3.Solver()
    s.set("timeout", 10000)
    for h in hyps:
        s.add(h)
    s.add(z3.Not(claim))
    r = s.check()
    if r == z3.unsat:
        return True, None
    if r == z3.sat:
        return False, str(s.model())[:400]
    return None, "unknown"


def others_untouched(st):
    t = z3.Const("t_other", Th)
    return z3.ForAll([t], z3.Implies(t != st.me, z3.And(z3.Select(st.present, t) == z3.Select(st.p0, t),
                                                        z3.Select(st.val, t) == z3.Select(st.v0, t))))


class GhostOb(Obligation):
    engine = "ghost-manager+z3"

    def __init__(self, which, name, fn, scenario=None, instance=None, clause=""):
        mgr = "tensorly.backend:BackendManager" if which == "backend" else "tensorly.tenalg:TenalgBackendManager"
        super().__init__(PID, f"{PID}/{mgr}/{name}", mgr, instance=dict(manager=which, **(instance or {})), clause=clause or name,
                         forall=["threads", "backends", "prior state", "interference schedule"], enumerated=["manager", "flavour", "argument kind"])
        self.which, self.fn, self.scenario = which, fn, scenario

    def run(self):
        try:
            Ghost, SymB, st = make_ghost(self.which)
            res = self.fn(Ghost, SymB, st)
        except _Undecided as e:
            return Verdict(UNDECIDED, "engine", str(e))
        fails = [r for r in res if r[1] is not True]
        if not fails:
            return Verdict(PROVED, "z3", "", extra=dict(queries=len(res)))
        label, ok, model = fails[0]
        if ok is None:
            return Verdict(UNDECIDED, "z3", f"{label}: solver unknown")
        wit = None
        if self.scenario is not None:
            try:
                okn, info = self.scenario()
                wit = dict(replayable=True, native_fails=not okn, observed=info, scenario=self.scenario.__name__, model=model)
            except Exception as e:  # noqa
                wit = dict(replayable=True, native_fails=False, observed=f"scenario harness error {type(e).__name__}: {e}", model=model)
        return Verdict(REFUTED, "z3", f"{label}: counter-model {model}", witness=wit)

    def replay(self, witness):
        return self.scenario()


# ------------------------------------------------------------------------------------------------ obligations on the ghost
def _check_frame(st, res, allowed):
    """writes by `me` are exactly to the allowed targets; no unknown shared state is touched; others' slots untouched"""
    targets = [t for t, _ in st.log]
    res.append(("a selection is never silently dropped (no deletion of the thread's slot)", "local[me]-del" not in targets, f"log={st.log}"))
    res.append((f"frame: writes {sorted(set(targets))} within allowed {sorted(allowed)}", set(targets) <= set(allowed), f"log={st.log}"))
    res.append(("frame: no write to unmodelled shared state", not st.unknown_writes, f"{st.unknown_writes}"))
    res.append(("frame: no write to another thread's slot",) + valid(others_untouched(st)))


def ob_current(Ghost, SymB, st):
    res = []
    with interference(st):
        b = Ghost.current_backend()
    # result is the thread's own selection if any, else the shared default *at the time of the read*
    shared_reads = [st.s0] + [z3.Const(f"shared_h{i}", Bk) for i in range(1, _fresh[0] + 1)]
    claim = z3.Or([st.term_of(b) == z3.If(z3.Select(st.p0, st.me), z3.Select(st.v0, st.me), s) for s in shared_reads])
    res.append(("current_backend() == local[me] ?? shared",) + valid(claim))
    _check_frame(st, res, [])
    Ghost2, SymB2, st2 = make_ghost("backend" if "BackendManager" == Ghost.__mro__[1].__name__ else "tenalg")
    n = Ghost2.get_backend()
    res.append(("get_backend() is the name of the active backend", isinstance(n, tuple) and n[0] == "name-of" and valid(n[1] == st2.active())[0], repr(n)))
    return res


def _set_instance(local, alias=None):
    def f(Ghost, SymB, st):
        res = []
        hyps = []
        if alias == "shared-default":
            # the argument IS the object currently published as the shared default (identity / equality tests in the code take that branch)
            b = Ghost.__dict__["_backend"]
            import contextlib as _cl
            ctxm = _cl.nullcontext()
        elif alias == "shared-default, thread never selected":
            # ... and the thread has no selection of its own, so that object is also what current_backend() returns, identically
            b = Ghost.__dict__["_backend"]
            st.concrete_local = ("absent",)
            hyps = [z3.Not(z3.Select(st.p0, st.me))]
            import contextlib as _cl
            ctxm = _cl.nullcontext()
        elif alias == "own private selection":
            # the argument IS the object the thread already holds privately (selecting it again - globally - must still publish it)
            b = SymB(z3.Const("b", Bk))
            st.concrete_local = ("present", b)
            hyps = [z3.Select(st.p0, st.me), z3.Select(st.v0, st.me) == b._vt_term]
            import contextlib as _cl
            ctxm = _cl.nullcontext()
        else:
            b = SymB(z3.Const("b", Bk))
            ctxm = interference(st)
        with ctxm:
            Ghost.set_backend(b, local_threadsafe=local)
        res.append(("local[me] == b after set_backend",) + valid(z3.And(z3.Select(st.present, st.me), z3.Select(st.val, st.me) == b._vt_term), *hyps))
        res.append(("active(me) == b",) + valid(st.active() == b._vt_term, *hyps))
        if local:
            _check_frame(st, res, ["local[me]"])
        else:
            _check_frame(st, res, ["local[me]", "shared", "default-name"])
            sh = [t for k, t in st.log if k == "shared"]
            res.append(("global flavour publishes b as the shared default", len(sh) == 1 and valid(sh[0] == b._vt_term)[0], f"log={st.log}"))
        return res
    return f


def _known_names(which):
    return ["numpy"] if which == "backend" else ["core", "einsum"]


def _set_name(which, local, preload):
    def f(Ghost, SymB, st):
        res = []
        name = _known_names(which)[-1]
        if preload:
            Ghost.set_backend(name, local_threadsafe=True)
            inst0 = Ghost._loaded_backends.get(name)
            res.append(("first selection registers the loaded instance", inst0 is not None, ""))
            st.log.clear()
        with interference(st):
            Ghost.set_backend(name, local_threadsafe=local)
        inst = Ghost._loaded_backends.get(name)
        res.append(("named backend is loaded and registered", inst is not None and getattr(inst, "backend_name", None) == name, repr(inst)))
        if preload:
            res.append(("already-loaded backend instance is reused", inst is inst0, ""))
        if inst is not None:
            res.append(("local[me] == loaded instance",) + valid(z3.And(z3.Select(st.present, st.me), z3.Select(st.val, st.me) == st.term_of(inst))))
        _check_frame(st, res, ["local[me]"] if local else ["local[me]", "shared", "default-name"])
        if not local:
            res.append(("default name recorded", ("default-name", name) in st.log, f"log={st.log}"))
        return res
    return f


def _set_unknown(arg, local, real_cache=False):
    def f(Ghost, SymB, st):
        res = []
        raised = None
        if real_cache:
            # the ghost looks names up in the cache the REAL manager class uses (whatever object that is), in a process in
            # which both real managers have loaded their backends: a name only the OTHER manager knows must still be rejected
            type.__delattr__(Ghost, "_loaded_backends")
        try:
            with interference(st):
                Ghost.set_backend(arg, local_threadsafe=local)
        except ValueError as e:
            raised = e
        except Exception as e:  # noqa
            raised = e
        res.append(("rejected selection raises ValueError", isinstance(raised, ValueError), repr(raised)))
        res.append(("rejected selection performs no write", st.log == [] and not st.unknown_writes, f"log={st.log}"))
        res.append(("local[me] unchanged",) + valid(z3.And(z3.Select(st.present, st.me) == z3.Select(st.p0, st.me), z3.Select(st.val, st.me) == z3.Select(st.v0, st.me))))
        if not real_cache:
            res.append(("nothing registered under the rejected name", arg not in Ghost._loaded_backends if isinstance(arg, (str, int, type(None))) else True, ""))
        return res
    return f


def _state_attributes():
    """class attributes of the manager that its methods mutate IN PLACE (subscript / attribute stores below `cls.X`), read off
    the real source: these objects are the manager's state and each concrete manager must own its own"""
    import ast
    import inspect
    import tensorly.backend as B
    tree = ast.parse(inspect.getsource(B))
    out = set()

    def root(n):
        depth = 0
        while isinstance(n, (ast.Attribute, ast.Subscript)):
            if isinstance(n, ast.Attribute) and isinstance(n.value, ast.Name) and n.value.id == "cls":
                return n.attr, depth
            n = n.value
            depth += 1
        return None, 0
    for n in ast.walk(tree):
        if isinstance(n, (ast.Attribute, ast.Subscript)) and isinstance(n.ctx, (ast.Store, ast.Del)):
            a, depth = root(n)
            if a is not None and depth >= 1:
                out.add(a)
    return sorted(out)


def ob_independent(Ghost, SymB, st):
    """'and, independently, the active tensor-algebra backend': the two managers share no state object"""
    from tensorly.backend import BackendManager
    from tensorly.tenalg import TenalgBackendManager
    res = []
    attrs = _state_attributes()
    res.append(("state attributes found in the source (in-place mutated class attributes)", set(attrs) >= {"_loaded_backends", "_THREAD_LOCAL_DATA"}, repr(attrs)))
    for a in attrs:
        own = a in TenalgBackendManager.__dict__ and a in BackendManager.__dict__
        res.append((f"each manager owns its {a}", own, f"TenalgBackendManager.__dict__ has {a}: {a in TenalgBackendManager.__dict__}"))
        res.append((f"{a} of the two managers are distinct objects", getattr(TenalgBackendManager, a) is not getattr(BackendManager, a), ""))
    return res


class _Boom(Exception):
    pass


def _context(local, exceptional, arg="instance", which=None):
    def f(Ghost, SymB, st):
        res = []
        b = SymB(z3.Const("b", Bk)) if arg == "instance" else _known_names(which)[0]
        entry_active_candidates = None
        try:
            with interference(st):
                cm = Ghost.backend_context(b, local_threadsafe=local)
                # value of active(me) at entry: own slot if present, else the shared default read at entry (any interleaving)
                cm.__enter__()
                n_entry = _fresh[0]
                inside = Ghost.current_backend()
                bt = st.term_of(Ghost._loaded_backends[b]) if arg != "instance" else b._vt_term
                res.append(("inside the context the entering thread uses the requested backend",) + valid(st.term_of(inside) == bt))
                entry_log = list(st.log)
                # ---- with-body: havoc.  The body may run any operations of `me` (incl. nested contexts): arbitrary own slot;
                #      for the global flavour also an arbitrary shared default.  Thread-local bodies do not write the shared default.
                st.present = z3.Store(st.present, st.me, z3.Const("body_present", z3.BoolSort()))
                st.val = z3.Store(st.val, st.me, z3.Const("body_val", Bk))
                if not local:
                    st.shared = z3.Const("body_shared", Bk)
                    type.__setattr__(Ghost, "_backend", SymB(st.shared))
                st.log.clear()
                if exceptional:
                    try:
                        cm.__exit__(_Boom, _Boom("body failed"), None)
                    except _Boom:
                        pass
                else:
                    cm.__exit__(None, None, None)
        except _Undecided:
            raise
        except Exception as e:  # noqa
            res.append(("context enters and exits without raising", False, f"{type(e).__name__}: {e}"))
            return res
        exit_log = list(st.log)
        # entry value: own slot at entry if present, else some shared default value observed during entry
        shared_reads = [st.s0] + [z3.Const(f"shared_h{i}", Bk) for i in range(1, n_entry + 1)]
        olds = [z3.If(z3.Select(st.p0, st.me), z3.Select(st.v0, st.me), s) for s in shared_reads]
        res.append(("on exit active(me) is the backend active at entry",) + valid(z3.Or([st.active() == o for o in olds])))
        st.log = entry_log + exit_log
        if local:
            _check_frame(st, res, ["local[me]"])
            res.append(("thread-local context never writes the shared default (entry or exit)", not any(k in ("shared", "default-name") for k, _ in st.log), f"log={st.log}"))
        else:
            _check_frame(st, res, ["local[me]", "shared", "default-name"])
            sh = [t for k, t in exit_log if k == "shared"]
            res.append(("global context restores the shared default it replaced", len(sh) == 1 and valid(z3.Or([sh[0] == o for o in olds]))[0], f"log={exit_log}"))
        return res
    return f


def _context_unknown(local):
    def f(Ghost, SymB, st):
        res = []
        raised = None
        try:
            with interference(st):
                with Ghost.backend_context("no-such-backend", local_threadsafe=local):
                    res.append(("body must not run", False, ""))
        except ValueError as e:
            raised = e
        except Exception as e:  # noqa
            raised = e
        res.append(("unknown name rejected at entry with ValueError", isinstance(raised, ValueError), repr(raised)))
        res.append(("no write performed", st.log == [] and not st.unknown_writes, f"log={st.log}"))
        return res
    return f


def _nested(local_outer, local_inner):
    def f(Ghost, SymB, st):
        res = []
        b1, b2 = SymB(z3.Const("b1", Bk)), SymB(z3.Const("b2", Bk))
        a0 = st.active()
        try:
            with Ghost.backend_context(b1, local_threadsafe=local_outer):
                with Ghost.backend_context(b2, local_threadsafe=local_inner):
                    res.append(("inner context active == b2",) + valid(st.active() == b2._vt_term))
                res.append(("after inner exit active == b1",) + valid(st.active() == b1._vt_term))
            res.append(("after outer exit active == entry value",) + valid(st.active() == a0))
        except Exception as e:  # noqa
            res.append(("nested contexts exit without raising", False, f"{type(e).__name__}: {e}"))
        if local_outer and local_inner:
            res.append(("nested thread-local contexts never write the shared default", not any(k in ("shared", "default-name") for k, _ in st.log), f"log={st.log}"))
        res.append(("frame: no write to another thread's slot",) + valid(others_untouched(st)))
        return res
    return f


def ob_dispatch(Ghost, SymB, st):
    res = []
    # the closure is created by some thread t_create (e.g. at import time) and later called by the thread `me`
    me_call = st.me
    st.me = z3.Const("t_create", Th)
    w = Ghost.dispatch_backend_method("some_function", lambda *a, **k: None)
    st.me = me_call
    # state changes after the closure was created
    b = SymB(z3.Const("b", Bk))
    Ghost.set_backend(b, local_threadsafe=True)
    with interference(st):
        out = w(1, 2, key=3)
    ok = isinstance(out, tuple) and out[0] == "called" and out[2] == "some_function" and out[3] == (1, 2) and out[4] == {"key": 3}
    res.append(("dispatched call is forwarded with its arguments to a backend method of the same name", ok, repr(out)[:200]))
    if ok:
        res.append(("... of the backend active in the calling thread at call time",) + valid(out[1] == b._vt_term))
    Ghost2, SymB2, st2 = make_ghost("backend" if "BackendManager" == Ghost.__mro__[1].__name__ else "tenalg")
    me2 = st2.me
    st2.me = z3.Const("t_create", Th)
    w2 = Ghost2.dispatch_backend_method("f", lambda *a: None)
    st2.me = me2
    with interference(st2):
        out2 = w2()
    shared_reads = [st2.s0] + [z3.Const(f"shared_h{i}", Bk) for i in range(1, _fresh[0] + 1)]
    res.append(("without own selection the shared default (at call time) is used",) + valid(z3.Or([out2[1] == z3.If(z3.Select(st2.p0, st2.me), z3.Select(st2.v0, st2.me), s) for s in shared_reads])))
    return res


def ob_dispatch_installed(which):
    def f(Ghost, SymB, st):
        """every public dispatched function of the real manager module is a closure produced by dispatch_backend_method"""
        base = Ghost.__mro__[1]
        tmpl = base.dispatch_backend_method("x", lambda: None).__code__
        bad = []
        for name in base._functions:
            fn = base.__dict__.get(name)
            fn = getattr(fn, "__func__", fn)
            if getattr(fn, "__code__", None) is not tmpl:
                bad.append(name)
        return [("all dispatched names are late-binding closures", not bad, f"statically bound: {bad}")]
    return f


# ------------------------------------------------------------------------------------------------ native scenarios (replay)
def _dummy_backends():
    import tensorly as tl
    from tensorly.backend.core import Backend
    warnings.simplefilter("ignore")

    class DX(Backend, backend_name=""):
        backend_name = "dummy-x"

    class DY(Backend, backend_name=""):
        backend_name = "dummy-y"
    return DX(), DY()


def _restore(fn):
    def g():
        import tensorly as tl
        import tensorly.tenalg as tenalg
        from tensorly.backend import BackendManager
        from tensorly.tenalg import TenalgBackendManager
        saved = (BackendManager._backend, BackendManager._default_backend, dict(BackendManager._THREAD_LOCAL_DATA.__dict__),
                 TenalgBackendManager._backend, TenalgBackendManager._default_backend, dict(TenalgBackendManager._THREAD_LOCAL_DATA.__dict__))
        try:
            return fn()
        finally:
            BackendManager._backend, BackendManager._default_backend = saved[0], saved[1]
            BackendManager._THREAD_LOCAL_DATA.__dict__.clear()
            BackendManager._THREAD_LOCAL_DATA.__dict__.update(saved[2])
            TenalgBackendManager._backend, TenalgBackendManager._default_backend = saved[3], saved[4]
            TenalgBackendManager._THREAD_LOCAL_DATA.__dict__.clear()
            TenalgBackendManager._THREAD_LOCAL_DATA.__dict__.update(saved[5])
    g.__name__ = fn.__name__
    return g


def _in_thread(f):
    out = {}

    def run():
        try:
            out["v"] = f()
        except BaseException as e:  # noqa
            out["e"] = e
    t = threading.Thread(target=run)
    t.start()
    t.join()
    if "e" in out:
        raise out["e"]
    return out.get("v")


@_restore
def scenario_local_context_backend():
    """thread A holds a private backend X, enters/exits a thread-local context Y; an unrelated thread must still see the old default"""
    import tensorly as tl
    X, Y = _dummy_backends()
    before = _in_thread(lambda: tl.get_backend())

    def a():
        tl.set_backend(X, local_threadsafe=True)
        with tl.backend_context(Y, local_threadsafe=True):
            pass
        return tl.get_backend()
    a_after = _in_thread(a)
    after = _in_thread(lambda: tl.get_backend())
    ok = before == after and a_after == "dummy-x"
    return ok, f"unrelated thread saw default {before!r} before and {after!r} after thread A's thread-local context; A restored to {a_after!r}"


@_restore
def scenario_context_tenalg(local=False):
    import tensorly.tenalg as tenalg
    try:
        def a():
            with tenalg.backend_context("einsum", local_threadsafe=local):
                inside = tenalg.get_backend()
            return inside, tenalg.get_backend()
        before = tenalg.get_backend()
        inside, after = _in_thread(a) if local else a()
        return (inside == "einsum" and after == before), f"inside={inside!r} after={after!r} before={before!r}"
    except Exception as e:  # noqa
        return False, f"tenalg.backend_context('einsum') raised {type(e).__name__}: {e}"


@_restore
def scenario_local_context_tenalg():
    import tensorly.tenalg as tenalg
    before = _in_thread(lambda: tenalg.get_backend())
    try:
        def a():
            with tenalg.backend_context("einsum", local_threadsafe=True):
                pass
        _in_thread(a)
    except Exception as e:  # noqa
        return False, f"thread-local tenalg context raised {type(e).__name__}: {e}"
    after = _in_thread(lambda: tenalg.get_backend())
    return before == after, f"unrelated thread saw tenalg default {before!r} before and {after!r} after"


@_restore
def scenario_unknown_backend():
    import tensorly as tl
    before = (tl.get_backend(), _in_thread(lambda: tl.get_backend()))
    try:
        tl.set_backend("no-such-backend")
        return False, "unknown backend name accepted"
    except ValueError:
        pass
    after = (tl.get_backend(), _in_thread(lambda: tl.get_backend()))
    return before == after, f"before={before} after={after}"


@_restore
def scenario_other_managers_name():
    import tensorly as tl
    import tensorly.tenalg as tenalg
    before = (tl.get_backend(), tenalg.get_backend(), _in_thread(lambda: (tl.get_backend(), tenalg.get_backend())))
    accepted = []
    for mgr, label, name in ((tl, "tl", "core"), (tl, "tl", "einsum"), (tenalg, "tenalg", "numpy")):
        for local in (True, False):
            try:
                mgr.set_backend(name, local_threadsafe=local)
                accepted.append(f"{label}.set_backend({name!r}, local_threadsafe={local}) accepted")
            except ValueError:
                pass
            except Exception as e:  # noqa
                accepted.append(f"{label}.set_backend({name!r}) raised {type(e).__name__}")
    after = (tl.get_backend(), tenalg.get_backend(), _in_thread(lambda: (tl.get_backend(), tenalg.get_backend())))
    return not accepted and before == after, f"{accepted} before={before} after={after}"


@_restore
def scenario_local_same_as_default():
    """a thread selects (thread-locally) the backend that happens to be the shared default; a later global change by another
    thread must not change what the first thread uses"""
    import tensorly.tenalg as tenalg
    import threading as th
    tenalg.set_backend("core")
    step1, step2 = th.Event(), th.Event()
    out = {}

    def a():
        tenalg.set_backend("core", local_threadsafe=True)
        step1.set()
        step2.wait(5)
        out["a"] = tenalg.get_backend()
    ta = th.Thread(target=a)
    ta.start()
    step1.wait(5)
    _in_thread(lambda: tenalg.set_backend("einsum"))
    step2.set()
    ta.join()
    return out.get("a") == "core", f"thread that selected 'core' thread-locally observes {out.get('a')!r} after another thread published 'einsum'"


@_restore
def scenario_private_then_global():
    """a thread holds `einsum` privately and then selects it globally: threads without a selection must now observe it"""
    import tensorly.tenalg as tenalg
    tenalg.set_backend("core")
    def a():
        tenalg.set_backend("einsum", local_threadsafe=True)
        tenalg.set_backend(tenalg.current_backend())          # the very object it holds, global flavour
        return tenalg.get_backend()
    mine = _in_thread(a)
    other = _in_thread(lambda: tenalg.get_backend())
    return other == "einsum", f"the selecting thread observes {mine!r}; a thread without a selection observes {other!r} after the global selection"


@_restore
def scenario_dispatch_other_thread():
    """a dispatched function called in a worker thread with a thread-local selection must run the worker's backend"""
    import tensorly.tenalg as tenalg
    import numpy as np
    tenalg.set_backend("core")
    tag = {}
    def worker():
        tenalg.set_backend("einsum", local_threadsafe=True)
        be = tenalg.current_backend()
        orig = type(be).__dict__["kronecker"]
        f = orig.__func__ if hasattr(orig, "__func__") else orig
        def tagged(*a, **k):
            tag["ran"] = "einsum"
            return f(*a, **k)
        type(be).register_method("kronecker", tagged)
        try:
            tenalg.kronecker([np.eye(2), np.eye(2)])
        finally:
            setattr(type(be), "kronecker", orig)
        return tenalg.get_backend()
    name = _in_thread(worker)
    return tag.get("ran") == "einsum", f"worker selected {name!r} thread-locally; dispatched kronecker ran on {tag.get('ran', 'another backend')!r}"


def obligations(tier):
    obs = []
    for which in ("backend", "tenalg"):
        loc_ctx_scn = scenario_local_context_backend if which == "backend" else scenario_local_context_tenalg
        glob_ctx_scn = None if which == "backend" else scenario_context_tenalg
        obs.append(GhostOb(which, "current_backend/get_backend: own selection else shared default", ob_current, clause="read contract"))
        for local in (True, False):
            fl = "thread-local" if local else "global"
            obs.append(GhostOb(which, f"set_backend(instance) [{fl}]", _set_instance(local), instance=dict(flavour=fl, argument="instance"), clause="write contract + frame"))
            obs.append(GhostOb(which, f"set_backend(the current shared default instance) [{fl}]", _set_instance(local, "shared-default"), scenario=scenario_local_same_as_default,
                               instance=dict(flavour=fl, argument="instance-is-shared-default"), clause="write contract + frame (aliasing case)"))
            obs.append(GhostOb(which, f"set_backend(the shared default instance, by a thread that never selected: the backend it already observes) [{fl}]", _set_instance(local, "shared-default, thread never selected"),
                               scenario=scenario_local_same_as_default, instance=dict(flavour=fl, argument="instance-is-what-the-thread-observes"), clause="write contract + frame (aliasing case)"))
            obs.append(GhostOb(which, f"set_backend(the instance the thread already holds privately) [{fl}]", _set_instance(local, "own private selection"),
                               scenario=scenario_private_then_global, instance=dict(flavour=fl, argument="instance-is-own-private-selection"), clause="write contract + frame (aliasing case)"))
            for preload in (False, True):
                obs.append(GhostOb(which, f"set_backend(known name, {'already loaded' if preload else 'not yet loaded'}) [{fl}]", _set_name(which, local, preload),
                                   instance=dict(flavour=fl, argument="known-name", loaded=preload), clause="resolution through load_backend + write contract"))
            for arg in ("no-such-backend", None, 42, ""):
                obs.append(GhostOb(which, f"set_backend({arg!r}) rejected [{fl}]", _set_unknown(arg, local), scenario=scenario_unknown_backend,
                                   instance=dict(flavour=fl, argument=repr(arg)), clause="rejected selection leaves every thread unchanged"))
            for arg in _known_names("tenalg" if which == "backend" else "backend"):
                obs.append(GhostOb(which, f"set_backend({arg!r}: a name of the other manager, loaded there) rejected [{fl}]", _set_unknown(arg, local, real_cache=True),
                                   scenario=scenario_other_managers_name, instance=dict(flavour=fl, argument=repr(arg)), clause="rejected selection leaves every thread unchanged; the managers are independent"))
            for exceptional in (False, True):
                ex = "exceptional exit" if exceptional else "normal exit"
                obs.append(GhostOb(which, f"backend_context(instance) {ex} [{fl}]", _context(local, exceptional, "instance", which),
                                   scenario=loc_ctx_scn if local else glob_ctx_scn, instance=dict(flavour=fl, exit=ex, argument="instance"),
                                   clause="context restores the entering thread's backend; thread-local flavour never writes the shared default"))
                obs.append(GhostOb(which, f"backend_context(known name) {ex} [{fl}]", _context(local, exceptional, "name", which),
                                   scenario=loc_ctx_scn if local else glob_ctx_scn, instance=dict(flavour=fl, exit=ex, argument="known-name"),
                                   clause="context restores the entering thread's backend; thread-local flavour never writes the shared default"))
            obs.append(GhostOb(which, f"backend_context(unknown name) [{fl}]", _context_unknown(local), scenario=scenario_unknown_backend,
                               instance=dict(flavour=fl, argument="unknown-name"), clause="rejected at entry, no write"))
        for lo in (True, False):
            for li in (True, False):
                obs.append(GhostOb(which, f"nested contexts outer={'local' if lo else 'global'} inner={'local' if li else 'global'}", _nested(lo, li),
                                   scenario=loc_ctx_scn if (lo and li) else glob_ctx_scn, instance=dict(outer_local=lo, inner_local=li), clause="nested contexts restore in LIFO order"))
        obs.append(GhostOb(which, "dispatch closure looks the backend up at call time", ob_dispatch, scenario=scenario_dispatch_other_thread, clause="dynamic dispatch"))
        obs.append(GhostOb(which, "all public functions are dispatched dynamically", ob_dispatch_installed(which), clause="dynamic dispatch installed"))
    obs.append(GhostOb("tenalg", "the two managers share no state object", ob_independent, scenario=scenario_other_managers_name, clause="independence of the computational and the tensor-algebra selection"))
    return obs


def canaries(tier):
    def bad(Ghost, SymB, st):
        # claim that a global set_backend leaves the shared default unchanged: must be refuted
        b = SymB(z3.Const("b", Bk))
        Ghost.set_backend(b)
        return [("canary: global set_backend does not change shared",) + valid(st.shared == st.s0)]
    return [GhostOb("backend", "canary/global-set-leaves-shared-unchanged", bad, clause="canary")]
