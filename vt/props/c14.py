"""C14  Warm starts begin at the supplied decomposition; fixed modes stay fixed.

E1-generic: the real decomposition functions are run symbolically on a user-supplied initialisation with symbolic weights
(of any sign) — zero iteration budget: to_tensor(result) ≡ to_tensor(init); fixed modes: in the loop-cut body started from
an arbitrary iterate the factor of every fixed mode is the very same object before and after a sweep (no assignment, no
arithmetic), and the suffix returns it.
"""
from ..oblig import GOb
from ..symint import atom, EngineError, sprod
from ..loopcut import LoopCut
from ..iterative import stubbed, make_svd_stub
from .. import specs as SP
from .. import gtensor as G

PID = "C14"
LEVEL = "proof"
TRUSTED_BASE = [
    "numpy primitive contracts (vt.primcheck each run)",
    "qr contract (B = QR, QᵀQ = I) for the CP -> PARAFAC2 conversion; solver results havoc'd in sweeps",
    "CPython; shadows; loop extraction; the VC generator (canary + soundness monitor)",
]
ASSUMPTIONS = [
    "floats treated as reals (A1)",
    "CP rank is concrete (2, 3) where the code takes a product over the weights; symbolic otherwise; order enumerated (2..3 quick, 2..4 thorough)",
    "Tucker with fixed factors: the represented tensor is unchanged at zero budget under the stated side condition that the fixed factors have orthonormal columns",
    "the clause 'absorbing the weights into a factor yields the same subsequent iterates' (a relation between two runs) is not covered by an obligation",
]
QUANTIFICATION = "forall mode sizes, data, initial factors, weights of either sign, current iterate (fixed-mode clause); enumerated: algorithm, order, fixed-mode subsets, rank where noted"
EXPLANATION = "Zero-budget runs of the real functions compared as tensors with the supplied initialisation; object identity of fixed factors through loop-cut sweeps."


def dims(N, p="n"):
    return [atom(f"{p}{k}") for k in range(N)]


def obligations(tier):
    import tensorly.decomposition._cp as _cp
    import tensorly.decomposition._nn_cp as _nn
    import tensorly.decomposition._constrained_cp as _cc
    import tensorly.decomposition._tucker as _tk
    import tensorly.decomposition._parafac2 as _p2
    import tensorly.parafac2_tensor as p2t
    from tensorly.cp_tensor import CPTensor
    from tensorly.tucker_tensor import TuckerTensor

    maxN = 3 if tier == "quick" else 4
    obs = []

    def add(fn, tag, setup, call, post, instance, clause, **kw):
        obs.append(GOb(PID, f"{PID}/{fn}/{clause}[{tag}]", f"tensorly.decomposition.{fn}", setup, call, post, tenalg="core", instance=instance, clause=clause,
                       forall=["mode sizes", "data", "initial factors", "weights (any sign)"], enumerated=list(instance), **kw))

    # ====================================================================== CP family: zero budget
    def cp_setup(N, Rk, wts):
        def setup(S):
            n = dims(N)
            return dict(_S=S, X=S.input("X", n), w=S.input("w", [Rk]) if wts else None, fs=[S.input(f"U{k}", [n[k], Rk]) for k in range(N)], Rk=Rk)
        return setup
    cp_algos = [("_cp:initialize_cp", lambda I, init: tuple(_cp.initialize_cp(I["X"], I["Rk"], init=init)), dict()),
                ("_cp:parafac", lambda I, init: tuple(_cp.parafac(I["X"], I["Rk"], n_iter_max=0, init=init)), dict()),
                ("_nn_cp:non_negative_parafac", lambda I, init: tuple(_nn.non_negative_parafac(I["X"], I["Rk"], n_iter_max=0, init=init)), dict(nonneg=True)),
                ("_nn_cp:non_negative_parafac_hals", lambda I, init: tuple(_nn.non_negative_parafac_hals(I["X"], I["Rk"], n_iter_max=0, init=init)), dict(nonneg=True)),
                ("_constrained_cp:initialize_constrained_parafac", lambda I, init: tuple(_cc.initialize_constrained_parafac(I["X"], I["Rk"], init=init)), dict()),
                ("_constrained_cp:constrained_parafac", lambda I, init: tuple(_cc.constrained_parafac(I["X"], I["Rk"], n_iter_max=0, init=init, l2_square_reg=0.1)), dict())]
    for N in range(2, maxN + 1):
        for fn, run, opts in cp_algos:
            for wkind, Rk in (("none", atom("R")), ("symbolic", 2), ("symbolic", 3)):
                if wkind == "symbolic" and Rk == 3 and N > 2 and tier == "quick":
                    continue
                for form in ("tuple", "CPTensor"):
                    if form == "CPTensor" and (N > 2 or wkind == "none"):
                        continue
                    def call(I, run=run, form=form):
                        init = (I["w"], list(I["fs"]))
                        if form == "CPTensor":
                            init = CPTensor(init)
                        return run(I, init)
                    def post(S, I, r, opts=opts):
                        w2, fs2 = r
                        return [("to_tensor(result at zero budget) ≡ to_tensor(init)", SP.cp_to_tensor(S, w2, fs2), SP.cp_to_tensor(S, I["w"], I["fs"]))]
                    add(fn, f"N={N},weights={wkind},rank={Rk},{form}", cp_setup(N, Rk, wkind != "none"), call, post,
                        dict(order=N, weights=wkind, rank=str(Rk), init_form=form), "zero-budget result represents the supplied initialisation")
    # ---- weight absorption (CP family): every routine starts its sweeps from the output of its initialiser, so equal initialiser outputs give equal iterates
    for N in range(2, maxN + 1):
        for fn, init_fn in (("_cp:initialize_cp", _cp.initialize_cp), ("_constrained_cp:initialize_constrained_parafac", _cc.initialize_constrained_parafac)):
            for Rk in (2, 3):
                def call(I, init_fn=init_fn):
                    S = I["_S"]
                    a = init_fn(I["X"], I["Rk"], init=(I["w"], list(I["fs"])))
                    absorbed = list(I["fs"][:-1]) + [S.einsum("ir,r->ir", I["fs"][-1], I["w"])]
                    b = init_fn(I["X"], I["Rk"], init=(None, absorbed))
                    return dict(a=(a.weights, list(a.factors)), b=(b.weights, list(b.factors)))
                def post(S, I, r):
                    ones = S.ones([S.shape(I["w"])[0]])
                    return [("same starting factors from the weighted and the weight-absorbed initialisation", list(r["a"][1]), list(r["b"][1])),
                            ("same starting weights", r["a"][0] if r["a"][0] is not None else ones, r["b"][0] if r["b"][0] is not None else ones)]
                add(fn, f"N={N},rank={Rk}", cp_setup(N, Rk, True), call, post, dict(order=N, rank=Rk),
                    "a start with weights and the same start with the weights absorbed into the last factor give the same starting point")
    # ====================================================================== CP family: fixed modes are never touched by a sweep
    def fixed_body(func, module, I, fixed, kwargs, extra_stubs=None):
        S = I["_S"]
        cut = LoopCut(func)
        with stubbed(module, **(extra_stubs or {})):
            st = cut.prefix(I["X"], I["Rk"], init=(I["w"], list(I["fs"])), fixed_modes=list(fixed), **kwargs)
            if isinstance(st, tuple) and st[0] == "return":
                return dict(early=st[1])
            before = list(st["factors"])
            st["factors"] = list(before)
            st["rec_errors"] = [S.input("e_prev2", []), S.input("e_prev1", [])]
            kind, st2 = cut.body(st, 1)
            ret = cut.suffix(st2)
            ret = ret[0] if isinstance(ret, tuple) and not isinstance(ret, CPTensor) and len(ret) == 2 and isinstance(ret[1], list) and not G.GTensor in map(type, ret[1][:0]) and isinstance(ret[0], CPTensor) else ret
        return dict(before=before, after=list(st2["factors"]), returned=list(ret.factors), supplied=list(I["fs"]))
    def hals_stub(UtM, UtU, V=None, **kw):
        return G.opaque_tensor("HALS", G.axis_sizes(V), V.dtype) if isinstance(V, G.GTensor) else __import__("tensorly").solvers.nnls.hals_nnls(UtM, UtU, V, **kw)
    def admm_stub(UtM, UtU, x, dual_var, **kw):
        if isinstance(x, G.GTensor):
            return (G.opaque_tensor("ADMMX", list(x.shape), x.dtype), G.opaque_tensor("ADMMAUX", [x.shape[1], x.shape[0]], G._result_dtype(UtM, UtU, x, dual_var)), G.opaque_tensor("ADMMDUAL", list(x.shape), x.dtype))
        from tensorly.solvers.admm import admm as real
        return real(UtM, UtU, x, dual_var, **kw)
    fixed_algos = [("_cp:parafac", _cp.parafac, _cp, dict(return_errors=True), None, False),
                   ("_nn_cp:non_negative_parafac", _nn.non_negative_parafac, _nn, dict(return_errors=True), None, True),
                   ("_nn_cp:non_negative_parafac_hals", _nn.non_negative_parafac_hals, _nn, dict(return_errors=True), dict(hals_nnls=hals_stub), True),
                   ("_constrained_cp:constrained_parafac", _cc.constrained_parafac, _cc, dict(return_errors=True, l2_square_reg=0.1), dict(admm=admm_stub), False)]
    for N in range(3, maxN + 1):
        for fn, func, module, kwargs, stubs, nonneg in fixed_algos:
            # listings that are unsorted or name the last mode: the last mode is documented as 'not supported, will not be fixed'
            # (a warning), every other listed mode must still be returned as supplied
            for fixed in ([0], [1], [0, 1], [1, 0], [N - 1, 0], [N - 1, 1], [0, N - 1]) + (([0, 2], [3, 1, 0]) if N == 4 else ()):
                if N - 1 in fixed and fn != "_cp:parafac" and tier == "quick" and fixed != [N - 1, 0]:
                    continue
                def call(I, func=func, module=module, fixed=fixed, kwargs=kwargs, stubs=stubs):
                    return fixed_body(func, module, I, fixed, dict(kwargs), stubs)
                def post(S, I, r, fixed=fixed, nonneg=nonneg, N=N, fn=fn):
                    out = []
                    for m in fixed:
                        if m == N - 1 and fn != "_nn_cp:non_negative_parafac_hals":
                            continue  # refused with a warning by these routines: stated separately below (known finding)
                        out.append((f"mode {m}: the sweep does not touch the fixed factor (same object before and after)", r["after"][m] is r["before"][m] if S.name == "sym" else True, True))
                        out.append((f"mode {m}: returned factor ≡ supplied factor", r["returned"][m], I["fs"][m]))
                    return out
                add(fn, f"N={N},fixed_modes={fixed}", cp_setup(N, atom("R"), False), call, post, dict(order=N, fixed_modes=fixed), "fixed modes are returned as supplied (all sweeps)")
                if fn in ("_cp:parafac", "_constrained_cp:constrained_parafac") and N == 3:
                    add(fn, f"N={N},fixed_modes={fixed},non-unit weights", cp_setup(N, 2, True), call, post, dict(order=N, fixed_modes=fixed, weights="symbolic", rank=2),
                        "fixed modes are returned as supplied (all sweeps)")
    # the last mode: CP-ALS, multiplicative-update NN-CP and constrained CP refuse to fix it (documented, with a warning) because their
    # error computation needs the last mode's MTTKRP; the property quantifies over all subsets, so the clause is stated as it is written
    for N in range(3, maxN + 1):
        for fn, func, module, kwargs, stubs, nonneg in fixed_algos:
            if fn == "_nn_cp:non_negative_parafac_hals":
                continue
            for fixed in ([N - 1], [N - 1, 0]):
                def call(I, func=func, module=module, fixed=fixed, kwargs=kwargs, stubs=stubs):
                    return fixed_body(func, module, I, fixed, dict(kwargs), stubs)
                add(fn, f"N={N},fixed_modes={fixed}", cp_setup(N, atom("R"), False), call,
                    lambda S, I, r, N=N: [(f"mode {N - 1} (last): returned factor ≡ supplied factor", r["returned"][N - 1], I["fs"][N - 1])],
                    dict(order=N, fixed_modes=fixed), "the last mode, when declared fixed, is returned as supplied")
    # all modes fixed: the initialisation is returned unchanged
    for N in range(2, maxN + 1):
        for fn, func in [("_nn_cp:non_negative_parafac_hals", _nn.non_negative_parafac_hals), ("_cp:parafac", _cp.parafac)]:
            for listing in ("ascending", "descending"):
                if fn == "_cp:parafac" and listing == "ascending":
                    continue  # below, with the tensor clause
                def call(I, N=N, func=func, listing=listing, fn=fn):
                    fixed = list(range(N)) if listing == "ascending" else list(range(N - 1, -1, -1))
                    kw = dict(l2_square_reg=0.1) if "constrained" in fn else {}
                    return tuple(func(I["X"], I["Rk"], init=(None, list(I["fs"])), fixed_modes=fixed, n_iter_max=1, **kw))
                known = fn != "_nn_cp:non_negative_parafac_hals"
                add(fn, f"N={N},all modes fixed,{listing} listing", cp_setup(N, atom("R"), False), call,
                    lambda S, I, r: [("factors returned as supplied", list(r[1]), list(I["fs"])), ("tensor unchanged", SP.cp_to_tensor(S, r[0], r[1]), SP.cp_to_tensor(S, None, I["fs"]))],
                    dict(order=N, fixed_modes="all", listing=listing),
                    "fixing every mode returns the initialisation" if not known else "the last mode, when declared fixed, is returned as supplied")
    for N in range(2, maxN + 1):
        def call(I, N=N):
            return tuple(_cp.parafac(I["X"], I["Rk"], init=(None, list(I["fs"])), fixed_modes=list(range(N))))
        add("_cp:parafac", f"N={N},all modes fixed", cp_setup(N, atom("R"), False), call,
            lambda S, I, r: [("factors returned as supplied", list(r[1]), list(I["fs"])), ("tensor unchanged", SP.cp_to_tensor(S, r[0], r[1]), SP.cp_to_tensor(S, None, I["fs"]))],
            dict(order=N, fixed_modes="all"), "fixing every mode returns the initialisation")
    # ====================================================================== Tucker
    def tk_setup(N, ortho_fixed=()):
        def setup(S):
            n, r = dims(N), dims(N, "r")
            d = dict(_S=S, X=S.input("X", n), core=S.input("G", r), fs=[S.input(f"U{k}", [n[k], r[k]]) for k in range(N)], r=r, fixed=list(ortho_fixed))
            return d
        return setup
    for N in range(2, maxN + 1):
        add("_tucker:tucker", f"N={N},no fixed factors", tk_setup(N), lambda I: tuple(_tk.tucker(I["X"], list(I["r"]) if I["_S"].name == "sym" else [f.shape[1] for f in I["fs"]], n_iter_max=0, init=(I["core"], list(I["fs"])))),
            lambda S, I, r: [("to_tensor(result at zero budget) ≡ to_tensor(init)", SP.tucker_to_tensor(S, r[0], r[1]), SP.tucker_to_tensor(S, I["core"], I["fs"]))],
            dict(order=N, fixed_factors=None), "zero-budget result represents the supplied initialisation")
        for fixed in ([0], [N - 1]) + (([0, 1], [1, 0], [N - 1, 0]) if N >= 3 else ()):
            def call(I, fixed=fixed, N=N):
                from .. import expr as X
                S = I["_S"]
                if S.name == "sym":
                    for m in fixed:  # side condition of the clause: the fixed factors have orthonormal columns
                        X.ORTHO[G.name_of(I["fs"][m])] = 0
                rank = [I["r"][k] for k in range(N) if k not in fixed] if S.name == "sym" else [I["fs"][k].shape[1] for k in range(N) if k not in fixed]
                t = _tk.tucker(I["X"], rank, fixed_factors=list(fixed), n_iter_max=0, init=(I["core"], list(I["fs"])))
                return (t.core, list(t.factors))
            def post(S, I, r, fixed=fixed):
                out = [(f"mode {m}: fixed factor re-inserted at its position, as supplied", r[1][m], I["fs"][m]) for m in fixed]
                if S.name == "sym":
                    out.append(("to_tensor(result at zero budget) ≡ to_tensor(init) (orthonormal fixed factors)", SP.tucker_to_tensor(S, r[0], r[1]), SP.tucker_to_tensor(S, I["core"], I["fs"])))
                return out
            add("_tucker:tucker", f"N={N},fixed_factors={fixed}", tk_setup(N, fixed), call, post, dict(order=N, fixed_factors=fixed), "fixed factors returned as supplied; tensor unchanged at zero budget")
        # every factor fixed: nothing is left to update - the initialisation comes back unchanged (core and factors), whatever the budget
        for budget in (0, 3):
            def call_all(I, N=N, budget=budget):
                S = I["_S"]
                rank = list(I["r"]) if S.name == "sym" else [f.shape[1] for f in I["fs"]]
                t = _tk.tucker(I["X"], rank, fixed_factors=list(range(N)), n_iter_max=budget, init=(I["core"], list(I["fs"])))
                return (t.core, list(t.factors))
            add("_tucker:tucker", f"N={N},every factor fixed,budget={budget}", tk_setup(N), call_all,
                lambda S, I, r: [("factors returned as supplied", list(r[1]), list(I["fs"])), ("core returned as supplied", r[0], I["core"])],
                dict(order=N, fixed_factors="all", budget=budget), "fixing every mode returns the initialisation")
    # ---- non-negative Tucker (HALS): fixed modes are never updated and come back as supplied (the non-negative initialisation takes |.| of the supplied
    # factors, the identity on the entrywise non-negative initialisation the routine requires)
    from ..iterative import real_dtype
    def nth_stubs(S):
        def hals(UtM, UtU, V=None, **kw):
            if S.name != "sym":
                from tensorly.solvers.nnls import hals_nnls as real
                return real(UtM, UtU, V, **kw)
            return G.opaque_tensor("HALS", G.axis_sizes(V), V.dtype, nonneg=True)
        def fista(UtM, UtU, x=None, **kw):
            if S.name != "sym":
                from tensorly.solvers.nnls import fista as real
                return real(UtM, UtU, x=x, **kw)
            return G.opaque_tensor("FISTA", list(x.shape), x.dtype, nonneg=True)
        def tsvd(M, *a, **k):
            if S.name != "sym":
                from tensorly.tenalg.svd import truncated_svd as real
                return real(M, *a, **k)
            return None, [G.opaque_tensor("SIGMA", [], real_dtype(M), nonneg=True)], None
        return dict(hals_nnls=hals, fista=fista), tsvd
    for N in (3,):
        for fixed in ([0], [1], [0, 1], [1, 0]):
            def setup(S, N=N):
                n, r = dims(N), dims(N, "r")
                return dict(_S=S, X=S.input("X", n), core=S.input("G", r, nonneg=True), fs=[S.input(f"U{k}", [n[k], r[k]], nonneg=True) for k in range(N)], r=r, n=n)
            def call(I, fixed=fixed, N=N):
                import tensorly as tl
                S = I["_S"]
                stubs, tsvd = nth_stubs(S)
                rank = list(I["r"]) if S.name == "sym" else [f.shape[1] for f in I["fs"]]
                with stubbed(_tk, validate_tucker_rank=lambda shape, rank=None, **k: list(rank), **stubs), stubbed(tl, truncated_svd=tsvd):
                    cut = LoopCut(_tk.non_negative_tucker_hals)
                    st = cut.prefix(I["X"], rank, init=(I["core"], list(I["fs"])), fixed_modes=list(fixed), return_errors=True)
                    before = list(st["nn_factors"])
                    kind, st2 = cut.body(st, 0)
                    after = list(st2["nn_factors"])
                    ret = cut.suffix(st2)
                t = ret[0] if isinstance(ret, tuple) and not hasattr(ret, "core") else ret
                return dict(before=before, after=after, returned=list(t[1]))
            def post(S, I, r, fixed=fixed):
                out = []
                for m in fixed:
                    out.append((f"mode {m}: the sweep does not touch the fixed factor (same object before and after)", r["after"][m] is r["before"][m] if S.name == "sym" else True, True))
                    out.append((f"mode {m}: returned factor ≡ supplied factor", S.unabs(r["returned"][m]) if S.name == "sym" else r["returned"][m], I["fs"][m]))
                return out
            add("_tucker:non_negative_tucker_hals", f"N={N},fixed_modes={fixed}", setup, call, post, dict(order=N, fixed_modes=fixed), "fixed modes are returned as supplied (all sweeps)",
                assumptions=lambda I: [r_ <= n_ for r_, n_ in zip(I["r"], I["n"])])
    # ====================================================================== PARAFAC2
    for nI in (2, 3):
        def setup(S, nI=nI):
            K, R = atom("K"), atom("R")
            return dict(_S=S, Xs=[S.input(f"X{i}", [atom(f"J{i}"), K]) for i in range(nI)], w=S.input("w", [R]), A=S.input("A", [nI, R]), B=S.input("B", [R, R]),
                        Cc=S.input("Cm", [K, R]), P=[S.input(f"P{i}", [atom(f"J{i}"), R]) for i in range(nI)], R=R, K=K)
        def call(I):
            from .c03 import _noval
            S = I["_S"]
            rank = I["R"] if S.name == "sym" else I["A"].shape[1]
            init = (I["w"], [I["A"], I["B"], I["Cc"]], list(I["P"]))
            def go():
                with stubbed(_p2, _validate_parafac2_tensor=p2t._validate_parafac2_tensor):
                    t = _p2.parafac2(list(I["Xs"]), rank, n_iter_max=0, init=init)
                return (t.weights, list(t.factors), list(t.projections))
            return _noval(p2t, go)
        def post(S, I, r, nI=nI):
            w2, (A2, B2, C2), P2 = r
            return [(f"slice {i} of the zero-budget result ≡ slice {i} of the initialisation", SP.parafac2_slice(S, w2, A2, B2, C2, P2[i], i),
                     SP.parafac2_slice(S, I["w"], I["A"], I["B"], I["Cc"], I["P"][i], i)) for i in range(nI)]
        add("_parafac2:parafac2", f"slices={nI},Parafac2 init", setup, call, post, dict(n_slices=nI, init="parafac2 tuple"), "zero-budget result represents the supplied initialisation",
            assumptions=lambda I: [I["R"] <= I["K"]])
    # ====================================================================== weight absorption: an initialisation with weights and the same one with the
    # weights absorbed into a factor drive the sweep identically.  Two loop-cut bodies are run from the two states; every dependency call (projection SVDs,
    # inner CP solver) must receive equal arguments in both runs - then, the dependencies being functions, the iterates coincide (checked too, with the
    # second run's dependency results identified with the first's).
    class Shared:
        def __init__(self, fn):
            self.fn, self.runs, self.cur, self.cache = fn, [[], []], 0, []
        def __call__(self, *a, **k):
            i = len(self.runs[self.cur])
            self.runs[self.cur].append((a, k) if self.sym else __import__('copy').deepcopy((a, k)))
            if self.cur == 1 and i < len(self.cache) and self.cache[i][0]:
                return self.cache[i][1]
            out = self.fn(*a, **k)
            if self.cur == 0:
                self.cache.append((self.sym, out))
            return out
    for nI in (2,) + ((3,) if tier == "thorough" else ()):
        def setup(S, nI=nI):
            K, R = atom("K"), atom("R")
            return dict(_S=S, Xs=[S.input(f"X{i}", [atom(f"J{i}"), K]) for i in range(nI)], w=S.input("w", [R]), A=S.input("A", [nI, R]), B=S.input("B", [R, R]),
                        Cc=S.input("Cm", [K, R]), P=[S.input(f"P{i}", [atom(f"J{i}"), R]) for i in range(nI)], R=R, K=K)
        def call(I, nI=nI):
            from .c03 import _noval
            S = I["_S"]
            sym = S.name == "sym"
            rank = I["R"] if sym else I["A"].shape[1]
            real_svd = make_svd_stub(S, None, square_u=True)
            real_parafac = _p2.parafac
            def inner(X, rank, init=None, **kw):
                if sym:
                    return CPTensor((None, [G.opaque_tensor("INNER", list(f.shape), G._result_dtype(X, f)) for f in init[1]]))
                out = real_parafac(X, rank, init=init, **kw)
                if cp_sh.cur == 0:
                    for f in out[1]:
                        S.record("INNER", f)
                return out
            svd_sh, cp_sh = Shared(real_svd), Shared(inner)
            svd_sh.sym = cp_sh.sym = sym
            Bw = S.einsum("ir,r->ir", I["B"], I["w"])
            ones = S.ones([S.shape(I["w"])[0]])
            states = [(I["w"], [I["A"], I["B"], I["Cc"]]), (ones, [I["A"], Bw, I["Cc"]])]
            finals = []
            def go():
                cut = LoopCut(_p2.parafac2)
                with stubbed(_p2, svd_interface=svd_sh, parafac=cp_sh, _validate_parafac2_tensor=p2t._validate_parafac2_tensor,
                             initialize_decomposition=lambda *a, **k: (I["w"], [I["A"], I["B"], I["Cc"]], list(I["P"]))):
                    st0 = cut.prefix(list(I["Xs"]), rank, return_errors=True, tol=0)
                    for run, (w, fs) in enumerate(states):
                        svd_sh.cur = cp_sh.cur = run
                        st = dict(st0)
                        st["weights"], st["factors"], st["rec_errors"] = w, list(fs), []
                        kind, st2 = cut.body(st, 0)
                        finals.append((st2["weights"], list(st2["factors"]), list(st2["projections"])))
                return dict(finals=finals, svd=svd_sh.runs, cp=cp_sh.runs)
            return _noval(p2t, go)
        def post(S, I, r, nI=nI):
            out = [("same number of projection SVDs in both runs", len(r["svd"][0]), len(r["svd"][1])), ("same number of inner CP calls in both runs", len(r["cp"][0]), len(r["cp"][1])),
                   ("one SVD per slice", len(r["svd"][0]), nI)]
            for i, ((a0, k0), (a1, k1)) in enumerate(zip(*r["svd"])):
                out.append((f"projection SVD {i} receives the same matrix from the weighted and the weight-absorbed start", a0[0], a1[0]))
            for i, ((a0, k0), (a1, k1)) in enumerate(zip(*r["cp"])):
                out.append((f"inner CP call {i}: same projected tensor", a0[0], a1[0]))
                out.append((f"inner CP call {i}: inner initialisation represents the same tensor", SP.cp_to_tensor(S, k0["init"][0], k0["init"][1]), SP.cp_to_tensor(S, k1["init"][0], k1["init"][1])))
                out.append((f"inner CP call {i}: same inner initial factors", list(k0["init"][1]), list(k1["init"][1])))
                out.append((f"inner CP call {i}: same inner initial weights", k0["init"][0], k1["init"][0]))
            (w0, f0, p0), (w1, f1, p1) = r["finals"]
            for i in range(nI):
                out.append((f"slice {i} of the next iterate is the same from both starts", SP.parafac2_slice(S, w0, f0[0], f0[1], f0[2], p0[i], i), SP.parafac2_slice(S, w1, f1[0], f1[1], f1[2], p1[i], i)))
            return out
        add("_parafac2:parafac2", f"slices={nI},one sweep", setup, call, post, dict(n_slices=nI, sweep=1),
            "a start with weights and the same start with the weights absorbed into B give the same next iterate", assumptions=lambda I: [I["R"] <= I["K"]] + [I["R"] <= atom(f"J{i}") for i in range(len(I["Xs"]))])
    # ====================================================================== bounded stand-in (never counted as proved): end-to-end native survey
    from .c09 import BoundedOb
    from . import e2e_native
    obs.append(BoundedOb(f"{PID}/bounded/native survey: zero budgets, absorbed weights and fixed modes on the real entry points", "tensorly.decomposition:parafac+non_negative_parafac+non_negative_parafac_hals+constrained_parafac+tucker+non_negative_tucker_hals",
                         lambda: e2e_native.c14(tier), dict(orders="2-3 (4 thorough)", weights="unit, positive, negative, mixed, none", fixed_modes="every subset without the last mode; Tucker: every subset"),
                         "seed 0; tolerances 1e-9 (zero budget) / 1e-7 (absorbed weights); fixed factors bit-identical; the last mode of the CP routines is the known finding and is not fixed here", pid=PID))
    # ---- the class wrappers hand a user initialisation and the fixed modes to the functions proved above
    from . import wrappers as _W
    obs.extend(_W.obligations(PID, select=("CP", "CP_NN", "CP_NN_HALS", "ConstrainedCP", "Tucker", "Tucker_NN_HALS", "Parafac2"), only=("init", "fixed_modes", "fixed_factors", "n_iter_max")))
    return obs


def canaries(tier):
    import tensorly.decomposition._cp as _cp
    def setup(S):
        n = dims(3)
        return dict(X=S.input("X", n), w=S.input("w", [2]), fs=[S.input(f"U{k}", [n[k], 2]) for k in range(3)])
    return [GOb(PID, f"{PID}/canary/zero-budget-drops-weights", "tensorly.decomposition._cp:parafac", setup,
                lambda I: tuple(_cp.parafac(I["X"], 2, n_iter_max=0, init=(I["w"], list(I["fs"])))),
                lambda S, I, r: [("tensor", SP.cp_to_tensor(S, r[0], r[1]), SP.cp_to_tensor(S, None, I["fs"]))], tenalg="core", instance={}, clause="canary")]
