"""C11  Constrained CP returns factors satisfying every requested hard constraint.

Three links (DESIGN §3 C11):
 1. `validate_constraints` — a loop-free function of a FINITE specification space once the order is fixed: swept completely
    (every kind × {scalar, list with None holes, dict over every mode subset}, singly and in pairs) for orders 3 and 4.
 2. provenance: in `initialize_constrained_parafac` (svd / random init), `admm` and `constrained_parafac` the factor of every
    constrained, non-fixed mode IS the value returned by `proximal_operator(·, order=mode)` — E1-generic with the prox stubbed by
    tagged opaque tensors; all sizes, every exit of the inner and outer loops.
 3. feasibility of each hard-constraint prox output — E1-dense + z3, all real inputs at enumerated small shapes, column-wise
    where the operator is documented column-wise.
"""
import itertools
import time

import numpy as np

from ..oblig import GOb, Obligation, Verdict, PROVED, REFUTED
from ..oblig_dense import DOb
from ..loopcut import LoopCut
from ..iterative import stubbed, make_svd_stub
from ..symint import atom
from .. import dense as D
from ..dense import d_and, d_or, d_implies, d_not, d_le, d_lt, d_eq, d_abs, d_sum, d_max, d_ite
from .. import gtensor as G

PID = "C11"
LEVEL = "proof"
TRUSTED_BASE = [
    "z3 for the feasibility claims; numpy object-array semantics; svd contract and SymRng (arbitrary values) for the initialisers",
    "link 2 uses link 3 by contract: 'is the output of proximal_operator for that mode' + 'prox outputs are feasible' => feasible",
]
ASSUMPTIONS = [
    "specification sweep complete for orders 3 and 4 (finite domain); parameters are representative positive values",
    "feasibility proved for all real inputs at shapes n <= 3 (4 thorough) x 1-2 columns (size-bounded)",
    "a user-supplied initialisation with a zero iteration budget is returned as supplied (C14 requires it); the claim concerns svd/random initialisation at any budget and user initialisation after at least one sweep; fixed modes are not updated",
    "max-normalisation, hard and normalised sparsity act on the whole factor as documented (max|factor| = 1, at most k non-zeros, unit Frobenius norm); simplex, monotone, unimodal, l1-ball are checked column by column",
]
QUANTIFICATION = "complete finite sweep of constraint specifications (orders 3, 4); forall sizes/ranks/iterations (provenance); forall real inputs at enumerated shapes (feasibility)"
EXPLANATION = "Specification sweep by exhaustive enumeration of the real validate_constraints; provenance by stubbing the prox with tagged values; feasibility by z3."

KINDS = ["non_negative", "l1_reg", "l2_reg", "l2_square_reg", "unimodality", "normalize", "simplex", "normalized_sparsity", "soft_sparsity", "smoothness", "monotonicity", "hard_sparsity"]
PARAM = dict(non_negative=True, l1_reg=0.3, l2_reg=0.4, l2_square_reg=0.2, unimodality=True, normalize=True, simplex=1.5, normalized_sparsity=2, soft_sparsity=1.2,
             smoothness=0.7, monotonicity=True, hard_sparsity=2)


class SweepOb(Obligation):
    engine = "complete-enumeration"

    def __init__(self, order):
        super().__init__(PID, f"{PID}/tenalg.proximal:validate_constraints/complete sweep[order={order}]", "tensorly.tenalg.proximal:validate_constraints",
                         instance=dict(order=order), clause="returns the requested (constraint, parameter) per mode; double constraints rejected; nothing else rejected",
                         forall=["every kind × scalar / list with None holes / dict over every mode subset, singly and in pairs"], enumerated=["order"])
        self.order = order

    @staticmethod
    def par(kind, mode):
        """the parameter requested for `mode`: numeric parameters differ from mode to mode, so that a value reaching the wrong mode is seen"""
        p = PARAM[kind]
        return p if isinstance(p, bool) else p + mode * (1 if isinstance(p, int) else 0.0625)

    def specs(self, kind):
        """-> (form, value, {mode: requested parameter})"""
        n = self.order
        out = [("scalar", PARAM[kind], {m: PARAM[kind] for m in range(n)})]
        for k in range(1, n + 1):
            for ms in itertools.combinations(range(n), k):
                req = {i: self.par(kind, i) for i in ms}
                out.append(("list", [req.get(i) for i in range(n)], req))
                out.append(("dict", {i: req[i] for i in ms}, req))
                if k > 1:
                    out.append(("dict, keys descending", {i: req[i] for i in reversed(ms)}, req))
        return out

    def run(self):
        from tensorly.tenalg.proximal import validate_constraints
        t0 = time.time()
        n = self.order
        evals = 0
        bad = []

        def check(kw, want):
            nonlocal evals
            overlap = want is None
            for order in range(n):
                evals += 1
                try:
                    got = validate_constraints(n_const=n, order=order, **kw)
                    if overlap:
                        return f"two constraints on one mode accepted: {kw}"
                    if got != want[order]:
                        return f"{kw}: mode {order} got {got!r}, requested {want[order]!r}"
                except ValueError:
                    if not overlap:
                        return f"rejected although no mode is constrained twice: {kw}"
                    return None
            return None
        for kind in KINDS:
            for form, val, modes in self.specs(kind):
                want = {m: ((kind, modes[m]) if m in modes else (None, None)) for m in range(n)}
                r = check({kind: val}, want)
                if r:
                    bad.append(r)
        for k1, k2 in itertools.combinations(KINDS, 2):
            for f1, v1, m1 in self.specs(k1):
                for f2, v2, m2 in self.specs(k2):
                    if set(m1) & set(m2):
                        want = None
                    else:
                        want = {m: ((k1, m1[m]) if m in m1 else (k2, m2[m]) if m in m2 else (None, None)) for m in range(n)}
                    r = check({k1: v1, k2: v2}, want)
                    if r:
                        bad.append(r)
        v = Verdict(PROVED if not bad else REFUTED, "complete-enumeration", "; ".join(bad[:2]), extra=dict(evaluations=evals, exhaustive=True),
                    witness=dict(replayable=True, native_fails=True, failures=bad[:3]) if bad else None)
        v.time_s = time.time() - t0
        return v

    def replay(self, witness):
        v = self.run()
        return v.status == PROVED, v.detail


def obligations(tier):
    import tensorly.tenalg.proximal as px
    import tensorly.decomposition._constrained_cp as _cc
    import tensorly.solvers.admm as adm
    from tensorly.cp_tensor import CPTensor

    obs = [SweepOb(3)] + ([SweepOb(4)] if tier == "thorough" else [])
    R = atom("R")

    # ------------------------------------------------------------------ link 2: provenance
    def dims(N):
        return [atom(f"n{k}") for k in range(N)]

    def prox_stub_factory(S, rec):
        def stub(tensor, order=None, n_const=None, **kw):
            out = G.opaque_tensor("PROX", G.axis_sizes(tensor), tensor.dtype) if S.name == "sym" else np.abs(np.asarray(tensor))
            rec.append(dict(order=order, out=out, kw={k: v for k, v in kw.items() if v is not None}))
            return out
        return stub

    def add_g(fn, tag, setup, call, post, instance, clause, **kw):
        obs.append(GOb(PID, f"{PID}/{fn}/{clause}[{tag}]", f"tensorly.{fn}", setup, call, post, tenalg="core", instance=instance, clause=clause,
                       forall=["sizes", "rank", "data", "iterates"], enumerated=list(instance), **kw))

    for N in (3,) + ((4,) if tier == "thorough" else ()):
        # initialiser: svd and random
        for init in ("svd", "random"):
            def setup(S, N=N):
                return dict(_S=S, X=S.input("X", dims(N)))
            def call(I, init=init, N=N):
                S = I["_S"]
                rec = []
                import tensorly.random.base as rb
                with stubbed(_cc, proximal_operator=prox_stub_factory(S, rec), svd_interface=make_svd_stub(S, None)):
                    kt = _cc.initialize_constrained_parafac(I["X"], R if S.name == "sym" else 2, init=init, non_negative=True, random_state=0)
                return dict(factors=list(kt.factors), rec=rec)
            def post(S, I, r, N=N):
                out = [("one projection per mode", len(r["rec"]), N)]
                for m in range(N):
                    out.append((f"mode {m}: the initial factor is the output of proximal_operator(order={m})", (r["factors"][m] is r["rec"][m]["out"], r["rec"][m]["order"]), (True, m)))
                return out
            add_g("decomposition._constrained_cp:initialize_constrained_parafac", f"N={N},init={init}", setup, call, post, dict(order=N, init=init),
                  "every initial factor is a proximal-operator output", assumptions=lambda I: [R <= n for n in dims(len(I["X"].shape))] if I["_S"].name == "sym" else [])
        # ... also when the rank exceeds a mode size and the SVD factor of that mode is padded with random columns: the WHOLE factor, padding included, is what is projected
        def setup_p(S, N=N):
            n = dims(N)
            return dict(_S=S, n=n, X=S.input("X", n))
        def call_p(I, N=N):
            S = I["_S"]
            rec = []
            inner = make_svd_stub(S, None)
            def pad_stub(matrix, n_eigenvecs=None, **kw):
                if S.name == "sym" and bool(G.SInt.lift(matrix.shape[0]) < n_eigenvecs):
                    return inner(matrix, n_eigenvecs=matrix.shape[0], **kw)   # svd contract: at most min(shape) = rows singular triplets exist
                return inner(matrix, n_eigenvecs=n_eigenvecs, **kw)
            with stubbed(_cc, proximal_operator=prox_stub_factory(S, rec), svd_interface=pad_stub):
                kt = _cc.initialize_constrained_parafac(I["X"], R if S.name == "sym" else I["X"].shape[0] + 2, init="svd", non_negative=True, random_state=0)
            return dict(factors=list(kt.factors), rec=rec, rank=R if S.name == "sym" else I["X"].shape[0] + 2)
        def post_p(S, I, r, N=N):
            out = [("one projection per mode", len(r["rec"]), N)]
            for m in range(N):
                out.append((f"mode {m}: the initial factor is the output of proximal_operator(order={m})", (r["factors"][m] is r["rec"][m]["out"], r["rec"][m]["order"]), (True, m)))
                out.append((f"mode {m}: the projected factor has all R columns", tuple(S.shape(r["factors"][m])), (S.shape(I["X"])[m], r["rank"])))
            return out
        from ..symint import sprod as _sprod
        add_g("decomposition._constrained_cp:initialize_constrained_parafac", f"N={N},init=svd,rank > size of mode 0", setup_p, call_p, post_p, dict(order=N, init="svd", rank="exceeds mode 0"),
              "every initial factor is a proximal-operator output",
              assumptions=lambda I: ([I["n"][0] < R] + [R <= nk for nk in I["n"][1:]] + [I["n"][0] <= _sprod(I["n"][1:])]) if I["_S"].name == "sym" else [])
        # admm: every exit returns the prox output as primal variable
        # (the specification reaches admm as given by the caller: scalar, per-mode dict, per-mode list - the mode is selected by `order`)
        for spec_name, spec in ((("scalar", dict(simplex=1.0)), ("dict on the mode only", dict(simplex={1: 1.0})), ("list with holes", dict(non_negative=[None, True, None])),
                                 ("dict, other modes differently constrained", dict(simplex={1: 1.0}, non_negative={2: True}))) if N == 3 else ()):   # (admm does not depend on the order: once)
            for n_inner in (1, 2):
                def setup(S):
                    n = atom("n")
                    return dict(_S=S, UtM=S.input("UtM", [n, R]), UtU=S.input("UtU", [R, R]), x=S.input("x", [n, R]), dual=S.input("dual", [n, R]))
                def call(I, n_inner=n_inner, spec=spec):
                    S = I["_S"]
                    rec = []
                    with stubbed(adm, proximal_operator=prox_stub_factory(S, rec)):
                        x, xs, dual = adm.admm(I["UtM"], I["UtU"], I["x"], I["dual"], n_iter_max=n_inner, n_const=3, order=1, **spec)
                    return dict(x=x, rec=rec)
                def post(S, I, r, spec=spec):
                    if not r["rec"]:
                        return [("the proximal operator is applied at least once", 0, 1)]
                    return [("the returned primal variable is the last proximal-operator output, requested for the right mode and constraint",
                             (r["x"] is r["rec"][-1]["out"], r["rec"][-1]["order"], r["rec"][-1]["kw"]), (True, 1, spec))]
                add_g("solvers.admm:admm", f"n_iter_max={n_inner},spec={spec_name}", setup, call, post, dict(inner_budget=n_inner, specification=spec_name),
                      "returned primal variable is a proximal-operator output on every exit")
        # constrained_parafac: after a sweep every non-fixed mode holds admm's primal variable; suffix returns it
        for fixed in ([], [0]):
            def setup(S, N=N):
                n = dims(N)
                return dict(_S=S, X=S.input("X", n), fs=[S.input(f"U{k}", [n[k], R]) for k in range(N)], e1=S.input("e1", []), e2=S.input("e2", []))
            def call(I, fixed=fixed, N=N):
                S = I["_S"]
                rec = []
                def admm_stub(UtM, UtU, x, dual_var, order=None, **kw):
                    out = G.opaque_tensor("ADMMX", list(x.shape), G._result_dtype(UtM, UtU, x, dual_var)) if S.name == "sym" else np.abs(np.asarray(x) + 0 * np.asarray(dual_var) + 0 * np.sum(np.asarray(UtU)))
                    rec.append(dict(order=order, out=out, kw={k: v for k, v in kw.items() if v is not None and k in PARAM}))
                    aux = G.opaque_tensor("ADMMAUX", [x.shape[1], x.shape[0]], G._result_dtype(UtM, UtU, x, dual_var)) if S.name == "sym" else np.asarray(x).T.copy()
                    return out, aux, dual_var
                cut = LoopCut(_cc.constrained_parafac)
                with stubbed(_cc, initialize_constrained_parafac=lambda *a, **k: CPTensor((None, list(I["fs"]))), admm=admm_stub):
                    st = cut.prefix(I["X"], R if S.name == "sym" else I["fs"][0].shape[1], fixed_modes=list(fixed), hard_sparsity={1: 2}, non_negative={2: True})
                    st["factors"] = list(st["factors"])
                    st["rec_errors"] = [I["e2"], I["e1"]]
                    kind, st2 = cut.body(st, 1)
                    ret = cut.suffix(st2)
                return dict(factors=list(ret.factors), rec=rec, kind=kind)
            def post(S, I, r, fixed=fixed, N=N):
                out = []
                by = {c["order"]: c for c in r["rec"]}
                for m in range(N):
                    if m in fixed:
                        out.append((f"[{r['kind']}] fixed mode {m} is not updated", m in by, False))
                        continue
                    out.append((f"[{r['kind']}] mode {m}: the returned factor is the primal variable returned by admm(order={m}) with the requested constraints",
                                (m in by and r["factors"][m] is by[m]["out"], by.get(m, {}).get("kw")), (True, {"hard_sparsity": {1: 2}, "non_negative": {2: True}})))
                return out
            add_g("decomposition._constrained_cp:constrained_parafac", f"N={N},fixed_modes={fixed}", setup, call, post, dict(order=N, fixed_modes=fixed),
                  "every updated mode holds admm's primal variable at every exit of the outer loop")
    # ------------------------------------------------------------------ link 3: feasibility of hard-constraint prox outputs
    shapes = [(2, 1), (3, 1), (2, 2)] + ([(3, 2), (4, 1)] if tier == "thorough" else [])

    def add_d(kind, tag, shape, call, claims, clause, params=None, pre=None, **kw):
        obs.append(DOb(PID, f"{PID}/tenalg.proximal:proximal_operator({kind})/{clause}[{tag}]", f"tensorly.tenalg.proximal:proximal_operator", dict(v=shape), call, claims,
                       params=params, pre=pre, instance=dict(constraint=kind, shape=list(shape)), clause=clause, **kw))

    def cols(A):
        A = D.lift_array(A)
        if A.ndim == 1:
            A = A.reshape(-1, 1)
        return [[A[i, j] for i in range(A.shape[0])] for j in range(A.shape[1])]

    for shape in shapes:
        tag = f"{shape[0]}x{shape[1]}"
        add_d("non_negative", tag, shape, lambda I: px.proximal_operator(I["v"], non_negative=True),
              lambda I, out: [("entrywise >= 0", d_and(*[d_le(0, x) for c in cols(out) for x in c]))], "feasible: non-negative")
        add_d("simplex", tag, shape, lambda I: px.proximal_operator(I["v"], simplex=I["s"]),
              lambda I, out: [(f"column {j}: >= 0 and sums to the parameter", d_and(d_eq(d_sum(c), I["s"]), *[d_le(0, x) for x in c])) for j, c in enumerate(cols(out))],
              "feasible: every column on the simplex", params=dict(s=None), pre=lambda I: [I["s"] > 0])
        add_d("monotonicity", tag, shape, lambda I: px.proximal_operator(I["v"], monotonicity=True),
              lambda I, out: [(f"column {j}: non-decreasing", d_and(*[d_le(c[i], c[i + 1]) for i in range(len(c) - 1)])) for j, c in enumerate(cols(out))], "feasible: every column monotone")
        add_d("soft_sparsity", tag, shape, lambda I: px.proximal_operator(I["v"], soft_sparsity=I["t"]),
              lambda I, out: [(f"column {j}: l1 norm <= bound", d_le(d_sum([d_abs(x) for x in c]), I["t"])) for j, c in enumerate(cols(out))], "feasible: every column in the l1 ball",
              params=dict(t=None), pre=lambda I: [I["t"] > 0])
        for k in (1, 2):
            add_d("hard_sparsity", tag + f",k={k}", shape, lambda I, k=k: px.proximal_operator(I["v"], hard_sparsity=k),
                  lambda I, out, k=k: [(f"column {j}: at most k non-zeros", d_le(d_sum([d_ite(d_not(d_eq(x, 0)), 1, 0) for x in c]), k)) for j, c in enumerate(cols(out))],
                  "feasible: at most k non-zeros per column")
        add_d("normalize", tag, shape, lambda I: px.proximal_operator(I["v"], normalize=True),
              lambda I, out: [("max |entry| of the factor is 1 (so every column has max |entry| <= 1)", d_eq(d_max([d_abs(x) for c in cols(out) for x in c]), 1))],
              "feasible: max-normalised", pre=lambda I: [D.SB(__import__("z3").Or(*[x.e != 0 for x in D.lift_array(I["v"]).ravel()]))])
        if shape[0] <= 3:
            add_d("unimodality", tag, shape, lambda I: px.proximal_operator(I["v"], unimodality=True),
                  lambda I, out: [(f"column {j}: unimodal", d_or(*[d_and(*[d_le(c[i], c[i + 1]) for i in range(p)], *[d_le(c[i + 1], c[i]) for i in range(p, len(c) - 1)]) for p in range(len(c))]))
                                  for j, c in enumerate(cols(out))], "feasible: every column unimodal")
    # ====================================================================== bounded stand-in (never counted as proved): end-to-end native survey - the real
    # entry points, unstubbed, on seeded tensors; a cross-check of the composed contracts on what they assume away (degenerate data, option combinations)
    from .c09 import BoundedOb
    from . import e2e_native
    obs.append(BoundedOb(f"{PID}/bounded/native survey: the returned factor of every constrained mode is feasible", "tensorly.decomposition:constrained_parafac", lambda: e2e_native.c11(tier), dict(order="3 (4 thorough)", ranks="1-3", constraints=8, specifications="scalar, dict, list"), "seed 0; signed and non-negative data, SVD and random initialisation, outer/inner budgets (0,1), (1,1), (3,5)", pid=PID))
    # ---- ConstrainedCP hands every constraint specification to constrained_parafac
    from . import wrappers as _W
    obs.extend(_W.obligations(PID, select=("ConstrainedCP",)))
    return obs


def canaries(tier):
    import tensorly.tenalg.proximal as px
    return [DOb(PID, f"{PID}/canary/soft-thresholding-is-non-negative", "tensorly.tenalg.proximal:proximal_operator", dict(v=(2, 1)),
                lambda I: px.proximal_operator(I["v"], l1_reg=0.5), lambda I, out: [("must fail", d_and(*[d_le(0, x) for x in D.lift_array(out).ravel()]))], instance={}, clause="canary")]
