"""C12  Proximal operators return the exact minimiser of their prox problem.

E1-dense + z3: the REAL operator is run on a symbolic vector (numpy object array of z3 reals), the output terms are
checked against the witness-free optimality characterisation of the prox problem (KKT / closed form, lemma L4 gives
sufficiency), feasibility and idempotence, for ALL real inputs and parameters at the enumerated lengths.
"""
import itertools

from ..oblig_dense import DOb
from .. import dense as D
from ..dense import d_and, d_or, d_implies, d_not, d_le, d_lt, d_eq, d_abs, d_sum, d_max, d_ite

PID = "C12"
LEVEL = "proof"
USES_PRIMITIVES = False
TRUSTED_BASE = [
    "L4: the KKT / subgradient characterisations used as postconditions are sufficient for optimality of convex prox problems (textbook); for the non-convex sparsity sets 'keep the k entries of largest magnitude' is a nearest feasible point",
    "z3 (QF_LRA / QF_NRA) with cvc5 taking z3's unknowns",
    "numpy object-array semantics (reshape, cumsum, flip, indexing, broadcasting) are numpy's own; only comparison-based primitives (clip, max, where, sign, sort, argsort, argmin) are modelled (If-terms / forks)",
    "tl.solve by contract (A x = b for the returned x)",
    "truncated_svd by contract (C05) and the spectral lemmas: prox of t*nuclear norm = U diag(soft(S, t)) V; polar factor U V = nearest matrix with orthonormal columns / rows",
]
ASSUMPTIONS = [
    "reals, not floats (A1)",
    "vector length / matrix shape enumerated (n <= 3 quick, n <= 4 thorough; up to 2 columns): proved for all values at those sizes — size-bounded, not for all sizes",
    "penalty parameters are positive; sparsity levels k are enumerated integers",
    "firm non-expansiveness is not checked directly: it follows from 'exact projection onto a closed convex set / prox of a convex function' (lemma)",
]
QUANTIFICATION = "forall real entries and parameters; enumerated: operator, length n, number of columns, k"
EXPLANATION = "Output terms of the real operator vs. the optimality conditions of its prox problem, decided by z3; spectral operators and normalised sparsity against their callees' contracts (all sizes, canonical form)."


def _vec(I, k="v"):
    return [I[k][i] for i in range(I[k].shape[0])]


def obligations(tier):
    import tensorly as tl
    import tensorly.tenalg.proximal as px

    maxn = 3 if tier == "quick" else 4
    obs = []

    def add(fn, tag, inputs, call, claims, instance, clause, params=None, pre=None, **kw):
        obs.append(DOb(PID, f"{PID}/tenalg.proximal:{fn}/{clause}[{tag}]", f"tensorly.tenalg.proximal:{fn}", inputs, call, claims, params=params, pre=pre,
                       instance=instance, clause=clause, **kw))

    for n in range(1, maxn + 1):
        inst = dict(n=n)
        # ------------------------------------------------------------------ non-negativity (projection onto the orthant)
        def claims_nn(I, out):
            v, x = _vec(I), list(out)
            return [("feasible: x >= 0", d_and(*[d_le(0, xi) for xi in x])),
                    ("projection: x_i = v_i if v_i >= 0 else 0", d_and(*[d_or(d_and(d_eq(xi, vi), d_le(0, vi)), d_and(d_eq(xi, 0), d_le(vi, 0))) for xi, vi in zip(x, v)]))]
        add("proximal_operator(non_negative)", f"n={n}", dict(v=(n,)), lambda I: px.proximal_operator(I["v"], non_negative=True), claims_nn, inst, "exact projection onto x >= 0")
        add("proximal_operator(non_negative)", f"n={n},idempotent", dict(v=(n,)), lambda I: (px.proximal_operator(I["v"], non_negative=True),
                                                                                           px.proximal_operator(px.proximal_operator(I["v"], non_negative=True), non_negative=True)),
            lambda I, out: [("P(P(v)) = P(v)", d_and(*[d_eq(a, b) for a, b in zip(out[0], out[1])]))], inst, "idempotent")
        # ------------------------------------------------------------------ l1 soft thresholding
        def claims_soft(I, out):
            v, x, t = _vec(I), list(out), I["t"]
            return [("subgradient optimality of t|x| + (x-v)^2/2", d_and(*[d_and(d_implies(d_lt(0, xi), d_eq(vi - xi, t)), d_implies(d_lt(xi, 0), d_eq(vi - xi, -t)),
                                                                           d_implies(d_eq(xi, 0), d_le(d_abs(vi), t))) for xi, vi in zip(x, v)]))]
        add("soft_thresholding", f"n={n}", dict(v=(n,)), lambda I: px.soft_thresholding(I["v"], I["t"]), claims_soft, inst, "exact minimiser (KKT)", params=dict(t=None),
            pre=lambda I: [I["t"] > 0])
        # ------------------------------------------------------------------ squared l2
        add("l2_square_prox", f"n={n}", dict(v=(n,)), lambda I: px.l2_square_prox(I["v"], I["t"]),
            lambda I, out: [("stationarity: 2 t x + x - v = 0", d_and(*[d_eq(2 * I["t"] * xi + xi, vi) for xi, vi in zip(out, _vec(I))]))], inst, "exact minimiser (stationarity)",
            params=dict(t=None), pre=lambda I: [I["t"] > 0])
        # ------------------------------------------------------------------ l2 (block soft thresholding)
        def claims_l2(I, out):
            v, x, t = _vec(I), list(out), I["t"]
            nrm = (d_sum([vi * vi for vi in v])) ** 0.5 if D.is_sym(v[0]) else float(sum(float(vi) ** 2 for vi in v)) ** 0.5
            return [("x = 0 if ||v|| <= t else (1 - t/||v||) v", d_and(d_implies(d_le(nrm, t), d_and(*[d_eq(xi, 0) for xi in x])),
                                                                    d_implies(d_lt(t, nrm), d_and(*[d_eq(xi * nrm, (nrm - t) * vi) for xi, vi in zip(x, v)]))))]
        if n <= 2:  # (n = 3 is a slow non-linear query: z3 gives up after 60 s and cvc5 closes it in 15-60 s depending on load - a verdict that could flip; not run)
            add("l2_prox", f"n={n}", dict(v=(n,)), lambda I: px.l2_prox(I["v"], I["t"]), claims_l2, inst, "exact minimiser (block soft thresholding)", params=dict(t=None),
                pre=lambda I: [I["t"] > 0], solver_timeout_ms=60000)
        # ------------------------------------------------------------------ smoothness (zero-boundary first differences)
        def claims_smooth(I, out):
            v, x, lam = _vec(I), list(out), I["t"]
            ext = [0] + x + [0]
            return [("stationarity of (x-v)^2/2 + (lam/2) sum_{i=0..n} (x_{i+1}-x_i)^2, x_0 = x_{n+1} = 0",
                     d_and(*[d_eq(ext[i + 1] - vi + lam * (2 * ext[i + 1] - ext[i] - ext[i + 2]), 0) for i, vi in enumerate(v)]))]
        add("smoothness_prox", f"n={n}", dict(v=(n,)), lambda I: px.smoothness_prox(I["v"], I["t"]), claims_smooth, inst, "exact minimiser (stationarity; solve by contract)",
            params=dict(t=None), pre=lambda I: [I["t"] > 0])
        # ------------------------------------------------------------------ simplex
        def claims_simplex(I, out, s_key="s"):
            v, x, s = _vec(I), list(out), I[s_key]
            return [("feasible: x >= 0 and sum x = s", d_and(d_eq(d_sum(x), s), *[d_le(0, xi) for xi in x])),
                    ("KKT (witness-free): x_i > 0 => v_i - x_i >= v_j - x_j", d_and(*[d_implies(d_lt(0, x[i]), d_le(v[j] - x[j], v[i] - x[i])) for i in range(len(x)) for j in range(len(x))]))]
        add("simplex_prox", f"n={n}", dict(v=(n,)), lambda I: px.simplex_prox(I["v"], I["s"]), claims_simplex, inst, "exact projection onto the simplex (KKT)", params=dict(s=None),
            pre=lambda I: [I["s"] > 0])
        # ------------------------------------------------------------------ l1 ball (soft sparsity)
        def claims_l1ball(I, out, part="outside"):
            v, t = _vec(I), I["t"]
            x = list(D.lift_array(out).ravel())
            l1v, l1x = d_sum([d_abs(vi) for vi in v]), d_sum([d_abs(xi) for xi in x])
            if len(x) != len(v):
                return [("result has the shape of the input", False)]
            gap = [d_abs(vi) - d_abs(xi) for vi, xi in zip(v, x)]
            if part == "inside":
                return [("inside the ball the point is unchanged", d_implies(d_le(l1v, t), d_and(*[d_eq(xi, vi) for xi, vi in zip(x, v)])))]
            return [("feasible: ||x||_1 <= t", d_le(l1x, t)),
                    ("outside: ||x||_1 = t, signs kept, common shrinkage on the support (KKT)",
                     d_implies(d_lt(t, l1v), d_and(d_eq(l1x, t), *[d_le(0, xi * vi) for xi, vi in zip(x, v)], *[d_le(0, g) for g in gap],
                                                   *[d_implies(d_lt(0, d_abs(x[i])), d_le(gap[j], gap[i])) for i in range(len(x)) for j in range(len(x))])))]
        add("soft_sparsity_prox", f"n={n}", dict(v=(n,)), lambda I: px.soft_sparsity_prox(I["v"], I["t"]), claims_l1ball,
            inst, "feasible for the l1 ball and exact projection of points outside it (KKT)", params=dict(t=None), pre=lambda I: [I["t"] > 0])
        add("soft_sparsity_prox", f"n={n}", dict(v=(n,)), lambda I: px.soft_sparsity_prox(I["v"], I["t"]), lambda I, out: claims_l1ball(I, out, "inside"),
            inst, "points inside the l1 ball are their own projection", params=dict(t=None), pre=lambda I: [I["t"] > 0])
        if n == 2:
            add("soft_sparsity_prox", f"matrix {n}x1", dict(v=(n, 1)), lambda I: px.soft_sparsity_prox(I["v"], I["t"]),
                lambda I, out, n=n: [("single-column matrix: result has the shape of the input", tuple(D.lift_array(out).shape) == (n, 1))],
                dict(n=n, columns=1), "shape preserved for a single-column matrix", params=dict(t=None), pre=lambda I: [I["t"] > 0])
        # ------------------------------------------------------------------ isotonic regression (both directions)
        for decreasing in (False, True):
            def claims_iso(I, out, decreasing=decreasing):
                v, x = _vec(I), list(D.lift_array(out).ravel())
                if decreasing:
                    v, x = v[::-1], x[::-1]
                lam = []
                acc = 0
                for vi, xi in zip(v, x):
                    acc = acc + (vi - xi)
                    lam.append(acc)
                n_ = len(x)
                return [("feasible: monotone", d_and(*[d_le(x[i], x[i + 1]) for i in range(n_ - 1)]) if n_ > 1 else True),
                        ("KKT: multipliers (partial sums of the residual) >= 0, last = 0, complementary slackness",
                         d_and(d_eq(lam[-1], 0), *[d_le(0, lam[k]) for k in range(n_ - 1)], *[d_implies(d_lt(0, lam[k]), d_eq(x[k], x[k + 1])) for k in range(n_ - 1)]))]
            add("monotonicity_prox", f"n={n},decreasing={decreasing}", dict(v=(n,)), lambda I, decreasing=decreasing: px.monotonicity_prox(I["v"], decreasing=decreasing), claims_iso,
                dict(n=n, decreasing=decreasing), "exact isotonic regression (KKT)")
        # ------------------------------------------------------------------ hard thresholding / normalised sparsity / max-normalisation
        for k in range(0, n + 1):     # k = 0: the only 0-sparse point is 0
            def claims_hard(I, out, k=k):
                v, x = _vec(I), list(D.lift_array(out).ravel())
                nz = d_sum([d_ite(d_not(d_eq(xi, 0)), 1, 0) for xi in x])
                kept = d_sum([d_ite(d_eq(xi, vi), 1, 0) for xi, vi in zip(x, v)])
                return [("entries are kept or zeroed", d_and(*[d_or(d_eq(xi, vi), d_eq(xi, 0)) for xi, vi in zip(x, v)])),
                        ("at most k non-zeros, at least k entries kept", d_and(d_le(nz, k), d_le(k, kept))),
                        ("no dropped entry is larger in magnitude than a kept non-zero one",
                         d_and(*[d_implies(d_and(d_eq(x[i], 0), d_not(d_eq(v[i], 0)), d_not(d_eq(x[j], 0))), d_le(d_abs(v[i]), d_abs(v[j]))) for i in range(len(x)) for j in range(len(x)) if i != j]))]
            add("hard_thresholding", f"n={n},k={k}", dict(v=(n,)), lambda I, k=k: px.hard_thresholding(I["v"], k), claims_hard, dict(n=n, k=k), "nearest k-sparse point")
        def claims_maxnorm(I, out):
            v, x = _vec(I), list(out)
            m = d_max([d_abs(vi) for vi in v])
            return [("feasible: max|x| = 1", d_eq(d_max([d_abs(xi) for xi in x]), 1)), ("x is v rescaled by 1/max|v|", d_and(*[d_eq(xi * m, vi) for xi, vi in zip(x, v)]))]
        add("proximal_operator(normalize)", f"n={n}", dict(v=(n,)), lambda I: px.proximal_operator(I["v"], normalize=True), claims_maxnorm, inst, "max-normalisation of a non-zero vector",
            pre=lambda I: [D.SB(__import__("z3").Or(*[x.e != 0 for x in _vec(I)]))])
    # ---------------------------------------------------------------------- matrices: column-wise operators
    for (n, c) in [(2, 2), (3, 2)] if tier == "quick" else [(2, 2), (3, 2), (2, 3)]:
        def cols(A):
            A = D.lift_array(A)
            return [[A[i, j] for i in range(A.shape[0])] for j in range(A.shape[1])]
        def claims_simplex_m(I, out):
            res = []
            for j, (vc, xc) in enumerate(zip(cols(I["v"]), cols(out))):
                res.append((f"column {j}: feasible", d_and(d_eq(d_sum(xc), I["s"]), *[d_le(0, xi) for xi in xc])))
                res.append((f"column {j}: KKT", d_and(*[d_implies(d_lt(0, xc[a]), d_le(vc[b] - xc[b], vc[a] - xc[a])) for a in range(len(xc)) for b in range(len(xc))])))
            return res
        add("simplex_prox", f"matrix {n}x{c}", dict(v=(n, c)), lambda I: px.simplex_prox(I["v"], I["s"]), claims_simplex_m, dict(n=n, columns=c), "column-wise projection onto the simplex",
            params=dict(s=None), pre=lambda I: [I["s"] > 0])
        def claims_iso_m(I, out):
            res = []
            for j, (vc, xc) in enumerate(zip(cols(I["v"]), cols(out))):
                lam, acc = [], 0
                for vi, xi in zip(vc, xc):
                    acc = acc + (vi - xi)
                    lam.append(acc)
                res.append((f"column {j}: monotone", d_and(*[d_le(xc[i], xc[i + 1]) for i in range(len(xc) - 1)])))
                res.append((f"column {j}: KKT", d_and(d_eq(lam[-1], 0), *[d_le(0, lam[k]) for k in range(len(xc) - 1)], *[d_implies(d_lt(0, lam[k]), d_eq(xc[k], xc[k + 1])) for k in range(len(xc) - 1)])))
            return res
        add("monotonicity_prox", f"matrix {n}x{c}", dict(v=(n, c)), lambda I: px.monotonicity_prox(I["v"]), claims_iso_m, dict(n=n, columns=c), "column-wise isotonic regression")
        def claims_iso_dec(I, out):    # decreasing variant: every column, read bottom-up, is the isotonic fit of ITS OWN column read bottom-up
            rev_in = dict(I, v=D.lift_array(I["v"])[::-1, :])
            return claims_iso_m(rev_in, D.lift_array(out)[::-1, :])
        add("monotonicity_prox", f"matrix {n}x{c},decreasing=True", dict(v=(n, c)), lambda I: px.monotonicity_prox(I["v"], decreasing=True), claims_iso_dec, dict(n=n, columns=c, decreasing=True),
            "column-wise isotonic regression")
    # ---------------------------------------------------------------------- unimodal regression (small sizes: cost comparisons are quadratic)
    for n in (2, 3):
        def claims_uni(I, out):
            v, x = _vec(I), list(D.lift_array(out).ravel())
            n_ = len(x)
            # feasible: exists a peak p with x non-decreasing up to p and non-increasing after
            feas = d_or(*[d_and(*[d_le(x[i], x[i + 1]) for i in range(p)], *[d_le(x[i + 1], x[i]) for i in range(p, n_ - 1)]) for p in range(n_)])
            return [("feasible: unimodal", feas)]
        add("unimodality_prox", f"n={n}", dict(v=(n,)), lambda I: px.unimodality_prox(I["v"]), claims_uni, dict(n=n), "unimodal output (feasibility)")
    # ---------------------------------------------------------------------- proximal_operator with per-mode specifications: mode `order` gets ITS parameter, whatever
    # the form (scalar, list with holes, dictionary in any key order) - the result is the operator applied with that parameter (entrywise equal terms)
    for kind, direct, pa, pb in (("l1_reg", lambda v, t: px.soft_thresholding(v, t), 0.3, 1.5), ("l2_square_reg", lambda v, t: px.l2_square_prox(v, t), 0.2, 0.9),
                                 ("simplex", lambda v, t: px.simplex_prox(v, t), 1.5, 0.7), ("soft_sparsity", lambda v, t: px.soft_sparsity_prox(v, t), 1.2, 0.4)):
        forms = {"dict, keys ascending": {0: pa, 2: pb}, "dict, keys descending": {2: pb, 0: pa}, "list with a hole": [pa, None, pb]}
        for fname, spec in forms.items():
            for order, want in ((0, pa), (1, None), (2, pb)):
                def call(I, kind=kind, spec=spec, order=order):
                    return px.proximal_operator(I["v"], n_const=3, order=order, **{kind: spec})
                def claims(I, out, direct=direct, want=want):
                    ref = D.lift_array(I["v"]) if want is None else D.lift_array(direct(I["v"], want))
                    got = D.lift_array(out)
                    return [("the result is the operator applied with the parameter requested for this mode (the input itself for an unconstrained mode)",
                             d_and(*[d_eq(g, r) for g, r in zip(got.ravel(), ref.ravel())]) if got.shape == ref.shape else False)]
                add(f"proximal_operator({kind})", f"{fname},mode={order}", dict(v=(2, 2)), call, claims, dict(operator=kind, form=fname, mode=order), "per-mode parameter reaches the operator", check_domain=False)
    # ---------------------------------------------------------------------- a factor matrix keeps its shape under every operator reachable through
    # proximal_operator (single-column matrices included: constrained CP at rank 1 hands those over), for all values
    ops = dict(non_negative=True, l1_reg=0.3, l2_reg=0.4, l2_square_reg=0.2, unimodality=True, normalize=True, simplex=1.5, normalized_sparsity=1, soft_sparsity=1.2,
               smoothness=0.7, monotonicity=True, hard_sparsity=1)
    for kind, par in ops.items():
        for shape in ((2, 1), (2, 2)):
            add(f"proximal_operator({kind})", f"matrix {shape[0]}x{shape[1]}", dict(v=shape), lambda I, kind=kind, par=par: px.proximal_operator(I["v"], **{kind: par}),
                lambda I, out, shape=shape: [("the result has the shape of the input", tuple(D.lift_array(out).shape) == shape)],
                dict(operator=kind, shape=f"{shape[0]}x{shape[1]}"), "matrix in, matrix of the same shape out", check_domain=False)
    # ====================================================================== spectral operators (E1-generic, all sizes and entries): truncated_svd and the
    # entrywise soft-thresholding enter by contract (C05 resp. the obligations above); proved is what the wrapper does with them
    from ..oblig import GOb
    from ..symint import atom, SInt, current_ctx
    from ..iterative import stubbed, real_dtype
    from .. import gtensor as G
    import numpy as np
    n0, n1 = atom("n0"), atom("n1")

    def ent(cond):
        ctx = current_ctx()
        return bool(cond if isinstance(cond, bool) else (ctx.entails(cond) if ctx else cond))

    def spectral_stubs(S, rec):
        def tsvd(matrix, n_eigenvecs=None, **kw):
            rec.append(dict(op="truncated_svd", matrix=matrix, n_eigenvecs=n_eigenvecs, kw=dict(kw)))
            if S.name == "sym":
                a, b = matrix.shape
                kq = n_eigenvecs
                full = ent(SInt.lift(kq) == a) or ent(SInt.lift(kq) == b)    # the thin SVD with ALL min(shape) triplets: exact, and the factor on the short side is square orthogonal
                within = ent(SInt.lift(kq) <= a) and ent(SInt.lift(kq) <= b)
                out = (G.opaque_tensor("TSU", [a, kq], matrix.dtype, ortho_axis=(2 if ent(SInt.lift(kq) == a) else 0) if within else None),
                       G.opaque_tensor("TSS", [kq], real_dtype(matrix), nonneg=True),
                       G.opaque_tensor("TSV", [kq, b], matrix.dtype, ortho_axis=(2 if ent(SInt.lift(kq) == b) else 1) if within else None))
                if full and within:
                    G.register_factorisation(tuple(G.name_of(o) for o in out), matrix)
            else:
                U, s_, V = np.linalg.svd(matrix, full_matrices=False)
                out = tuple(S.record(nm, o) for nm, o in zip(("TSU", "TSS", "TSV"), (U[:, :n_eigenvecs], s_[:n_eigenvecs], V[:n_eigenvecs])))
            rec[-1]["out"] = out
            return out
        def soft(tensor, threshold):
            rec.append(dict(op="soft_thresholding", tensor=tensor, threshold=threshold))
            out = G.opaque_tensor("SOFT", list(tensor.shape), tensor.dtype, nonneg=True) if S.name == "sym" else S.record("SOFT", np.sign(tensor) * np.maximum(np.abs(tensor) - threshold, 0))
            rec[-1]["out"] = out
            return out
        return dict(tsvd=tsvd, soft=soft)

    for shape_case, sp_pre in {"tall": lambda I: [n1 <= n0], "wide": lambda I: [n0 <= n1]}.items():
        def setup(S):
            return dict(_S=S, M=S.input("M", [n0, n1]))
        def call_svt(I):
            S = I["_S"]
            rec = []
            st = spectral_stubs(S, rec)
            with stubbed(tl, truncated_svd=st["tsvd"]), stubbed(px, soft_thresholding=st["soft"]):
                out = px.svd_thresholding(I["M"], 0.375)
            return dict(out=out, rec=rec)
        def post_svt(S, I, r, shape_case=shape_case):
            a, b = S.shape(I["M"])
            svds = [c for c in r["rec"] if c["op"] == "truncated_svd"]
            softs = [c for c in r["rec"] if c["op"] == "soft_thresholding"]
            out = [("one SVD and one soft-thresholding", [len(svds), len(softs)], [1, 1])]
            if len(svds) != 1 or len(softs) != 1:
                return out
            U, s_, V = svds[0]["out"]
            kmin = b if shape_case == "tall" else a
            out += [("the SVD is taken of the matrix itself, with all min(shape) singular triplets", [svds[0]["matrix"], svds[0]["n_eigenvecs"]], [I["M"], kmin]),
                    ("the singular values - and nothing else - are soft-thresholded with the given threshold", [softs[0]["tensor"], softs[0]["threshold"]], [s_, 0.375]),
                    ]
            if len(S.shape(softs[0]["out"])) == 1:   # (anything else already fails the clause above)
                out.append(("result = U diag(soft(S, t)) V (the prox of t*nuclear norm, by the spectral lemma)", r["out"], S.einsum("ir,r,rj->ij", U, softs[0]["out"], V)))
            return out
        obs.append(GOb(PID, f"{PID}/tenalg.proximal:svd_thresholding/U diag(soft(S, t)) V of the full thin SVD[{shape_case}]", "tensorly.tenalg.proximal:svd_thresholding", setup, call_svt, post_svt, tenalg="core",
                       instance=dict(shape=shape_case), clause="singular-value thresholding: full thin SVD of the input, thresholded singular values, recomposed", forall=["matrix sizes", "entries"], enumerated=["tall / wide"], assumptions=sp_pre))
        def call_pr(I):
            S = I["_S"]
            rec = []
            st = spectral_stubs(S, rec)
            with stubbed(tl, truncated_svd=st["tsvd"]):
                out = px.procrustes(I["M"])
            return dict(out=out, rec=rec)
        def post_pr(S, I, r, shape_case=shape_case):
            a, b = S.shape(I["M"])
            svds = [c for c in r["rec"] if c["op"] == "truncated_svd"]
            out = [("one SVD", len(svds), 1)]
            if len(svds) != 1:
                return out
            U, s_, V = svds[0]["out"]
            P = r["out"]
            kmin = b if shape_case == "tall" else a
            out += [("the SVD is taken of the matrix itself, with all min(shape) singular triplets", [svds[0]["matrix"], svds[0]["n_eigenvecs"]], [I["M"], kmin]),
                    ("result = U V (the polar factor: nearest matrix with orthonormal columns / rows, by the Procrustes lemma)", P, S.einsum("ir,rj->ij", U, V)),
                    ("shape of the input", list(S.shape(P)), [a, b])]
            if shape_case == "tall":
                out.append(("feasible: orthonormal columns, Pᴴ P = I", S.einsum("ia,ib->ab", S.conj(P), P), S.eye(b)))
            else:
                out.append(("feasible: orthonormal rows, P Pᴴ = I", S.einsum("aj,bj->ab", P, S.conj(P)), S.eye(a)))
            out.append(("the matrix is P times a symmetric positive semi-definite factor (polar decomposition): M = P (Vᴴ diag(S) V)" if shape_case == "tall" else
                        "the matrix is a symmetric positive semi-definite factor times P (polar decomposition): M = (U diag(S) Uᴴ) P",
                        I["M"], S.einsum("il,rl,r,rj->ij", P, S.conj(V), s_, V) if shape_case == "tall" else S.einsum("ir,r,lr,lj->ij", U, s_, S.conj(U), P)))
            return out
        obs.append(GOb(PID, f"{PID}/tenalg.proximal:procrustes/polar factor U V of the full thin SVD ∧ feasible[{shape_case}]", "tensorly.tenalg.proximal:procrustes", setup, call_pr, post_pr, tenalg="core",
                       instance=dict(shape=shape_case), clause="Procrustes: polar factor of the input, orthonormal columns (tall) / rows (wide), M = P·(psd factor)", forall=["matrix sizes", "entries"], enumerated=["tall / wide"], assumptions=sp_pre))

    # ---------------------------------------------------------------------- normalised sparsity = hard thresholding (its own obligations above), then division by the
    # Frobenius norm of the WHOLE thresholded array: all sizes, entries and sparsity levels; vectors and matrices
    for nd in (1, 2):
        def setup(S, nd=nd):
            return dict(_S=S, v=S.input("v", [n0, n1][:nd]), k=atom("k"))
        def call_ns(I):
            S = I["_S"]
            rec = []
            def hard(tensor, number_of_non_zero):
                rec.append(dict(tensor=tensor, k=number_of_non_zero))
                out = G.opaque_tensor("HARD", list(tensor.shape), tensor.dtype) if S.name == "sym" else S.record("HARD", np.where(np.argsort(np.argsort(-np.abs(np.ravel(tensor)), kind="stable"), kind="stable").reshape(np.shape(tensor)) < int(number_of_non_zero), tensor, 0.0))
                rec[-1]["out"] = out
                return out
            with stubbed(px, hard_thresholding=hard):
                out = px.normalized_sparsity_prox(I["v"], I["k"])
            return dict(out=out, rec=rec)
        def post_ns(S, I, r):
            out = [("hard thresholding runs once, on the input, at the requested sparsity level", [len(r["rec"])] + [r["rec"][0]["tensor"], r["rec"][0]["k"]] if r["rec"] else [0], [1, I["v"], I["k"]])]
            if len(r["rec"]) != 1:
                return out
            H = r["rec"][0]["out"]
            # (unit norm follows: ||result|| * ||H|| = ||H||, H not zero; the quotient of a sum by itself is outside the canonical form's cancellation rules, so that
            #  consequence is left to the lemma and to the native survey)
            out += [("result * ||H|| = H: the thresholded array divided by its Frobenius norm (support and signs of H kept)", r["out"] * S.sqrt(S.sumsq(H)), H)]
            return out
        obs.append(GOb(PID, f"{PID}/tenalg.proximal:normalized_sparsity_prox/hard-thresholded input divided by its Frobenius norm[{'vector' if nd == 1 else 'matrix'}]", "tensorly.tenalg.proximal:normalized_sparsity_prox", setup, call_ns, post_ns, tenalg="core",
                       instance=dict(input="vector" if nd == 1 else "matrix"), clause="normalised sparsity: H / ||H|| with H the hard-thresholded input", forall=["sizes", "entries", "sparsity level"], enumerated=["vector / matrix"], side_nonzero=True))

    # ====================================================================== bounded stand-in (never counted as proved): the proofs above are size-bounded
    # (n <= 3, 4 thorough); the native survey compares every operator with an independent reference at lengths 1-8 and scales 1e-3 .. 1e3
    from .c09 import BoundedOb
    from . import e2e_native
    obs.append(BoundedOb(f"{PID}/bounded/native survey: every operator against an independent reference at lengths 1-8", "tensorly.tenalg.proximal:*",
                         lambda: e2e_native.c12(tier), dict(lengths="1-8", inputs="signed, all-negative, all-positive, ties and zeros", scales="1e-3, 1, 1e3"),
                         "seed 0; tolerance 1e-9 relative to the scale; idempotence of projections; firm non-expansiveness on 60 pairs per operator", pid=PID))
    return obs


def canaries(tier):
    import tensorly.tenalg.proximal as px
    def claims(I, out):
        v, x, t = _vec(I), list(out), I["t"]
        return [("wrong penalty: optimality for 2t", d_and(*[d_implies(d_lt(0, xi), d_eq(vi - xi, 2 * t)) for xi, vi in zip(x, v)]))]
    return [DOb(PID, f"{PID}/canary/soft-thresholding-optimal-for-the-wrong-penalty", "tensorly.tenalg.proximal:soft_thresholding", dict(v=(2,)),
                lambda I: px.soft_thresholding(I["v"], I["t"]), claims, params=dict(t=None), pre=lambda I: [I["t"] > 0], instance={}, clause="canary")]
