"""C02  Multilinear products equal their definitions under either tenalg backend.

Every function is reached through the real dispatcher `tensorly.tenalg.<fn>` after `tenalg.set_backend(be)`.
Spec functions: vt/specs.py (index formulas).  Entries are complex-capable (conj flag), so the instances with
complex128 operands prove the conjugation clauses.
"""
import itertools

from ..oblig import GOb
from ..symint import atom
from .. import specs as SP

PID = "C02"
LEVEL = "proof"
BACKENDS = ("core", "einsum")
TRUSTED_BASE = [
    "numpy einsum/dot/matmul/tensordot/reshape/transpose contracts (validated each run by vt.primcheck)",
    "CPython; shadows int/np/math.prod",
    "the VC generator (canaries + soundness monitor)",
]
ASSUMPTIONS = [
    "machine floats treated as reals/complex numbers in algebraic obligations (A1)",
    "tensor order, operand count, and sizes that drive Python loops (rank in unfolding_dot_khatri_rao_memory, order in higher_order_moment) are enumerated; all other sizes and all entries are universally quantified",
    "CP weights are real-valued (conjugation of weights is not part of the formula)",
]
QUANTIFICATION = "forall mode sizes >= 1, ranks, real/complex entries; enumerated: tensor order <= 4 (quick) / 5 (thorough), operand counts <= 3/4, modes, option combinations, tenalg backend"
EXPLANATION = ("Each obligation runs the real tenalg function (through TenalgBackendManager dispatch) on symbolic operands and compares the "
               "closed-form result with the index formula in canonical form; holding under both backends gives core == einsum.")

C = "complex128"


def dims(N, p="n"):
    return [atom(f"{p}{k}") for k in range(N)]


def obligations(tier):
    from tensorly import tenalg
    import tensorly.tenalg.core_tenalg.mttkrp as core_mttkrp

    maxN = 4 if tier == "quick" else 5
    obs = []

    def add(be, fn, tag, setup, call, post, instance, clause="result≡index-formula", **kw):
        inst = dict(instance, tenalg=be)
        obs.append(GOb(PID, f"{PID}/tenalg.{fn}/{clause}[{be},{tag}]", f"tensorly.tenalg.{be}_tenalg:{fn}", setup, call, post, tenalg=be,
                       instance=inst, clause=clause, forall=["mode sizes", "ranks", "entries (real and complex)"], enumerated=list(inst), **kw))

    J, K, R = atom("J"), atom("K"), atom("R")
    for be in BACKENDS:
        # ------------------------------------------------------------------ mode_dot
        for N in range(1, maxN + 1):
            for m in range(N):
                for kind in ("matrix", "matrix^H", "vector"):
                    def setup(S, N=N, m=m, kind=kind):
                        n = dims(N)
                        X = S.input("X", n, C)
                        if kind == "matrix":
                            M = S.input("M", [J, n[m]], C)
                        elif kind == "matrix^H":
                            M = S.input("M", [n[m], J], C)
                        else:
                            M = S.input("M", [n[m]], C)
                        return dict(X=X, M=M)
                    tr = kind == "matrix^H"
                    add(be, "mode_dot", f"N={N},mode={m},{kind}", setup,
                        lambda I, m=m, tr=tr: tenalg.mode_dot(I["X"], I["M"], m, transpose=tr),
                        lambda S, I, r, m=m, tr=tr: [("result", r, SP.mode_dot(S, I["X"], I["M"], m, tr))],
                        dict(order=N, mode=m, operand=kind))
                # shape precondition violated => ValueError
                def setup_bad(S, N=N, m=m):
                    n = dims(N)
                    return dict(X=S.input("X", n), M=S.input("M", [J, K]), n=n)
                add(be, "mode_dot", f"N={N},mode={m},mismatch", setup_bad,
                    lambda I, m=m: tenalg.mode_dot(I["X"], I["M"], m), None, dict(order=N, mode=m), clause="shape-mismatch⇒ValueError",
                    raises=ValueError, assumptions=lambda I, m=m: [K != I["n"][m]])
        # ------------------------------------------------------------------ multi_mode_dot
        for N in range(2, maxN + 1):
            mode_sets = []
            for k in range(1, N + 1):
                for ms in itertools.combinations(range(N), k):
                    mode_sets.append(list(ms))
                    if k >= 2:
                        mode_sets.append(list(ms)[::-1])
            for modes in mode_sets:
                full = modes == list(range(N))
                kinds_list = [["M"] * len(modes), ["v"] * len(modes)]
                if len(modes) >= 2:
                    kinds_list.append([("M" if i % 2 == 0 else "v") for i in range(len(modes))])
                    kinds_list.append([("v" if i % 2 == 0 else "M") for i in range(len(modes))])
                for kinds in kinds_list:
                    for tr in (False, True):
                        skips = [None] + (list(range(len(modes))) if (modes == sorted(modes) and (tier == "thorough" or not tr)) else [])
                        for skip in skips:
                            def setup(S, N=N, modes=modes, kinds=kinds, tr=tr):
                                n = dims(N)
                                X = S.input("X", n, C)
                                ops = []
                                for i, (m, kd) in enumerate(zip(modes, kinds)):
                                    Ji = atom(f"J{i}")
                                    if kd == "M":
                                        ops.append(S.input(f"A{i}", [n[m], Ji] if tr else [Ji, n[m]], C))
                                    else:
                                        ops.append(S.input(f"A{i}", [n[m]], C))
                                return dict(X=X, ops=ops)
                            margs = None if full else modes
                            add(be, "multi_mode_dot", f"N={N},modes={margs},ops={''.join(kinds)},transpose={tr},skip={skip}", setup,
                                lambda I, margs=margs, skip=skip, tr=tr: tenalg.multi_mode_dot(I["X"], I["ops"], modes=margs, skip=skip, transpose=tr),
                                lambda S, I, r, modes=modes, skip=skip, tr=tr: [("result", r, SP.multi_mode_dot(S, I["X"], I["ops"], modes, skip, tr))],
                                dict(order=N, modes=margs, operands="".join(kinds), transpose=tr, skip=skip))
        # ------------------------------------------------------------------ kronecker / khatri_rao
        maxP = 3 if tier == "quick" else 4
        for P in range(1, maxP + 1):
            for skip in [None] + list(range(P)):
                if P == 1 and skip is not None:
                    continue
                for rev in (False, True):
                    def setup(S, P=P):
                        return dict(ms=[S.input(f"A{q}", [atom(f"n{q}"), atom(f"m{q}")], C) for q in range(P)])
                    def post(S, I, r, skip=skip, rev=rev):
                        ms = [a for q, a in enumerate(I["ms"]) if q != skip]
                        if rev:
                            ms = ms[::-1]
                        return [("result", r, SP.kronecker(S, ms))]
                    add(be, "kronecker", f"P={P},skip={skip},reverse={rev}", setup,
                        lambda I, skip=skip, rev=rev: tenalg.kronecker(I["ms"], skip_matrix=skip, reverse=rev), post,
                        dict(n_matrices=P, skip_matrix=skip, reverse=rev))
                for wts in (False, True):
                    for msk in (False, True):
                        def setup(S, P=P, skip=skip, wts=wts, msk=msk):
                            ms = [S.input(f"U{q}", [atom(f"n{q}"), R], C) for q in range(P)]
                            rows = [atom(f"n{q}") for q in range(P) if q != skip]
                            return dict(ms=ms, w=S.input("w", [R]) if wts else None, mask=S.input("mask", rows) if msk else None)
                        def post(S, I, r, skip=skip):
                            ms = [a for q, a in enumerate(I["ms"]) if q != skip]
                            return [("result", r, SP.khatri_rao(S, ms, I["w"], I["mask"]))]
                        add(be, "khatri_rao", f"P={P},skip={skip},weights={wts},mask={msk}", setup,
                            lambda I, skip=skip: tenalg.khatri_rao(list(I["ms"]), weights=I["w"], skip_matrix=skip, mask=I["mask"]), post,
                            dict(n_matrices=P, skip_matrix=skip, weights=wts, mask=msk))
        # ------------------------------------------------------------------ MTTKRP
        for N in range(2, maxN + 1):
            for m in range(N):
                for wts in (False, True):
                    def setup(S, N=N, wts=wts):
                        n = dims(N)
                        return dict(X=S.input("X", n, C), w=S.input("w", [R]) if wts else None,
                                    fs=[S.input(f"U{q}", [n[q], R], C) for q in range(N)])
                    add(be, "unfolding_dot_khatri_rao", f"N={N},mode={m},weights={wts}", setup,
                        lambda I, m=m: tenalg.unfolding_dot_khatri_rao(I["X"], (I["w"], I["fs"]), m),
                        lambda S, I, r, m=m: [("result", r, SP.mttkrp(S, I["X"], I["w"], I["fs"], m))],
                        dict(order=N, mode=m, weights=wts))
        # ------------------------------------------------------------------ inner / outer / batched_outer
        for na in range(1, maxN + 1):
            def setup(S, na=na):
                n = dims(na)
                return dict(A=S.input("A", n, C), B=S.input("B", n, C))
            add(be, "inner", f"N={na},n_modes=None", setup, lambda I: tenalg.inner(I["A"], I["B"]),
                lambda S, I, r: [("result", r, SP.inner(S, I["A"], I["B"]))], dict(order=na, n_modes=None))
            for nb in range(1, maxN + 1):
                for k in range(1, min(na, nb) + 1):
                    def setup(S, na=na, nb=nb, k=k):
                        a = dims(na, "a")
                        b = a[na - k:] + dims(nb - k, "b")
                        return dict(A=S.input("A", a, C), B=S.input("B", b, C))
                    add(be, "inner", f"orders={na}x{nb},n_modes={k}", setup, lambda I, k=k: tenalg.inner(I["A"], I["B"], n_modes=k),
                        lambda S, I, r, k=k: [("result", r, SP.inner(S, I["A"], I["B"], k))], dict(orders=[na, nb], n_modes=k))
        for shapes in ([1], [2], [1, 1], [1, 2], [2, 1], [2, 2], [1, 1, 1], [1, 2, 1], [3, 1]) + (([2, 2, 2], [1, 3, 2]) if tier == "thorough" else ()):
            def setup(S, shapes=shapes):
                return dict(ts=[S.input(f"T{i}", dims(o, f"t{i}_"), C) for i, o in enumerate(shapes)])
            add(be, "outer", f"orders={shapes}", setup, lambda I: tenalg.outer(I["ts"]),
                lambda S, I, r: [("result", r, SP.outer(S, I["ts"]))], dict(orders=shapes))
            def setup_b(S, shapes=shapes):
                B_ = atom("B")
                return dict(ts=[S.input(f"T{i}", [B_] + dims(o, f"t{i}_"), C) for i, o in enumerate(shapes)])
            add(be, "batched_outer", f"orders={shapes}", setup_b, lambda I: tenalg.batched_outer(I["ts"]),
                lambda S, I, r: [("result", r, SP.batched_outer(S, I["ts"]))], dict(orders=shapes))
        # ------------------------------------------------------------------ batched tensordot
        for na in range(1, 4):
            for nb in range(1, 4):
                cases = []
                for nc in range(0, min(na, nb) + 1):
                    for nbt in range(0, min(na, nb) - nc + 1):
                        for sel1 in itertools.permutations(range(na), nc + nbt):
                            # choose matching positions in B: a fixed injective pattern plus its reverse
                            for sel2 in {tuple(range(nc + nbt)), tuple(range(nb - 1, nb - 1 - (nc + nbt), -1))}:
                                if len(set(sel2)) != nc + nbt or any(x < 0 for x in sel2):
                                    continue
                                cases.append((list(sel1[:nc]), list(sel2[:nc]), list(sel1[nc:]), list(sel2[nc:])))
                if tier == "quick":
                    cases = cases[:: max(1, len(cases) // 12)]
                for m1, m2, b1, b2 in cases:
                    def setup(S, na=na, nb=nb, m1=m1, m2=m2, b1=b1, b2=b2):
                        a = dims(na, "a")
                        b = dims(nb, "b")
                        for x, y in zip(m1 + b1, m2 + b2):
                            b[y] = a[x]
                        return dict(A=S.input("A", a, C), B=S.input("B", b, C))
                    add(be, "tensordot", f"orders={na}x{nb},modes=({m1},{m2}),batched=({b1},{b2})", setup,
                        lambda I, m1=m1, m2=m2, b1=b1, b2=b2: tenalg.tensordot(I["A"], I["B"], (m1, m2), (b1, b2)),
                        lambda S, I, r, m1=m1, m2=m2, b1=b1, b2=b2: [("result", r, SP.tensordot(S, I["A"], I["B"], m1, m2, b1, b2))],
                        dict(orders=[na, nb], modes=[m1, m2], batched_modes=[b1, b2]))
        # ------------------------------------------------------------------ higher-order moments
        for feat in (1, 2):
            for order in (1, 2, 3):
                def setup(S, feat=feat):
                    return dict(X=S.input("X", [atom("ns")] + dims(feat, "f")))
                def post(S, I, r, order=order):
                    tot, n = SP.higher_order_moment(S, I["X"], order)
                    return [("result·n_samples", r * n if S.name == "num" else r * S.size(n), tot)]
                add(be, "higher_order_moment", f"features={feat},order={order}", setup,
                    lambda I, order=order: tenalg.higher_order_moment(I["X"], order), post,
                    dict(feature_modes=feat, order=order), clause="result≡mean of p-fold outer products")
        # ------------------------------------------------------------------ TT-matrix to tensor
        for d in range(1, (3 if tier == "quick" else 4) + 1):
            def setup(S, d=d):
                rk = [1] + [atom(f"r{k}") for k in range(1, d)] + [1]
                return dict(cores=[S.input(f"G{k}", [rk[k], atom(f"in{k}"), atom(f"out{k}"), rk[k + 1]], C) for k in range(d)])
            add(be, "_tt_matrix_to_tensor", f"d={d}", setup, lambda I: tenalg._tt_matrix_to_tensor(I["cores"]),
                lambda S, I, r: [("result", r, SP.tt_matrix_to_tensor(S, I["cores"]))], dict(n_cores=d))
    # ---------------------------------------------------------------------- memory-efficient MTTKRP (core only)
    for N in range(2, maxN + 1):
        for m in range(N):
            for wts in (False, True):
                for rank in (1, 2, 3):
                    def setup(S, N=N, wts=wts, rank=rank):
                        n = dims(N)
                        return dict(X=S.input("X", n, C), w=S.input("w", [rank]) if wts else None,
                                    fs=[S.input(f"U{q}", [n[q], rank], C) for q in range(N)])
                    obs.append(GOb(PID, f"{PID}/core_tenalg.mttkrp.unfolding_dot_khatri_rao_memory/result≡index-formula[N={N},mode={m},weights={wts},rank={rank}]",
                                   "tensorly.tenalg.core_tenalg.mttkrp:unfolding_dot_khatri_rao_memory", setup,
                                   lambda I, m=m: core_mttkrp.unfolding_dot_khatri_rao_memory(I["X"], (I["w"], I["fs"]), m),
                                   lambda S, I, r, m=m: [("result", r, SP.mttkrp(S, I["X"], I["w"], I["fs"], m))], tenalg="core",
                                   instance=dict(order=N, mode=m, weights=wts, rank=rank), clause="result≡index-formula",
                                   forall=["mode sizes", "entries"], enumerated=["order", "mode", "weights", "rank"]))
    # ---------------------------------------------------------------------- sample_khatri_rao (decomposition/_cp.py)
    import tensorly.decomposition._cp as _cp
    for P in range(1, (3 if tier == "quick" else 4) + 1):
        for skip in [None] + (list(range(P)) if P > 1 else []):
            def setup(S, P=P, skip=skip):
                ns_ = atom("nsamp")
                ms = [S.input(f"U{q}", [atom(f"n{q}"), R], C) for q in range(P)]
                keep = [q for q in range(P) if q != skip]
                idx = [S.int_input(f"idx{q}", [ns_], atom(f"n{q}")) for q in keep]
                return dict(ms=ms, idx=idx, keep=keep, n_samples=ns_, sizes=[atom(f"n{q}") for q in keep])
            def post(S, I, r, skip=skip):
                skr, idx_out, idx_kr = r
                want = None
                for q, ix in zip(I["keep"], I["idx"]):
                    rows = S.gather(I["ms"][q], 0, ix)
                    want = rows if want is None else S.einsum("sr,sr->sr", want, rows)
                flat = None
                for k, ix in enumerate(I["idx"]):
                    mult = 1
                    for sz in I["sizes"][k + 1:]:
                        mult = mult * sz
                    term = ix * mult if S.name == "num" else ix * S.size(mult)
                    flat = term if flat is None else flat + term
                return [("sampled rows", skr, want), ("flat row index (mixed radix)", idx_kr, flat)]
            obs.append(GOb(PID, f"{PID}/decomposition._cp.sample_khatri_rao/result≡index-formula[P={P},skip={skip}]",
                           "tensorly.decomposition._cp:sample_khatri_rao", setup,
                           lambda I, skip=skip: _cp.sample_khatri_rao(I["ms"], I["n_samples"], skip_matrix=skip, indices_list=I["idx"], return_sampled_rows=True),
                           post, tenalg="core", instance=dict(n_matrices=P, skip_matrix=skip), clause="result≡index-formula",
                           forall=["mode sizes", "rank", "sample count", "entries", "sampled indices"], enumerated=["n_matrices", "skip_matrix"]))
    # ---------------------------------------------------------------------- _validate_contraction_modes (pure Python on shapes)
    from tensorly.tenalg.tenalg_utils import _validate_contraction_modes as vcm
    from ..oblig import Obligation, Verdict, PROVED, REFUTED

    class VcmOb(Obligation):
        engine = "enumeration+z3-paths"

        def __init__(self, name, fn, instance):
            super().__init__(PID, name, "tensorly.tenalg.tenalg_utils:_validate_contraction_modes", instance=instance,
                             clause="normalised modes / rejection", forall=["mode sizes"], enumerated=list(instance))
            self.fn = fn

        def run(self):
            ok, why = self.fn()
            return Verdict(PROVED if ok else REFUTED, "path-condition", why, witness=dict(replayable=True) if not ok else None)

        def replay(self, witness):
            return self.fn()

    def vcm_case(n1, n2, modes, batched, same_sizes):
        def fn():
            from ..symint import explore
            a = dims(n1, "a")
            b = dims(n2, "b")
            if isinstance(modes, int):
                m1 = list(range(-modes, 0)) if not batched else [modes]
                m2 = list(range(0, modes)) if not batched else [modes]
            else:
                m1, m2 = modes
                m1 = [m1] if isinstance(m1, int) else list(m1)
                m2 = [m2] if isinstance(m2, int) else list(m2)
            if len(m1) != len(m2):
                ps = explore(lambda: vcm(tuple(a), tuple(b), modes, batched))
                return all(p.kind == "exc" and isinstance(p.value, ValueError) for p in ps), "expected ValueError for unequal mode counts"
            if same_sizes:
                for x, y in zip(m1, m2):
                    b[y] = a[x]
            ps = explore(lambda: vcm(tuple(a), tuple(b), modes, batched))
            want = ([x % n1 for x in m1], [y % n2 for y in m2])
            for p in ps:
                if same_sizes:
                    if p.kind != "ok" or (list(p.value[0]), list(p.value[1])) != want:
                        return False, f"got {p.value!r} expected {want}"
                else:
                    # sizes independent atoms: returning normally is only allowed on paths where all paired sizes are equal
                    if p.kind == "ok":
                        for x, y in zip(m1, m2):
                            if not p.ctx.entails(a[x] == b[y]):
                                return False, f"returned normally although size {a[x]} != {b[y]} is feasible"
                        if (list(p.value[0]), list(p.value[1])) != want:
                            return False, f"got {p.value!r} expected {want}"
                    elif not isinstance(p.value, ValueError):
                        return False, f"unexpected {p.value!r}"
            return True, ""
        return fn

    for n1 in (1, 2, 3):
        for n2 in (1, 2, 3):
            cases = [(0, False), (1, False), (min(n1, n2), False), (0, True), (-1, True), (([0], [0]), False), (([-1], [0]), False),
                     (([0, -1], [-1, 0]), False), (([0], [0, 1]), False), ((0, 0), True), (([n1 - 1], [n2 - 1]), True), (((), ()), False)]
            for modes, batched in [c for i, c in enumerate(cases) if repr(c) not in [repr(d) for d in cases[:i]]]:
                if isinstance(modes, int) and abs(modes) > min(n1, n2):
                    continue
                if not isinstance(modes, int) and any(len(set(x % n for x in ms)) != len(ms) or len(ms) > n for ms, n in zip([m if not isinstance(m, int) else [m] for m in modes], (n1, n2))):
                    continue
                for same_sizes in (True, False):
                    nm = f"{PID}/tenalg_utils._validate_contraction_modes/normalised-or-rejected[orders={n1}x{n2},modes={modes},batched={batched},sizes={'paired-equal' if same_sizes else 'independent'}]"
                    obs.append(VcmOb(nm, vcm_case(n1, n2, modes, batched, same_sizes), dict(orders=[n1, n2], modes=modes, batched=batched, same_sizes=same_sizes)))
    return obs


def canaries(tier):
    from tensorly import tenalg
    def setup(S):
        n = dims(3)
        return dict(X=S.input("X", n, C), M=S.input("M", [atom("J"), n[1]], C))
    return [GOb(PID, f"{PID}/canary/mode_dot-without-conj", "tensorly.tenalg:mode_dot", setup,
                lambda I: tenalg.mode_dot(I["X"], I["M"], 1),
                lambda S, I, r: [("result", r, SP.mode_dot(S, I["X"], S.conj(I["M"]), 1))], tenalg="core", instance={}, clause="canary")]
