"""C08  Decomposition outputs honour requested structure and canonical form.

E1-generic with symbolic sizes and ranks: shapes / ranks / boundary conditions of the returned factors; orthonormality and
projection clauses by provenance (the factors ARE the singular vectors returned by svd_interface, whose contract gives
orthonormality — hypothesis rewriting); normalisation contract decided per loop-exit path (cap and every break) by running the
loop-cut body from an arbitrary iterate and then the suffix.
"""
from ..oblig import GOb
from ..symint import atom, EngineError, sprod
from ..loopcut import LoopCut
from ..iterative import Probe, stubbed, make_svd_stub
from .. import specs as SP
from .. import gtensor as G

PID = "C08"
LEVEL = "proof"
TRUSTED_BASE = [
    "svd_interface contract (A3): orthonormal singular vectors, non-negative singular values; its arguments are recorded and checked (conformance)",
    "inner solvers (solve, hals_nnls, fista, ...) havoc'd: structure must hold whatever they return",
    "numpy primitive contracts (vt.primcheck); CPython; loop extraction; the VC generator",
]
ASSUMPTIONS = [
    "floats as reals (A1); unit-norm clauses in cleared-denominator form under the side condition 'no zero column'",
    "order enumerated (2..3 quick, 2..4 thorough); rank specifications are ints / lists (symbolic); 'same' and fractional rank specifications (validate_*_rank rounding) are not covered",
    "Tucker with n_iter_max = 0 is considered for SVD initialisation only (a random start with zero sweeps returns the random start)",
]
QUANTIFICATION = "forall mode sizes, ranks, data, current iterate, solver outputs; every loop-exit kind; enumerated: order, options"
EXPLANATION = "Shapes are symbolic tuples compared structurally; orthonormality by ORTHO hypothesis rewriting; normalisation clauses per exit path."


def dims(N, p="n"):
    return [atom(f"{p}{k}") for k in range(N)]


def unit_norm_pairs(S, label, factors, side="columns"):
    out = []
    for k, F in enumerate(factors):
        g, w = S.cleared(S.einsum("ir,ir->r", F, S.conj(F)), S.ones([S.shape(F)[1]]))
        out.append((f"{label}: factor {k} has unit-norm columns (denominators cleared)", g, w))
    return out


def obligations(tier):
    import tensorly.decomposition._cp as _cp
    import tensorly.decomposition._nn_cp as _nn
    import tensorly.decomposition._tucker as _tk
    import tensorly.decomposition._tt as _tt
    import tensorly.decomposition._tr_svd as _trs
    import tensorly.decomposition._parafac2 as _p2
    from tensorly.cp_tensor import CPTensor

    maxN = 3 if tier == "quick" else 4
    obs = []
    R = atom("R")

    def add(fn, tag, setup, call, post, instance, clause, **kw):
        obs.append(GOb(PID, f"{PID}/{fn}/{clause}[{tag}]", f"tensorly.decomposition.{fn}", setup, call, post, tenalg="core", instance=instance, clause=clause,
                       forall=["mode sizes", "ranks", "data", "current iterate", "solver outputs"], enumerated=list(instance), **kw))

    # ====================================================================== CP family: shapes and the normalisation contract on every exit path
    def cp_setup(N):
        def setup(S):
            n = dims(N)
            return dict(_S=S, X=S.input("X", n), fs=[S.input(f"U{k}", [n[k], R]) for k in range(N)], n=n, e1=S.input("e_prev1", []), e2=S.input("e_prev2", []))
        return setup
    def hals_stub(UtM, UtU, V=None, **kw):
        if isinstance(V, G.GTensor):
            return G.opaque_tensor("HALS", G.axis_sizes(V), V.dtype)
        from tensorly.solvers.nnls import hals_nnls as real
        out = real(UtM, UtU, V, **kw)
        if _CUR["S"] is not None:
            _CUR["S"].record("HALS", out)
        return out
    _CUR = {"S": None}
    def run_cp_exit(func, module, I, kwargs, it, stubs=None):
        S = I["_S"]
        _CUR["S"] = S if S.name == "num" else None
        cut = LoopCut(func)
        # contract of the initialiser for non-user init: unit weights (None) and factors of shape (n_k, R); with
        # normalize_factors=True it returns normalised factors — the sweep re-establishes that itself, so an arbitrary start is used
        with stubbed(module, initialize_cp=lambda *a, **k: CPTensor((None, list(I["fs"]))), **(stubs or {})):
            st = cut.prefix(I["X"], R if S.name == "sym" else I["fs"][0].shape[1], **kwargs)
            st["factors"] = list(st["factors"])
            st["rec_errors"] = [I["e2"], I["e1"]]
            kind, st2 = cut.body(st, it)
            exit_w, exit_f = st2["weights"], list(st2["factors"])
            ret = cut.suffix(st2)
        cp = ret[0] if isinstance(ret, tuple) and isinstance(ret[0], CPTensor) else ret
        return dict(kind=kind, weights=cp.weights, factors=list(cp.factors), shape=cp.shape, rank=cp.rank, exit_w=exit_w, exit_f=exit_f)
    def cp_exit_post(normalize):
        def post(S, I, r):
            out = [(f"[exit: {r['kind']}] factor shapes are (n_k, R)", [tuple(S.shape(f)) for f in r["factors"]], [(nk, S.shape(I["fs"][0])[1]) for nk in [S.shape(f)[0] for f in I["fs"]]]),
                   (f"[exit: {r['kind']}] weights have length R", tuple(S.shape(r["weights"])), (S.shape(I["fs"][0])[1],)),
                   (f"[exit: {r['kind']}] the returned CP tensor represents the iterate the loop ended with", SP.cp_to_tensor(S, r["weights"], r["factors"]), SP.cp_to_tensor(S, r["exit_w"], r["exit_f"]))]
            if normalize:
                out += unit_norm_pairs(S, f"[exit: {r['kind']}] normalize_factors=True", r["factors"])
            else:
                out.append((f"[exit: {r['kind']}] normalize_factors=False: weights are all ones", r["weights"], S.ones([S.shape(I["fs"][0])[1]])))
            return out
        return post
    cp_algos = [("_cp:parafac", _cp.parafac, _cp, None), ("_nn_cp:non_negative_parafac", _nn.non_negative_parafac, _nn, None),
                ("_nn_cp:non_negative_parafac_hals", _nn.non_negative_parafac_hals, _nn, dict(hals_nnls=hals_stub))]
    for N in range(2, maxN + 1):
        for fn, func, module, stubs in cp_algos:
            for normalize in (False, True):
                if N >= 4 and normalize and "non_negative" in fn:
                    continue  # (order-4 normalised multiplicative / HALS sweeps exceed the per-obligation budget: orders 2-3 only)
                for it in (0, 1):  # iteration 0 cannot break on convergence; iteration >= 1 explores both the break and the continue/cap exits
                    add(fn, f"N={N},normalize_factors={normalize},iteration-class={it}", cp_setup(N),
                        lambda I, func=func, module=module, normalize=normalize, it=it, stubs=stubs: run_cp_exit(func, module, I, dict(return_errors=True, normalize_factors=normalize), it, stubs),
                        cp_exit_post(normalize), dict(order=N, normalize_factors=normalize, iteration_class=it),
                        "shapes ∧ normalisation contract on every loop-exit path", side_nonzero=True)
    # ---- exit through a callback returning True (parafac is the only CP routine with a stopping callback)
    for N in range(2, maxN + 1):
        for normalize in (False, True):
            for it in (0, 1):
                add("_cp:parafac", f"N={N},normalize_factors={normalize},iteration-class={it},callback returns True", cp_setup(N),
                    lambda I, normalize=normalize, it=it: run_cp_exit(_cp.parafac, _cp, I, dict(return_errors=True, normalize_factors=normalize, callback=lambda cp, err=None: True), it),
                    cp_exit_post(normalize), dict(order=N, normalize_factors=normalize, iteration_class=it, callback="returns True"),
                    "shapes ∧ normalisation contract on every loop-exit path", side_nonzero=True)
    # ---- zero iteration budget with a user-supplied initialisation: the loop is never entered, the contract still holds
    def cp_w_setup(N):
        def setup(S):
            n = dims(N)
            return dict(_S=S, X=S.input("X", n), w=S.input("w", [R]), fs=[S.input(f"U{k}", [n[k], R]) for k in range(N)], n=n)
        return setup
    for N in range(2, maxN + 1):
        for fn, func, module, stubs in cp_algos:
            def call0(I, func=func):
                S = I["_S"]
                cp = func(I["X"], R if S.name == "sym" else I["fs"][0].shape[1], n_iter_max=0, init=CPTensor((I["w"], list(I["fs"]))), normalize_factors=True)
                return dict(weights=cp.weights, factors=list(cp.factors))
            def post0(S, I, r):
                return ([("[zero budget] the returned CP tensor represents the supplied initialisation", SP.cp_to_tensor(S, r["weights"], r["factors"]), SP.cp_to_tensor(S, I["w"], I["fs"])),
                         ("[zero budget] factor shapes", [tuple(S.shape(f)) for f in r["factors"]], [tuple(S.shape(f)) for f in I["fs"]])]
                        + unit_norm_pairs(S, "[zero budget] normalize_factors=True", r["factors"]))
            add(fn, f"N={N},normalize_factors=True,n_iter_max=0,user init", cp_w_setup(N), call0, post0, dict(order=N, normalize_factors=True, n_iter_max=0, init="CPTensor"),
                "shapes ∧ normalisation contract on every loop-exit path", side_nonzero=True)
    # ---- ... and without normalisation a user initialisation with non-unit weights still comes back with all-ones weights (the weights are absorbed, not kept)
    for N in range(2, maxN + 1):
        for fn, func, module, stubs in cp_algos:
            for budget in (0, 1):
                def call1(I, func=func, module=module, stubs=stubs, budget=budget):
                    S = I["_S"]
                    Rr = R if S.name == "sym" else I["fs"][0].shape[1]
                    init = CPTensor((I["w"], list(I["fs"])))
                    if budget == 0:
                        cp = func(I["X"], Rr, n_iter_max=0, init=init, normalize_factors=False)
                        return dict(weights=cp.weights, factors=list(cp.factors))
                    _CUR["S"] = S if S.name == "num" else None
                    cut = LoopCut(func)
                    with stubbed(module, **(stubs or {})):
                        st = cut.prefix(I["X"], Rr, init=init, normalize_factors=False, return_errors=True)
                        st["factors"] = list(st["factors"])
                        kind, st2 = cut.body(st, 0)
                        ret = cut.suffix(st2)
                    cp = ret[0] if isinstance(ret, tuple) and isinstance(ret[0], CPTensor) else ret
                    return dict(weights=cp.weights, factors=list(cp.factors))
                add(fn, f"N={N},normalize_factors=False,user init with weights,{'n_iter_max=0' if budget == 0 else 'one sweep'}", cp_w_setup(N), call1,
                    lambda S, I, r: [("normalize_factors=False: weights are all ones", r["weights"], S.ones([S.shape(I["w"])[0]])),
                                     ("factor shapes", [tuple(S.shape(f)) for f in r["factors"]], [tuple(S.shape(f)) for f in I["fs"]])],
                    dict(order=N, normalize_factors=False, init="CPTensor with weights", budget=budget), "shapes ∧ normalisation contract on every loop-exit path", side_nonzero=True)
    # ---- PARAFAC2: a sweep from an iterate with arbitrary weights returns all-ones weights without normalisation, unit-norm factors with it
    import tensorly.parafac2_tensor as p2t
    for nI in (2,):
        for normalize, budget in ((False, 1), (True, 1), (True, 0)):
            def p2_setup(S, nI=nI):
                K = atom("K")
                return dict(_S=S, Xs=[S.input(f"X{i}", [atom(f"J{i}"), K]) for i in range(nI)], w=S.input("w", [R]), A=S.input("A", [nI, R]), B=S.input("B", [R, R]), Cc=S.input("Cm", [K, R]),
                            P=[S.input(f"P{i}", [atom(f"J{i}"), R]) for i in range(nI)], K=K)
            def p2_call(I, normalize=normalize, budget=budget):
                from .c03 import _noval
                S = I["_S"]
                sym = S.name == "sym"
                Rr = R if sym else I["A"].shape[1]
                real_parafac = _p2.parafac
                def inner(X, rank, init=None, **kw):
                    if sym:
                        return CPTensor((None, [G.opaque_tensor("INNER", list(f.shape), f.dtype) for f in init[1]]))
                    out = real_parafac(X, rank, init=init, **kw)
                    for f in out[1]:
                        S.record("INNER", f)
                    return out
                def go():
                    cut = LoopCut(_p2.parafac2)
                    with stubbed(_p2, svd_interface=make_svd_stub(S, None, square_u=True), parafac=inner, _validate_parafac2_tensor=p2t._validate_parafac2_tensor,
                                 initialize_decomposition=lambda *a, **k: (I["w"], [I["A"], I["B"], I["Cc"]], list(I["P"]))):
                        st = cut.prefix(list(I["Xs"]), Rr, return_errors=True, tol=0, normalize_factors=normalize)
                        st["factors"] = list(st["factors"])
                        st["rec_errors"] = []
                        st2 = st
                        if budget:
                            kind, st2 = cut.body(st, 0)
                        ret = cut.suffix(st2)
                    t = ret[0]
                    return dict(weights=t.weights, factors=list(t.factors))
                return _noval(p2t, go)
            def p2_post(S, I, r, normalize=normalize):
                if normalize:
                    return unit_norm_pairs(S, "normalize_factors=True", r["factors"])
                return [("normalize_factors=False: weights are all ones (the running weights are folded into B, not kept)", r["weights"], S.ones([S.shape(I["w"])[0]]))]
            add("_parafac2:parafac2", f"slices={nI},normalize_factors={normalize}," + ("sweep from arbitrary weights" if budget else "zero budget: the initialisation is returned"), p2_setup, p2_call, p2_post,
                dict(n_slices=nI, normalize_factors=normalize, budget=budget), "normalisation contract after a sweep" if budget else "normalisation contract at a zero iteration budget", side_nonzero=True, assumptions=lambda I: [R <= I["K"]] + [R <= x.shape[0] for x in I["Xs"]])
    # ---- coupled matrix-tensor factorisation: both returned models are normalised and still represent the iterate
    import tensorly.decomposition._cmtf_als as _cm
    def cm_setup(S):
        n = dims(3)
        Jm = atom("Jm")
        return dict(_S=S, X=S.input("X", n), Y=S.input("Y", [n[0], Jm]), fs=[S.input(f"U{k}", [n[k], R]) for k in range(3)], V=S.input("V", [Jm, R]))
    def run_cm(I, normalize):
        S = I["_S"]
        cut = LoopCut(_cm.coupled_matrix_tensor_3d_factorization)
        def init_stub(t, rank, **k):
            if len(t.shape) == 3:
                return CPTensor((None, list(I["fs"])))
            return CPTensor((None, [I["fs"][0], (G.opaque_tensor("CINIT", [t.shape[1], rank]) if S.name == "sym" else __import__("numpy").ones((t.shape[1], rank)))]))
        with stubbed(_cm, initialize_cp=init_stub):
            st = cut.prefix(I["X"], I["Y"], R if S.name == "sym" else I["fs"][0].shape[1], normalize_factors=normalize)
            st["tensor_cp"] = CPTensor((None, list(I["fs"])))
            st["V"] = I["V"]
            st["rec_errors"] = []
            t, m, errs = cut.suffix(st)
        return dict(tw=t.weights, tf=list(t.factors), mw=m.weights, mf=list(m.factors))
    def cm_post(normalize):
        def post(S, I, r):
            out = [("tensor model represents the final iterate [[A, B, C]]", SP.cp_to_tensor(S, r["tw"], r["tf"]), SP.cp_to_tensor(S, None, I["fs"])),
                   ("matrix model represents the final iterate A Vᵀ (weights carry the scale of both factors)", SP.cp_to_tensor(S, r["mw"], r["mf"]), S.einsum("ir,jr->ij", I["fs"][0], I["V"])),
                   ("matrix model factor shapes", [tuple(S.shape(f)) for f in r["mf"]], [tuple(S.shape(I["fs"][0])), tuple(S.shape(I["V"]))])]
            if normalize:
                out += unit_norm_pairs(S, "tensor model", r["tf"]) + unit_norm_pairs(S, "matrix model", r["mf"])
            return out
        return post
    for normalize in (False, True):
        add("_cmtf_als:coupled_matrix_tensor_3d_factorization", f"normalize_factors={normalize}", cm_setup, lambda I, normalize=normalize: run_cm(I, normalize), cm_post(normalize),
            dict(normalize_factors=normalize), "both returned models represent the final iterate ∧ normalisation contract", side_nonzero=True)
    # ---- SVD initialisation when the rank exceeds a mode size: the factor of that mode is padded with random columns to (n_k, R)
    def pad_svd_stub(S):
        inner = make_svd_stub(S, None)
        def stub(matrix, n_eigenvecs=None, **kw):
            if S.name == "sym" and bool(G.SInt.lift(matrix.shape[0]) < n_eigenvecs):
                return inner(matrix, n_eigenvecs=matrix.shape[0], **kw)   # svd contract: at most min(shape) = rows singular triplets exist (rows < columns assumed below)
            return inner(matrix, n_eigenvecs=n_eigenvecs, **kw)
        return stub
    for N in range(2, maxN + 1):
        for nn in (False, True):
            def setup(S, N=N):
                n = dims(N)
                return dict(_S=S, n=n, X=S.input("X", n), R=R)
            def call(I, nn=nn):
                S = I["_S"]
                with stubbed(_cp, svd_interface=pad_svd_stub(S)):
                    kt = _cp.initialize_cp(I["X"], I["R"], init="svd", non_negative=nn, random_state=0)
                return dict(weights=kt.weights, factors=list(kt.factors))
            def post(S, I, r):
                return [("factor shapes are (n_k, R), also for the padded mode", [tuple(S.shape(f)) for f in r["factors"]], [(nk, I["R"]) for nk in S.shape(I["X"])]),
                        ("weights have length R", tuple(S.shape(r["weights"])), (I["R"],))]
            add("_cp:initialize_cp", f"N={N},init=svd,rank > size of mode 0,non_negative={nn}", setup, call, post, dict(order=N, init="svd", rank="exceeds mode 0", non_negative=nn),
                "shapes of the SVD initialisation padded with random columns",
                assumptions=lambda I: [I["n"][0] < I["R"]] + [I["R"] <= nk for nk in I["n"][1:]] + [I["n"][0] <= sprod(I["n"][1:])])
    # ====================================================================== Tucker / HOOI: orthonormal factors, core = projection, shapes (caps 0 and >= 1)
    def tk_setup(N, dt="float64"):
        def setup(S):
            n, r = dims(N), dims(N, "r")
            return dict(_S=S, X=S.input("X", n, dt), n=n, r=r, e1=S.input("e_prev1", []), e2=S.input("e_prev2", []))
        return setup
    def tk_pre(N):
        def pre(I):
            out = []
            for k in range(N):
                out.append(I["r"][k] <= I["n"][k])
                out.append(I["r"][k] <= sprod(I["r"][j] for j in range(N) if j != k))
                out.append(I["r"][k] <= sprod(I["n"][j] for j in range(N) if j != k))
            return out
        return pre
    def run_tucker(I, cap):
        S = I["_S"]
        N = len(I["n"])
        rank = list(I["r"])
        rec = []
        stub = make_svd_stub(S, rec)
        import tensorly.tucker_tensor as tkt
        with stubbed(_tk, svd_interface=stub, validate_tucker_rank=lambda shape, rank=None, **k: list(rank)):
            if cap == 0:
                t = _tk.tucker(I["X"], rank, n_iter_max=0)
                return dict(core=t.core, factors=list(t.factors), shape=t.shape, rank=t.rank, kind="cap=0", want_rank=rank)
            cut = LoopCut(_tk.partial_tucker)
            st = cut.prefix(I["X"], rank)
            st["factors"] = list(st["factors"])
            st["rec_errors"] = [I["e2"], I["e1"]]
            kind, st2 = cut.body(st, 2)
            (core, factors), errs = cut.suffix(st2)
            t = tkt.TuckerTensor((core, list(factors)))
        return dict(core=t.core, factors=list(t.factors), shape=t.shape, rank=t.rank, kind=kind, want_rank=rank)
    def tucker_post(S, I, r):
        N = len(r["factors"])
        out = [(f"[{r['kind']}] shape of the decomposition ≡ shape of the data", tuple(r["shape"]), tuple(S.shape(I["X"]))),
               (f"[{r['kind']}] ranks ≡ requested ranks", tuple(r["rank"]), tuple(r["want_rank"])),
               (f"[{r['kind']}] core ≡ projection of the data onto the returned factors", r["core"], SP.multi_mode_dot(S, I["X"], r["factors"], list(range(N)), transpose=True))]   # (transpose=True in the spec is the conjugate transpose: seen on the complex instances)
        for k, U in enumerate(r["factors"]):
            out.append((f"[{r['kind']}] factor {k} has orthonormal columns", S.einsum("ia,ib->ab", S.conj(U), U), S.eye(S.shape(U)[1])))
        return out
    for N in range(2, maxN + 1):
        for cap in (0, 1):
            add("_tucker:tucker", f"N={N},{'n_iter_max=0 (svd init)' if cap == 0 else 'after a sweep (cap or break)'}", tk_setup(N), lambda I, cap=cap: run_tucker(I, cap), tucker_post,
                dict(order=N, cap=cap), "orthonormal factors ∧ core ≡ projection ∧ shapes/ranks", assumptions=tk_pre(N))
            if N <= 3:
                add("_tucker:tucker", f"N={N},{'n_iter_max=0 (svd init)' if cap == 0 else 'after a sweep (cap or break)'},complex128", tk_setup(N, "complex128"), lambda I, cap=cap: run_tucker(I, cap), tucker_post,
                    dict(order=N, cap=cap, dtype="complex128"), "orthonormal factors ∧ core ≡ projection ∧ shapes/ranks", assumptions=tk_pre(N))
    # ---- Tucker with fixed factors given in any order: every returned factor sits at its own mode
    from tensorly.tucker_tensor import TuckerTensor
    def tkf_setup(N):
        def setup(S):
            n, r = dims(N), dims(N, "r")
            return dict(_S=S, X=S.input("X", n), core=S.input("G", r), fs=[S.input(f"U{k}", [n[k], r[k]]) for k in range(N)], n=n, r=r)
        return setup
    for N in range(3, maxN + 1):
        for fixed, full, budget in [(f, fl, b) for f in ([N - 1, 0], [1, 0], [0, N - 1], [0], [1]) for fl in (False, True) for b in (0, 1)]:
            def call(I, fixed=fixed, N=N, full=full, budget=budget):
                S = I["_S"]
                # the rank is given for the free modes only, or - as documented - with one entry per mode of the tensor
                rank = [I["r"][k] if S.name == "sym" else I["fs"][k].shape[1] for k in range(N) if full or k not in fixed]
                with stubbed(_tk, svd_interface=make_svd_stub(S, None)):
                    t = _tk.tucker(I["X"], rank, fixed_factors=list(fixed), n_iter_max=budget, tol=0, init=(I["core"], list(I["fs"])))
                return dict(core=t.core, factors=list(t.factors))
            def post(S, I, r, fixed=fixed, N=N):
                out = [(f"factor {k} has shape (n_k, r_k)", tuple(S.shape(r["factors"][k])), tuple(S.shape(I["fs"][k]))) for k in range(N)]
                out += [(f"fixed factor {m} is returned at mode {m}", r["factors"][m], I["fs"][m]) for m in fixed]
                out.append(("core shape ≡ ranks", tuple(S.shape(r["core"])), tuple(S.shape(f)[1] for f in I["fs"])))
                return out
            add("_tucker:tucker", f"N={N},fixed_factors={fixed},rank list {'per mode' if full else 'of the free modes'},n_iter_max={budget}", tkf_setup(N), call, post, dict(order=N, fixed_factors=fixed, rank_list="per mode" if full else "free modes", n_iter_max=budget),
                "fixed factors keep their modes, in any listing order; requested ranks honoured",
                assumptions=lambda I: [I["r"][k] <= I["n"][k] for k in range(len(I["n"]))])
    # ====================================================================== TT-SVD / TT-matrix / TR-SVD: shapes, boundary ranks, left-orthogonality, conformance
    def tt_setup(N):
        def setup(S):
            n = dims(N)
            rk = [1] + [atom(f"r{k}") for k in range(1, N)] + [1]
            return dict(_S=S, X=S.input("X", n), n=n, rk=rk)
        return setup
    def tt_pre(N):
        def pre(I):
            out = []
            for k in range(1, N):
                out.append(I["rk"][k] <= I["rk"][k - 1] * I["n"][k - 1])
                out.append(I["rk"][k] <= sprod(I["n"][k:]))
            return out
        return pre
    def run_tt(I):
        S = I["_S"]
        rec = []
        N = len(I["n"])
        rank = list(I["rk"])
        with stubbed(_tt, svd_interface=make_svd_stub(S, rec)):
            t = _tt.tensor_train(I["X"], rank)
        return dict(cores=list(t.factors), rank=tuple(t.rank), shape=tuple(t.shape), rec=rec, want_rank=rank)
    def tt_post(S, I, r):
        N = len(r["cores"])
        out = [("shape ≡ data shape", r["shape"], tuple(S.shape(I["X"]))), ("TT ranks ≡ requested ranks (boundary ranks 1)", r["rank"], tuple(r["want_rank"]))]
        for k, Gk in enumerate(r["cores"]):
            out.append((f"core {k} has shape (r_k, n_k, r_k+1)", tuple(S.shape(Gk)), (r["want_rank"][k], S.shape(I["X"])[k], r["want_rank"][k + 1])))
            if k < N - 1:
                out.append((f"core {k} is left-orthogonal", S.einsum("aib,aic->bc", S.conj(Gk), Gk), S.eye(S.shape(Gk)[2])))
        for k, c in enumerate(r["rec"]):
            out.append((f"step {k}: n_eigenvecs ≡ requested rank r_{k + 1} (not exceeding the unfolding)", c["n_eigenvecs"], r["want_rank"][k + 1]))
            out.append((f"step {k}: core {k} is the reshaped left singular vectors", S.group(r["cores"][k], [[0, 1], [2]]), c["U"]))
        out.append(("one truncated SVD per core but the last", len(r["rec"]), N - 1))
        return out
    for N in range(2, maxN + 1):
        add("_tt:tensor_train", f"N={N}", tt_setup(N), run_tt, tt_post, dict(order=N), "shapes ∧ boundary ranks ∧ left-orthogonal cores ∧ conformance", assumptions=tt_pre(N))
    # rank clipping: requested ranks larger than the unfoldings allow are clipped, never exceeded
    def run_tt_clip(I):
        S = I["_S"]
        N = len(I["n"])
        rank = list(I["rk"]) if S.name == "sym" else [1] + [50] * (N - 1) + [1]
        with stubbed(_tt, svd_interface=make_svd_stub(S, None)):
            t = _tt.tensor_train(I["X"], rank)
        return dict(rank=tuple(t.rank), cores=list(t.factors), want=rank)
    def tt_clip_post(S, I, r):
        out = [("boundary ranks are 1", (r["rank"][0], r["rank"][-1]), (1, 1))]
        if S.name == "sym":
            from ..symint import current_ctx, SInt
            ctx = current_ctx()
            for k in range(1, len(r["rank"]) - 1):
                le = SInt.lift(r["rank"][k]) <= r["want"][k]
                out.append((f"returned rank {k} does not exceed the requested rank", bool(le if isinstance(le, bool) else ctx.entails(le)) if ctx else True, True))
        for k, Gk in enumerate(r["cores"]):
            out.append((f"core {k} ranks chain", (S.shape(Gk)[0], S.shape(Gk)[2]), (r["rank"][k], r["rank"][k + 1])))
        return out
    for N in (2, 3):
        add("_tt:tensor_train", f"N={N},unconstrained ranks (clipping paths)", tt_setup(N), run_tt_clip, tt_clip_post, dict(order=N, clipping=True), "ranks clipped to the unfolding sizes, never exceeded")
    # ---- TT-matrix: core k has shape (r_k, in_k, out_k, r_k+1) with boundary ranks 1; one core for a plain matrix; the inner TT-SVD works on the interleaved
    #      (in_k * out_k) modes with the requested ranks
    for d in (1, 2) + ((3,) if tier == "thorough" else ()):
        def ttm_setup(S, d=d):
            ins, outs = dims(d, "in"), dims(d, "out")
            return dict(_S=S, X=S.input("X", ins + outs), ins=ins, outs=outs, rk=[1] + [atom(f"r{k}") for k in range(1, d)] + [1])
        def ttm_pre(I, d=d):
            sz = [a * b for a, b in zip(I["ins"], I["outs"])]
            out = []
            for k in range(1, d):
                out.append(I["rk"][k] <= I["rk"][k - 1] * sz[k - 1])
                out.append(I["rk"][k] <= sprod(sz[k:]))
            return out
        def run_ttm(I):
            S = I["_S"]
            rec = []
            with stubbed(_tt, svd_interface=make_svd_stub(S, rec)):
                t = _tt.tensor_train_matrix(I["X"], list(I["rk"]))
            return dict(cores=list(t.factors), rec=rec)
        def ttm_post(S, I, r, d=d):
            out = [("one core per (input mode, output mode) pair", len(r["cores"]), d), ("one truncated SVD per core but the last", len(r["rec"]), d - 1)]
            if len(r["cores"]) != d:
                return out
            for k, Gk in enumerate(r["cores"]):
                out.append((f"core {k} has shape (r_k, in_k, out_k, r_k+1), boundary ranks 1", tuple(S.shape(Gk)), (I["rk"][k], I["ins"][k], I["outs"][k], I["rk"][k + 1])))
            for k, c in enumerate(r["rec"]):
                out.append((f"step {k}: n_eigenvecs ≡ requested rank r_{k + 1}", c["n_eigenvecs"], I["rk"][k + 1]))
            return out
        add("_tt:tensor_train_matrix", f"d={d}", ttm_setup, run_ttm, ttm_post, dict(n_cores=d), "TT-matrix core shapes ∧ boundary ranks ∧ requested ranks", assumptions=ttm_pre)
    # ---- tensor ring SVD (every starting mode)
    def tr_setup(N):
        def setup(S):
            n = dims(N)
            rk = [atom(f"r{k}") for k in range(N)]
            rk.append(rk[0])
            return dict(_S=S, X=S.input("X", n), n=n, rk=rk)
        return setup
    def run_tr(I, mode):
        S = I["_S"]
        N = len(I["n"])
        rank = list(I["rk"])
        rec = []
        with stubbed(_trs, svd_interface=make_svd_stub(S, rec)):
            t = _trs.tensor_ring(I["X"], rank, mode=mode)
        return dict(cores=list(t.factors), rank=tuple(t.rank), shape=tuple(t.shape), want=rank)
    def tr_post(S, I, r):
        out = [("shape ≡ data shape", r["shape"], tuple(S.shape(I["X"]))), ("TR ranks ≡ requested ranks, first = last", r["rank"], tuple(r["want"]))]
        for k, Gk in enumerate(r["cores"]):
            out.append((f"core {k} has shape (r_k, n_k, r_k+1)", tuple(S.shape(Gk)), (r["want"][k], S.shape(I["X"])[k], r["want"][k + 1])))
        return out
    for N in (3,) + ((4,) if tier == "thorough" else ()):
        for mode in range(N):
            def pre(I, mode=mode, N=N):
                n, rk = I["n"], I["rk"]
                order = list(range(mode, N)) + list(range(mode))
                nn = [n[o] for o in order]
                rr = (rk[mode:] + rk[:mode])[:-1] if mode else rk[:-1]
                rr = rk[mode:-1] + rk[:mode] + [rk[mode]] if True else rr
                out = [rr[0] * rr[1] <= nn[0], rr[0] * rr[1] <= sprod(nn[1:])]
                for k in range(1, N - 1):
                    out.append(rr[k + 1] <= rr[k] * nn[k])
                    out.append(rr[k + 1] <= rr[0] * sprod(nn[k + 1:]))
                return out
            add("_tr_svd:tensor_ring", f"N={N},mode={mode}", tr_setup(N), lambda I, mode=mode: run_tr(I, mode), tr_post, dict(order=N, mode=mode),
                "shapes ∧ ring closure of the ranks", assumptions=pre)
    # ====================================================================== PARAFAC2: one orthonormal projection per slice (polar factor of the SVD)
    for nI in (1, 2, 3):
        def setup(S, nI=nI):
            K = atom("K")
            return dict(_S=S, Xs=[S.input(f"X{i}", [atom(f"J{i}"), K]) for i in range(nI)], A=S.input("A", [nI, R]), B=S.input("B", [R, R]), Cc=S.input("Cm", [K, R]))
        def call(I):
            S = I["_S"]
            with stubbed(_p2, svd_interface=make_svd_stub(S, None, square_u=True)):
                return _p2._compute_projections(list(I["Xs"]), (I["A"], I["B"], I["Cc"]), "truncated_svd")
        def post(S, I, r, nI=nI):
            out = [("one projection per slice", len(r), nI)]
            for i, P in enumerate(r):
                out.append((f"projection {i} has shape (J_i, R)", tuple(S.shape(P)), (S.shape(I["Xs"][i])[0], S.shape(I["A"])[1])))
                out.append((f"projection {i} has orthonormal columns (so all evolving factors share BᵀB)", S.einsum("ja,jb->ab", P, P), S.eye(S.shape(P)[1])))
            return out
        add("_parafac2:_compute_projections", f"slices={nI}", setup, call, post, dict(n_slices=nI), "one orthonormal projection per slice",
            assumptions=lambda I: [R <= atom("K")] + [R <= atom(f"J{i}") for i in range(len(I["Xs"]))])
    # ====================================================================== bounded stand-in (never counted as proved): end-to-end native survey - the real
    # entry points, unstubbed, on seeded tensors; a cross-check of the composed contracts on what they assume away (degenerate data, option combinations)
    from .c09 import BoundedOb
    from . import e2e_native
    obs.append(BoundedOb(f"{PID}/bounded/native survey: shapes, boundary ranks, orthonormality, core = projection, normalisation contract on every exit", "tensorly.decomposition:parafac+non_negative_parafac+non_negative_parafac_hals+tucker+tensor_train+tensor_ring+parafac2", lambda: e2e_native.c08(tier), dict(orders="2-3 (4 thorough)", rank_specifications="int, list, same, fraction", budgets="0, 1, 6, convergence stop"), "seed 0; tolerances 1e-8", pid=PID))
    from .c09 import BoundedOb as _BOb
    from . import e2e_native as _e2e
    obs.append(_BOb(f"{PID}/bounded/native survey of secondary entry points: PARAFAC2 variants, TR-ALS, constrained / randomised CP, masks, sparse component, normalisation exits, CMTF, TT-matrix",
                    "tensorly.decomposition:parafac2+tensor_ring_als+constrained_parafac+randomised_parafac+parafac+non_negative_tucker+non_negative_tucker_hals+coupled_matrix_tensor_3d_factorization+tensor_train_matrix",
                    lambda: _e2e.extras(tier, PID), dict(entry_points=9, clauses="those of this property"), "seed 0; tolerances 1e-6 (errors), 1e-8 (structure); one shared run per process, failures filtered by property", pid=PID))
    # ---- the class wrappers hand every option (rank specifications, normalisation, fixed modes, initialisation, ...) to the functions these obligations are about
    from . import wrappers as _W
    obs.extend(_W.obligations(PID))
    return obs


def canaries(tier):
    import tensorly.decomposition._tt as _tt
    def setup(S):
        n = dims(3)
        return dict(_S=S, X=S.input("X", n), n=n, rk=[1, atom("r1"), atom("r2"), 1])
    def call(I):
        with stubbed(_tt, svd_interface=make_svd_stub(I["_S"], None)):
            t = _tt.tensor_train(I["X"], list(I["rk"]))
        return list(t.factors)
    return [GOb(PID, f"{PID}/canary/last-TT-core-left-orthogonal", "tensorly.decomposition._tt:tensor_train", setup, call,
                lambda S, I, r: [("last core left-orthogonal (must fail)", S.einsum("aib,aic->bc", r[-1], r[-1]), S.eye(1))], tenalg="core", instance={}, clause="canary",
                assumptions=lambda I: [I["rk"][1] <= I["n"][0], I["rk"][1] <= I["n"][1] * I["n"][2], I["rk"][2] <= I["rk"][1] * I["n"][1], I["rk"][2] <= I["n"][2]])]
