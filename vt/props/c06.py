"""C06  Reported reconstruction errors are finite and equal the true error (all iterations, via loop invariants).

For every iterative decomposition the iteration loop of the REAL function is cut mechanically (vt.loopcut); the body is
run from a state that satisfies only the invariant (factors / cores arbitrary symbolic tensors of the right shapes,
`norm_tensor` as computed by the prefix), results of inner solvers (`solve`, `lstsq`, `hals_nnls`, `fista`, ...) are
havoc'd (fresh arbitrary tensors), and at every `rec_errors.append(e)` / `callback(decomp, e)` site the obligation
    e² · ‖X‖²  ≡  Σ |X − to_tensor(decomp at that point)|²
is decided in canonical form.  "Finite": every sqrt executed on the reporting path has a syntactically non-negative
operand (sum of squares or abs(...)) — the float-robust sign domain — and the only divisor is ‖X‖.
"""
from ..oblig import GOb, Obligation, Verdict, PROVED, REFUTED, UNDECIDED
from ..symint import atom, EngineError
from ..loopcut import LoopCut
from ..iterative import Probe, CallbackProbe, stubbed, real_dtype
from .. import specs as SP
from .. import gtensor as G

PID = "C06"
LEVEL = "proof"
TRUSTED_BASE = [
    "numpy primitive contracts (vt.primcheck each run)",
    "assumed contracts of dependencies: svd_interface returns column-orthonormal singular vectors (used for HOOI), solve/lstsq/NNLS solvers return *some* tensor of the right shape (their results are havoc'd: the error identity must hold whatever they return)",
    "CPython; shadows int/np/math; mechanical loop extraction (vt.loopcut) re-reads the real source on every run",
    "the VC generator (canaries + soundness monitor)",
]
ASSUMPTIONS = [
    "floats treated as reals in the algebraic identity (A1); finiteness is decided in the float-robust sign domain (sqrt operands syntactically non-negative), under tensor != 0",
    "the iteration index enters the loop bodies only through comparisons / parity tests (checked on the AST every run); one representative per predicate class is executed",
    "loop invariant: factors/weights/cores are arbitrary tensors of the prefix-established shapes; norm_tensor² ≡ Σ|tensor|² (proved for the prefix value, the tensor is not rebound in unmasked runs)",
    "tensor order enumerated (2..3 quick, 2..4 thorough); masks and the sparse-plus-low-rank option are not covered by obligations yet",
]
QUANTIFICATION = "forall mode sizes, ranks, data entries, current iterate (arbitrary factors), solver outputs, iteration index (by predicate class); enumerated: order, option sets"
EXPLANATION = "Loop-cut bodies of the real decomposition functions executed symbolically from a havoc state; error identity decided by canonical form with orthonormality hypothesis rewriting where the algorithm relies on it."


def dims(N, p="n"):
    return [atom(f"{p}{k}") for k in range(N)]


def rel_err_pairs(S, label, e, nt, X, M, extra_sq=None):
    """obligation pairs for a reported relative error e with norm nt of data X and model tensor M"""
    diff = G.binop(X, M, "sub") if S.name == "sym" else X - M
    want = S.sumsq(diff)
    if extra_sq is not None:
        want = want + extra_sq
    # abs(A) may be dropped wherever A is proved equal to a sum of squares (‖model‖², ‖X‖², ‖X − model‖²)
    got = S.resolve_abs(S.unabs(e ** 2 * nt ** 2), [S.sumsq(M), S.sumsq(X), want])
    return [(f"{label}: norm_tensor² ≡ Σ|X|²", nt ** 2, S.sumsq(X)),
            (f"{label}: e²·‖X‖² ≡ Σ|X − model|²", S.unabs(got), want)]


def finite_pairs(S, label):
    """float-robust sign domain: all sqrt operands on the path syntactically non-negative"""
    if S.name != "sym":
        return []
    bad = [d for ok, d in G.SQRT_LOG if not ok]
    return [(f"{label}: every sqrt operand is a sum of squares or abs(...)", len(bad), 0)] if True else []


class _Opaque:
    """stubs returning arbitrary tensors of a given shape (havoc of inner solvers)"""

    @staticmethod
    def like(prefix, t, S, I):
        if S.name == "sym":
            return G.opaque_tensor(prefix, list(t.shape), getattr(t, "dtype", "float64"))
        return None


def obligations(tier):
    import tensorly as tl
    import tensorly.decomposition._cp as _cp
    import tensorly.decomposition._nn_cp as _nn
    import tensorly.decomposition._tucker as _tk
    import tensorly.decomposition._parafac2 as _p2
    import tensorly.decomposition._tr_als as _tr
    import tensorly.decomposition._cmtf_als as _cm
    from tensorly.cp_tensor import CPTensor
    from tensorly.tucker_tensor import TuckerTensor

    maxN = 3 if tier == "quick" else 4
    obs = []
    R = atom("R")

    def add(fn, tag, setup, call, post, instance, clause="reported error ≡ true relative error ∧ finite", **kw):
        obs.append(GOb(PID, f"{PID}/{fn}/{clause}[{tag}]", f"tensorly.decomposition.{fn}", setup, call, post, tenalg="core", instance=instance, clause=clause,
                       forall=["mode sizes", "rank", "data entries", "current iterate", "solver outputs", "iteration index"], enumerated=list(instance), **kw))

    # ====================================================================== CP-ALS family
    WATCH = ("weights", "factors", "tensor", "norm_tensor")

    def cp_setup(N, wts_sym=True, dtype="float64"):
        def setup(S):
            n = dims(N)
            return dict(_S=S, X=S.input("X", n, dtype), w=S.input("w", [R]), fs=[S.input(f"U{k}", [n[k], R], dtype) for k in range(N)],
                        e1=S.input("e_prev1", []), e2=S.input("e_prev2", []))
        return setup

    def run_cp_like(func, module, I, its, kwargs, stubs=None, probe_name="rec_errors"):
        """prefix (initialiser stubbed by an arbitrary CP tensor) then one body execution per iteration representative"""
        S = I["_S"]
        cut = LoopCut(func)
        out = []
        init_stub = lambda *a, **k: CPTensor((I["w"], list(I["fs"])))
        with stubbed(module, initialize_cp=init_stub, **(stubs or {})):
            st0 = cut.prefix(I["X"], R if S.name == "sym" else I["fs"][0].shape[1], **kwargs)
            if isinstance(st0, tuple):
                raise EngineError("prefix returned early")
            for it in its:
                st = dict(st0)
                st["factors"] = list(st0["factors"])
                pr = Probe([I["e2"], I["e1"]], watch=WATCH)
                st[probe_name] = pr
                cb = None
                if st.get("callback") is not None:
                    cb = st["callback"]
                    cb.records.clear()
                kind, st2 = cut.body(st, it)
                out.append(dict(it=it, kind=kind, records=list(pr.records), callback=list(cb.records) if cb else []))
        return out

    def cp_post(S, I, r, label="parafac"):
        pairs = []
        n_rec = 0
        for run in r:
            for e, snap in run["records"]:
                n_rec += 1
                M = SP.cp_to_tensor(S, snap["weights"], snap["factors"])
                pairs += rel_err_pairs(S, f"it={run['it']}", e, snap["norm_tensor"], I["X"], M)
            for decomp, e in run["callback"]:
                n_rec += 1
                w, fs = decomp
                M = SP.cp_to_tensor(S, w, fs)
                nt = S.sqrt(S.sumsq(I["X"]))
                pairs += rel_err_pairs(S, f"callback it={run['it']}", e, nt, I["X"], M)
        pairs.append(("at least one error value is reported per sweep", n_rec >= len(r), True))
        pairs += finite_pairs(S, label)
        return pairs

    for N in range(2, maxN + 1):
        for opt_name, kwargs, its in [
            ("plain", dict(return_errors=True), (0, 1)),
            ("tol=0,return_errors", dict(return_errors=True, tol=0), (0, 1)),
            ("normalize_factors", dict(return_errors=True, normalize_factors=True), (0, 1)),
            ("l2_reg", dict(return_errors=True, l2_reg=0.5), (0, 1)),
            ("fixed_mode_0", dict(return_errors=True, fixed_modes=[0]), (0, 1)),
            ("cvg=rec_error", dict(return_errors=True, cvg_criterion="rec_error"), (1,)),
            ("normalize_factors,fixed_mode_0", dict(return_errors=True, normalize_factors=True, fixed_modes=[0]), (0, 1)),
        ]:
            add("_cp:parafac", f"N={N},{opt_name}", cp_setup(N),
                lambda I, kwargs=kwargs, its=its: run_cp_like(_cp.parafac, _cp, I, its, dict(kwargs)),
                cp_post, dict(order=N, options=opt_name), side_nonzero=("normalize" in opt_name))
        # callback variant
        def call_cb(I):
            cb = CallbackProbe()
            return run_cp_like(_cp.parafac, _cp, I, (0, 1), dict(callback=cb))
        add("_cp:parafac", f"N={N},callback", cp_setup(N), call_cb, cp_post, dict(order=N, options="callback"))
        # line search: iteration classes {0 (even<=5), 1 (odd), 8 (even>5: jump), 7 (odd>5)}
        def call_ls(I, its=(0, 1, 7, 8)):
            S = I["_S"]
            cut = LoopCut(_cp.parafac)
            out = []
            with stubbed(_cp, initialize_cp=lambda *a, **k: CPTensor((I["w"], list(I["fs"])))):
                st0 = cut.prefix(I["X"], R if S.name == "sym" else I["fs"][0].shape[1], return_errors=True, linesearch=True)
                for it in its:
                    st = dict(st0)
                    st["factors"] = list(st0["factors"])
                    if it >= 1:
                        # loop-carried line-search state: arbitrary previous iterate
                        st["factors_last"] = [S.input(f"L{k}", list(f.shape)) if S.name == "sym" else I["_last"][k] for k, f in enumerate(st0["factors"])] if S.name == "sym" else [f * 0.5 for f in st0["factors"]]
                        st["weights_last"] = S.input("wl", [R]) if S.name == "sym" else st0["weights"] * 0.5
                    pr = Probe([I["e2"], I["e1"]], watch=WATCH + ("unnorml_rec_error",))
                    st["rec_errors"] = pr
                    kind, st2 = cut.body(st, it)
                    out.append(dict(it=it, kind=kind, records=list(pr.records), callback=[]))
            return out
        if N <= 3:
            for it in (0, 1, 7, 8):
                add("_cp:parafac", f"N={N},linesearch,iteration-class={it}", cp_setup(N), lambda I, it=it, call_ls=call_ls: call_ls(I, (it,)), cp_post,
                    dict(order=N, options="linesearch", iteration_class=it))
        # ---- non-negative CP (multiplicative): clip results are uninterpreted elementwise functions
        for opt_name, kwargs in [("plain", dict(return_errors=True)), ("normalize_factors", dict(return_errors=True, normalize_factors=True)),
                                 ("fixed_mode_0", dict(return_errors=True, fixed_modes=[0])),
                                 ("normalize_factors,fixed_mode_0", dict(return_errors=True, normalize_factors=True, fixed_modes=[0]))] + \
                ([("normalize_factors,fixed_mode_1", dict(return_errors=True, normalize_factors=True, fixed_modes=[1]))] if N >= 3 else []):
            add("_nn_cp:non_negative_parafac", f"N={N},{opt_name}", cp_setup(N),
                lambda I, kwargs=kwargs: run_cp_like(_nn.non_negative_parafac, _nn, I, (0, 1), dict(kwargs)),
                cp_post, dict(order=N, options=opt_name), side_nonzero=("normalize" in opt_name))
        # ---- HALS non-negative CP: hals_nnls by contract (havoc)
        def hals_stub_factory(I):
            S = I["_S"]
            def stub(UtM, UtU, V=None, **kw):
                if S.name == "sym":
                    return G.opaque_tensor("HALS", list(V.shape), V.dtype)
                from tensorly.solvers.nnls import hals_nnls as real
                return S.record("HALS", real(UtM, UtU, V, **kw))
            return stub
        for opt_name, kwargs in [("plain", dict(return_errors=True)), ("nn_modes={0}", dict(return_errors=True, nn_modes={0})),
                                 ("fixed_mode_0", dict(return_errors=True, fixed_modes=[0])), ("normalize_factors", dict(return_errors=True, normalize_factors=True)),
                                 ("normalize_factors,fixed_mode_0", dict(return_errors=True, normalize_factors=True, fixed_modes=[0])),
                                 ("fixed_last_mode", dict(return_errors=True, fixed_modes=[N - 1])), ("normalize_factors,fixed_last_mode", dict(return_errors=True, normalize_factors=True, fixed_modes=[N - 1]))]:
            add("_nn_cp:non_negative_parafac_hals", f"N={N},{opt_name}", cp_setup(N),
                lambda I, kwargs=kwargs: run_cp_like(_nn.non_negative_parafac_hals, _nn, I, (0, 1), dict(kwargs), stubs=dict(hals_nnls=hals_stub_factory(I))),
                cp_post, dict(order=N, options=opt_name), side_nonzero=("normalize" in opt_name))
    # ====================================================================== Tucker / HOOI
    def tk_setup(N, dtype="float64"):
        def setup(S):
            n, r = dims(N), dims(N, "r")
            return dict(_S=S, X=S.input("X", n, dtype), core=S.input("G", r, dtype), fs=[S.input(f"U{k}", [n[k], r[k]], dtype) for k in range(N)], r=r,
                        e1=S.input("e_prev1", []), e2=S.input("e_prev2", []))
        return setup

    def run_hooi(I, its, kwargs):
        S = I["_S"]
        cut = LoopCut(_tk.partial_tucker)
        out = []
        def svd_stub(matrix, n_eigenvecs=None, **kw):
            if S.name == "sym":
                U = G.opaque_tensor("SVDU", [matrix.shape[0], n_eigenvecs], matrix.dtype, ortho_axis=0)
                return U, G.opaque_tensor("SVDS", [n_eigenvecs]), G.opaque_tensor("SVDV", [n_eigenvecs] + G.axis_sizes(matrix)[1:], matrix.dtype)
            from tensorly.tenalg.svd import svd_interface as real
            U, s_, V = real(matrix, n_eigenvecs=n_eigenvecs, **kw)
            S.record("SVDU", U)
            S.record("SVDS", s_)
            S.record("SVDV", V)
            return U, s_, V
        rank = list(I["r"]) if S.name == "sym" else [f.shape[1] for f in I["fs"]]
        with stubbed(_tk, initialize_tucker=lambda *a, **k: (I["core"], list(I["fs"])), svd_interface=svd_stub):
            st0 = cut.prefix(I["X"], rank, **kwargs)
            for it in its:
                st = dict(st0)
                st["factors"] = list(st0["factors"])
                pr = Probe([I["e2"], I["e1"]], watch=("core", "factors", "tensor", "norm_tensor", "modes"))
                st["rec_errors"] = pr
                kind, st2 = cut.body(st, it)
                out.append(dict(it=it, kind=kind, records=list(pr.records)))
        return out

    def hooi_post(S, I, r):
        pairs = []
        for run in r:
            for e, snap in run["records"]:
                M = SP.tucker_to_tensor(S, snap["core"], snap["factors"], modes=list(snap["modes"]))
                pairs += rel_err_pairs(S, f"it={run['it']}", e, snap["norm_tensor"], I["X"], M)
        pairs.append(("one error value per sweep", sum(len(x["records"]) for x in r), len(r)))
        pairs += finite_pairs(S, "hooi")
        return pairs

    for N in range(2, maxN + 1):
        def hooi_pre(I, N=N):
            # documented domain of HOOI: rank_k <= n_k and rank_k <= prod of the other ranks (so that the truncated SVD has rank_k columns)
            from ..symint import sprod
            n = dims(N)
            out = []
            for k in range(N):
                out.append(I["r"][k] <= n[k])
                out.append(I["r"][k] <= sprod(I["r"][j] for j in range(N) if j != k))
            return out
        add("_tucker:partial_tucker", f"N={N},all modes", tk_setup(N), lambda I: run_hooi(I, (0, 2), dict()), hooi_post, dict(order=N, modes="all"),
            clause="reported error ≡ true relative error ∧ finite (orthonormal factors by the svd contract)", assumptions=hooi_pre)
        add("_tucker:partial_tucker", f"N={N},all modes,complex data", tk_setup(N, "complex128"), lambda I: run_hooi(I, (0, 2), dict()), hooi_post, dict(order=N, modes="all", data="complex"),
            clause="reported error ≡ true relative error ∧ finite (orthonormal factors by the svd contract)", assumptions=hooi_pre)
    # ====================================================================== constrained CP (AO-ADMM): admm by contract (havoc)
    import tensorly.decomposition._constrained_cp as _cc

    def run_ccp(I, its, kwargs):
        S = I["_S"]
        cut = LoopCut(_cc.constrained_parafac)
        out = []
        def admm_stub(UtM, UtU, x, dual_var, **kw):
            if S.name == "sym":
                return (G.opaque_tensor("ADMMX", list(x.shape), x.dtype), G.opaque_tensor("ADMMAUX", [x.shape[1], x.shape[0]], G._result_dtype(UtM, UtU, x, dual_var)),
                        G.opaque_tensor("ADMMDUAL", list(x.shape), x.dtype))
            from tensorly.solvers.admm import admm as real
            r = real(UtM, UtU, x, dual_var, **kw)
            S.record("ADMMX", r[0]); S.record("ADMMAUX", r[1]); S.record("ADMMDUAL", r[2])
            return r
        # contract of initialize_constrained_parafac: returns CPTensor((None, factors)), i.e. unit weights
        with stubbed(_cc, initialize_constrained_parafac=lambda *a, **k: CPTensor((None, list(I["fs"]))), admm=admm_stub):
            st0 = cut.prefix(I["X"], R if S.name == "sym" else I["fs"][0].shape[1], **kwargs)
            for it in its:
                st = dict(st0)
                st["factors"] = list(st0["factors"])
                st["factors_aux"] = list(st0["factors_aux"])
                st["dual_variables"] = list(st0["dual_variables"])
                pr = Probe([I["e2"], I["e1"]], watch=WATCH)
                st["rec_errors"] = pr
                kind, st2 = cut.body(st, it)
                out.append(dict(it=it, kind=kind, records=list(pr.records), callback=[]))
        return out
    for N in range(3, maxN + 1):
        for opt_name, kwargs in [("non_negative", dict(non_negative=True, return_errors=True)), ("l1_reg,fixed_mode_0", dict(l1_reg=0.1, fixed_modes=[0], return_errors=True))]:
            add("_constrained_cp:constrained_parafac", f"N={N},{opt_name}", cp_setup(N), lambda I, kwargs=kwargs: run_ccp(I, (0, 1), dict(kwargs)), cp_post, dict(order=N, options=opt_name))
    # ====================================================================== non-negative Tucker (multiplicative and HALS): explicit residual norm
    def run_nntucker(func, I, its, kwargs, extra_stubs=None, state_names=("nn_core", "nn_factors")):
        S = I["_S"]
        cut = LoopCut(func)
        out = []
        rank = list(I["r"]) if S.name == "sym" else [f.shape[1] for f in I["fs"]]
        with stubbed(_tk, initialize_tucker=lambda *a, **k: (I["core"], list(I["fs"])), validate_tucker_rank=lambda shape, rank=None, **k: rank, **(extra_stubs or {})):
            st0 = cut.prefix(I["X"], rank, **kwargs)
            for it in its:
                st = dict(st0)
                st["nn_factors"] = list(st0["nn_factors"])
                pr = Probe([I["e2"], I["e1"]], watch=("nn_core", "nn_factors", "tensor", "norm_tensor"))
                st["rec_errors"] = pr
                kind, st2 = cut.body(st, it)
                out.append(dict(it=it, kind=kind, records=list(pr.records)))
        return out

    def nntucker_post(S, I, r):
        pairs = []
        for run in r:
            for e, snap in run["records"]:
                M = SP.tucker_to_tensor(S, snap["nn_core"], snap["nn_factors"])
                pairs += rel_err_pairs(S, f"it={run['it']}", e, snap["norm_tensor"], I["X"], M)
        pairs.append(("one error value per sweep", sum(len(x["records"]) for x in r), len(r)))
        pairs += finite_pairs(S, "nn_tucker")
        return pairs

    def opaque_like(S, prefix):
        def f(t):
            if S.name == "sym":
                return G.opaque_tensor(prefix, list(t.shape), t.dtype)
            raise AssertionError
        return f

    for N in range(2, min(maxN, 3) + 1):
        add("_tucker:non_negative_tucker", f"N={N},plain", tk_setup(N), lambda I: run_nntucker(_tk.non_negative_tucker, I, (0, 3), dict(return_errors=True)), nntucker_post, dict(order=N, options="plain"))
        add("_tucker:non_negative_tucker", f"N={N},normalize_factors", tk_setup(N), lambda I: run_nntucker(_tk.non_negative_tucker, I, (0, 3), dict(return_errors=True, normalize_factors=True)),
            nntucker_post, dict(order=N, options="normalize_factors"), side_nonzero=True)
        for algo, extra in (("fista", {}), ("active_set", {}), ("fista", dict(sparsity_coefficients=[0.3] * N, core_sparsity_coefficient=0.2))):
            def call(I, algo=algo, extra=extra):
                S = I["_S"]
                def hals_stub(UtM, UtU, V=None, **kw):
                    if S.name == "sym":
                        return G.opaque_tensor("HALS", list(V.shape), V.dtype)
                    from tensorly.solvers.nnls import hals_nnls as real
                    return S.record("HALS", real(UtM, UtU, V, **kw))
                def fista_stub(UtM, UtU, x=None, **kw):
                    if S.name == "sym":
                        return G.opaque_tensor("FISTA", list(x.shape), G._result_dtype(UtM, UtU, x))
                    from tensorly.solvers.nnls import fista as real
                    return S.record("FISTA", real(UtM, UtU, x=x, **kw))
                def as_stub(Utm, UtU, x=None, **kw):
                    if S.name == "sym":
                        return G.opaque_tensor("ASET", [G.flat_sizes(x)], x.dtype)
                    from tensorly.solvers.nnls import active_set_nnls as real
                    return S.record("ASET", real(Utm, UtU, x=x, **kw))
                import tensorly as tl_
                def tsvd_stub(M, *a, **k):
                    if S.name == "sym":
                        return None, [G.opaque_tensor("SIGMA", [], real_dtype(M))], None
                    from tensorly.tenalg.svd import truncated_svd as real
                    r = real(M, *a, **k)
                    S.record("SIGMA", r[1][0])
                    return r
                with stubbed(tl_, truncated_svd=tsvd_stub):
                    return run_nntucker(_tk.non_negative_tucker_hals, I, (0, 3), dict(return_errors=True, algorithm=algo, **extra),
                                        extra_stubs=dict(hals_nnls=hals_stub, fista=fista_stub, active_set_nnls=as_stub))
            add("_tucker:non_negative_tucker_hals", f"N={N},{algo}" + (",sparsity coefficients" if extra else ""), tk_setup(N), call, nntucker_post, dict(order=N, options=algo, sparsity=bool(extra)))
    # ====================================================================== randomised CP (sampled ALS): explicit residual norm
    class _Idx:
        def __init__(self, t):
            self.t = t
        def tolist(self):
            return self.t
    def run_rand(I, its, kwargs):
        S = I["_S"]
        cut = LoopCut(_cp.randomised_parafac)
        out = []
        ns_ = atom("nsamp")
        def skr_stub(matrices, n_samples, skip_matrix=None, **kw):
            if S.name == "sym":
                keep = [m for q, m in enumerate(matrices) if q != skip_matrix]
                kr = G.opaque_tensor("SKR", [n_samples, keep[0].shape[1]], keep[0].dtype)
                idx = [_Idx(G.opaque_tensor("SIDX", [n_samples], "int64")) for _ in keep]
                return kr, idx
            return _cp_real_skr(matrices, n_samples, skip_matrix=skip_matrix, **kw)
        _cp_real_skr = _cp.sample_khatri_rao
        with stubbed(_cp, initialize_cp=lambda *a, **k: CPTensor((I["w"], list(I["fs"]))), sample_khatri_rao=skr_stub):
            st0 = cut.prefix(I["X"], R if S.name == "sym" else I["fs"][0].shape[1], ns_ if S.name == "sym" else 7, **kwargs)
            for it in its:
                st = dict(st0)
                st["factors"] = list(st0["factors"])
                pr = Probe([I["e2"], I["e1"]], watch=WATCH)
                st["rec_errors"] = pr
                cb = st.get("callback")
                if cb is not None:
                    cb.records.clear()
                kind, st2 = cut.body(st, it)
                out.append(dict(it=it, kind=kind, records=list(pr.records), callback=list(cb.records) if cb else []))
        return out
    for N in range(2, min(maxN, 3) + 1):
        add("_cp:randomised_parafac", f"N={N},plain", cp_setup(N), lambda I: run_rand(I, (0, 3), dict(return_errors=True, random_state=0)), cp_post, dict(order=N, options="plain"))
        add("_cp:randomised_parafac", f"N={N},callback", cp_setup(N), lambda I: run_rand(I, (0, 3), dict(return_errors=True, random_state=0, callback=CallbackProbe())), cp_post,
            dict(order=N, options="callback"))
    # ====================================================================== tensor-ring ALS (errors reach the user through the callback)
    import tensorly.tr_tensor as trt
    def tr_setup(N):
        def setup(S):
            n = dims(N)
            rk = [atom(f"r{k}") for k in range(N)]
            rk.append(rk[0])
            return dict(_S=S, X=S.input("X", n), cores=[S.input(f"G{k}", [rk[k], n[k], rk[k + 1]]) for k in range(N)], rk=rk, e1=S.input("e_prev1", []), e2=S.input("e_prev2", []))
        return setup
    def run_tr(I, its, ls_solve, tol=1e-9):
        S = I["_S"]
        cut = LoopCut(_tr.tensor_ring_als)
        out = []
        rank = list(I["rk"]) if S.name == "sym" else [c.shape[0] for c in I["cores"]] + [I["cores"][0].shape[0]]
        import tensorly.random as tlr
        cb = CallbackProbe()
        with stubbed(tlr, random_tr=lambda *a, **k: trt.TRTensor(list(I["cores"]))), stubbed(_tr, validate_tr_rank=lambda shape, rank=None, **k: list(rank)):
            st0 = cut.prefix(I["X"], rank, ls_solve=ls_solve, callback=cb, tol=tol)
            for it in its:
                st = dict(st0)
                st["tr_decomp"] = trt.TRTensor(list(st0["tr_decomp"].factors))
                pr = Probe([I["e2"], I["e1"]], watch=("tr_decomp", "tensor_norm"))
                st["rec_errors"] = pr
                cb.records.clear()
                kind, st2 = cut.body(st, it)
                out.append(dict(it=it, kind=kind, records=[(e, dict(cores=list(sn["tr_decomp"].factors), tensor_norm=sn["tensor_norm"])) for e, sn in pr.records],
                                callback=[(list(d.factors), e) for d, e in cb.records], final=list(st2["tr_decomp"].factors) if isinstance(st2, dict) else None))
        return out
    def tr_post(S, I, r):
        pairs = []
        for run in r:
            # the cores are updated in place inside the TRTensor: the value belongs to the decomposition as it is after the sweep
            for e, snap in run["records"]:
                M = SP.tr_to_tensor(S, run["final"])
                pairs += rel_err_pairs(S, f"it={run['it']}", e, snap["tensor_norm"], I["X"], M)
            for cores, e in run["callback"]:
                M = SP.tr_to_tensor(S, run["final"])
                pairs += rel_err_pairs(S, f"callback it={run['it']}", e, S.sqrt(S.sumsq(I["X"])), I["X"], M)
        pairs.append(("an error value reaches the user every sweep (list or callback)", all(len(x["records"]) + len(x["callback"]) >= 1 for x in r), True))
        pairs += finite_pairs(S, "tr_als")
        return pairs
    for N in (3,) + ((4,) if tier == "thorough" else ()):
        for ls in ("lstsq", "normal_eq"):
            add("_tr_als:tensor_ring_als", f"N={N},ls_solve={ls}", tr_setup(N), lambda I, ls=ls: run_tr(I, (0, 1), ls), tr_post, dict(order=N, ls_solve=ls))
        add("_tr_als:tensor_ring_als", f"N={N},tol=0,callback", tr_setup(N), lambda I: run_tr(I, (0, 1), "lstsq", tol=0), tr_post, dict(order=N, ls_solve="lstsq", tol=0))
    # ====================================================================== PARAFAC2
    def p2_setup(nI, wts=True):
        def setup(S):
            K = atom("K")
            Jn = [atom(f"J{i}") for i in range(nI)]
            return dict(_S=S, Xs=[S.input(f"X{i}", [Jn[i], K]) for i in range(nI)], w=S.input("w", [R]), A=S.input("A", [nI, R]), B=S.input("B", [R, R]),
                        Cc=S.input("Cm", [K, R]), P=[S.input(f"P{i}", [Jn[i], R]) for i in range(nI)], e1=S.input("e_prev1", []), e2=S.input("e_prev2", []), K=K)
        return setup
    def run_p2(I, its, kwargs):
        S = I["_S"]
        from tensorly.parafac2_tensor import Parafac2Tensor
        from .c03 import _noval
        import tensorly.parafac2_tensor as p2t
        cut = LoopCut(_p2.parafac2)
        out = []
        real_cp = _p2._compute_projections
        def proj_stub(tensor_slices, factors, svd, **kw):
            if S.name == "sym":
                return [G.opaque_tensor("PROJ", [ts.shape[0], factors[0].shape[1]], ts.dtype, ortho_axis=0) for ts in tensor_slices]
            r = real_cp(tensor_slices, factors, svd)
            for p_ in r:
                S.record("PROJ", p_)
            return r
        real_parafac = _p2.parafac
        def parafac_stub(X, rank, init=None, **kw):
            if S.name == "sym":
                w0, f0 = init
                return CPTensor((None, [G.opaque_tensor("INNER", list(f.shape), G._result_dtype(X, f)) for f in f0]))
            r = real_parafac(X, rank, init=init, **kw)
            for f in r[1]:
                S.record("INNER", f)
            return r
        def init_stub(*a, **k):
            class _D(tuple):
                pass
            return (I["w"], [I["A"], I["B"], I["Cc"]], list(I["P"]))
        rank = R if S.name == "sym" else I["A"].shape[1]
        def go():
            # the validator is used by contract here (its body is proved in C03); projections are orthonormal by the svd contract
            with stubbed(_p2, initialize_decomposition=init_stub, _compute_projections=proj_stub, parafac=parafac_stub,
                         _validate_parafac2_tensor=p2t._validate_parafac2_tensor):
                st0 = cut.prefix(list(I["Xs"]), rank, **kwargs)
                for it in its:
                    st = dict(st0)
                    st["factors"] = list(st0["factors"])
                    pr = Probe([I["e2"], I["e1"]], watch=("weights", "factors", "projections", "norm_tensor"))
                    st["rec_errors"] = pr
                    kind, st2 = cut.body(st, it)
                    out.append(dict(it=it, kind=kind, records=list(pr.records), last=(pr[-1] if len(pr) else None), state=st2 if isinstance(st2, dict) else None))
            return out
        return _noval(p2t, go)
    def p2_post(S, I, r, nI=None):
        pairs = []
        for run in r:
            for e, snap in run["records"]:
                A, B, Cc = snap["factors"]
                tot = None
                for i, Xi in enumerate(I["Xs"]):
                    Mi = SP.parafac2_slice(S, snap["weights"], A, B, Cc, snap["projections"][i], i)
                    d = S.sumsq(G.binop(Xi, Mi, "sub") if S.name == "sym" else Xi - Mi)
                    tot = d if tot is None else tot + d
                nx = None
                for Xi in I["Xs"]:
                    nx = S.sumsq(Xi) if nx is None else nx + S.sumsq(Xi)
                nt = snap["norm_tensor"]
                got = S.resolve_abs(S.unabs(e ** 2 * nt ** 2), [tot, nx])
                pairs += [(f"it={run['it']}: norm_tensor² ≡ Σ_i‖X_i‖²", nt ** 2, nx), (f"it={run['it']}: e²·‖X‖² ≡ Σ_i‖X_i − P_i B diag(a_i∘w) Cᵀ‖²", S.unabs(got), tot)]
        pairs.append(("error reported every non-line-search sweep", sum(len(x["records"]) for x in r), len(r)))
        pairs += finite_pairs(S, "parafac2")
        return pairs
    for nI in (2,) + ((3,) if tier == "thorough" else ()):
        for opt_name, kwargs in [("plain", dict(return_errors=True, linesearch=False)), ("normalize_factors", dict(return_errors=True, linesearch=False, normalize_factors=True))]:
            add("_parafac2:parafac2", f"slices={nI},{opt_name}", p2_setup(nI), lambda I, kwargs=kwargs: run_p2(I, (0, 1), dict(kwargs)), p2_post, dict(n_slices=nI, options=opt_name),
                side_nonzero=("normalize" in opt_name), assumptions=lambda I: [R <= I["K"]])
    # ====================================================================== coupled matrix-tensor factorisation (documented squared, unnormalised form)
    def cm_setup(S):
        n = dims(3)
        Jm = atom("Jm")
        return dict(_S=S, X=S.input("X", n), Y=S.input("Y", [n[0], Jm]), fs=[S.input(f"U{k}", [n[k], R]) for k in range(3)], e1=S.input("e_prev1", []))
    def run_cm(I, its):
        S = I["_S"]
        cut = LoopCut(_cm.coupled_matrix_tensor_3d_factorization)
        out = []
        inits = iter([])
        def init_stub(t, rank, **k):
            # both initialisations return arbitrary CP tensors of the right shapes
            if len(t.shape) == 3:
                return CPTensor((None, list(I["fs"])))
            return CPTensor((None, [I["fs"][0], (G.opaque_tensor("CINIT", [t.shape[1], rank]) if S.name == "sym" else __import__("numpy").ones((t.shape[1], rank)))]))
        with stubbed(_cm, initialize_cp=init_stub):
            st0 = cut.prefix(I["X"], I["Y"], R if S.name == "sym" else I["fs"][0].shape[1])
            for it in its:
                st = dict(st0)
                st["tensor_cp"] = CPTensor((None, list(st0["tensor_cp"].factors)))
                if it >= 1:
                    st["error_old"] = I["e1"]
                pr = Probe([I["e1"]] if it >= 1 else [], watch=("V",))
                st["rec_errors"] = pr
                kind, st2 = cut.body(st, it)
                fin = st2 if isinstance(st2, dict) else {}
                out.append(dict(it=it, kind=kind, records=list(pr.records), final_factors=list(fin["tensor_cp"].factors) if "tensor_cp" in fin else None, V=fin.get("V")))
        return out
    def cm_post(S, I, r):
        pairs = []
        for run in r:
            for e, snap in run["records"]:
                M = SP.cp_to_tensor(S, None, run["final_factors"])
                Ym = S.einsum("ir,jr->ij", run["final_factors"][0], run["V"])
                want = S.sumsq(G.binop(I["X"], M, "sub") if S.name == "sym" else I["X"] - M) + S.sumsq(G.binop(I["Y"], Ym, "sub") if S.name == "sym" else I["Y"] - Ym)
                pairs.append((f"it={run['it']} ({run['kind']}): reported value ≡ ‖X−model‖² + ‖Y−A Vᵀ‖²", e, want))
            pairs.append((f"it={run['it']} ({run['kind']}): the iterate left by this sweep has its error reported (also on the convergence break)", len(run["records"]), 1))
        pairs += finite_pairs(S, "cmtf")
        return pairs
    add("_cmtf_als:coupled_matrix_tensor_3d_factorization", "plain", cm_setup, lambda I: run_cm(I, (0, 1)), cm_post, dict(options="plain"),
        clause="reported value ≡ documented squared error of the iterate it belongs to")
    # ====================================================================== bounded stand-in (never counted as proved): end-to-end native survey - the real
    # entry points, unstubbed, on seeded tensors; a cross-check of the composed contracts on what they assume away (degenerate data, option combinations)
    from .c09 import BoundedOb
    from . import e2e_native
    obs.append(BoundedOb(f"{PID}/bounded/native survey: reported errors are finite and the last one is the error of the returned decomposition", "tensorly.decomposition:parafac+tucker+non_negative_parafac+non_negative_parafac_hals+non_negative_tucker+non_negative_tucker_hals", lambda: e2e_native.c06_c07(tier, "C06"), dict(orders="2-3 (4 thorough)", data="generic, non-negative, integer, exactly low-rank", budgets="1, 2, 8"), "seed 0; tolerance 1e-6 max(1, error)", pid=PID))
    from .c09 import BoundedOb as _BOb
    from . import e2e_native as _e2e
    obs.append(_BOb(f"{PID}/bounded/native survey of secondary entry points: PARAFAC2 variants, TR-ALS, constrained / randomised CP, masks, sparse component, normalisation exits, CMTF, TT-matrix",
                    "tensorly.decomposition:parafac2+tensor_ring_als+constrained_parafac+randomised_parafac+parafac+non_negative_tucker+non_negative_tucker_hals+coupled_matrix_tensor_3d_factorization+tensor_train_matrix",
                    lambda: _e2e.extras(tier, PID), dict(entry_points=9, clauses="those of this property"), "seed 0; tolerances 1e-6 (errors), 1e-8 (structure); one shared run per process, failures filtered by property", pid=PID))
    return obs


def canaries(tier):
    """the CP error identity against the wrong model (weights dropped) must be refuted"""
    import tensorly.decomposition._cp as _cp
    from tensorly.cp_tensor import CPTensor
    R = atom("R")
    def setup(S):
        n = dims(3)
        return dict(_S=S, X=S.input("X", n), w=S.input("w", [R]), fs=[S.input(f"U{k}", [n[k], R]) for k in range(3)], e1=S.input("e_prev1", []), e2=S.input("e_prev2", []))
    def call(I):
        cut = LoopCut(_cp.parafac)
        with stubbed(_cp, initialize_cp=lambda *a, **k: CPTensor((I["w"], list(I["fs"])))):
            st = cut.prefix(I["X"], R, return_errors=True, tol=0)
            pr = Probe([I["e2"], I["e1"]], watch=("weights", "factors", "norm_tensor"))
            st["rec_errors"] = pr
            cut.body(st, 1)
        return pr.records
    def post(S, I, r):
        e, snap = r[0]
        M = SP.cp_to_tensor(S, None, snap["factors"])
        return rel_err_pairs(S, "canary", e, snap["norm_tensor"], I["X"], M)
    return [GOb(PID, f"{PID}/canary/error-of-unweighted-model", "tensorly.decomposition._cp:parafac", setup, call, post, tenalg="core", instance={}, clause="canary")]
