"""C04  Canonicalising and algebraic transforms preserve the represented tensor.

E1-generic obligations (all sizes, ranks, entries): factorised mode products, TT/TR rank padding, normalisations
(under the side condition "no zero column", which is what makes `where(scales == 0, 1, scales)` the identity).
Degenerate cases (zero columns, zero-mean columns) are decided at small concrete sizes by the dense engine (see c04 dense part).
"""
from ..oblig import GOb
from ..symint import atom
from .. import specs as SP

PID = "C04"
LEVEL = "proof"
C = "complex128"
TRUSTED_BASE = [
    "numpy primitive contracts (vt.primcheck each run)",
    "CPython; shadows int/np/math.prod",
    "the VC generator (canaries + soundness monitor)",
    "rewriting rules sqrt(x)^2 = x, s*s^-1 = 1 (s != 0) on syntactically identical bases",
]
ASSUMPTIONS = [
    "floats treated as reals/complex (A1)",
    "normalisation obligations in the generic engine are proved under the side condition that no tested column norm is zero (where(scales == 0, 1, scales) = scales); zero columns are covered at enumerated sizes by the dense obligations",
    "order enumerated (<=3 quick, <=4 thorough)",
]
QUANTIFICATION = "forall mode sizes, ranks, entries; enumerated: order, mode, operand kind, keep_dim/copy, tenalg backend"
EXPLANATION = "to_tensor(transform(F)) is proved equal, in canonical form, to the same dense operation applied to to_tensor(F)."


def dims(N, p="n"):
    return [atom(f"{p}{k}") for k in range(N)]


def obligations(tier):
    import tensorly as tl
    import tensorly.cp_tensor as cpt
    import tensorly.tucker_tensor as tkt
    import tensorly.tt_tensor as ttt
    import tensorly.tr_tensor as trt
    import tensorly.parafac2_tensor as p2t

    maxN = 3 if tier == "quick" else 4
    obs = []
    R, J = atom("R"), atom("J")

    def add(fn, tag, setup, call, post, instance, clause, be="core", **kw):
        inst = dict(instance, tenalg=be)
        obs.append(GOb(PID, f"{PID}/{fn}/{clause}[{be},{tag}]", f"tensorly.{fn}", setup, call, post, tenalg=be, instance=inst, clause=clause,
                       forall=["mode sizes", "ranks", "entries"], enumerated=list(inst), **kw))

    for be in ("core", "einsum"):
        # ------------------------------------------------------------------ factorised mode products
        for N in range(2, maxN + 1):
            for m in range(N):
                for kind in ("matrix", "vector", "vector-keepdim"):
                    for copy in (True, False):
                        for wrap in (False, True):
                            if wrap and (be == "einsum" or not copy):
                                continue
                            def setup(S, N=N, m=m, kind=kind):
                                n = dims(N)
                                M = S.input("M", [J, n[m]], C) if kind == "matrix" else S.input("M", [n[m]], C)
                                return dict(w=S.input("w", [R]), fs=[S.input(f"U{k}", [n[k], R], C) for k in range(N)], M=M)
                            keep = kind == "vector-keepdim"
                            def call(I, m=m, keep=keep, copy=copy, wrap=wrap):
                                cp = cpt.CPTensor((I["w"], list(I["fs"])))
                                if wrap:
                                    r = cp.mode_dot(I["M"], m, keep_dim=keep, copy=copy)
                                else:
                                    r = cpt.cp_mode_dot(cp, I["M"], m, keep_dim=keep, copy=copy)
                                return cpt.cp_to_tensor(r)
                            def post(S, I, r, N=N, m=m, kind=kind):
                                dense = SP.cp_to_tensor(S, I["w"], I["fs"])
                                want = SP.mode_dot(S, dense, I["M"], m)
                                if kind == "vector-keepdim":
                                    want = S.group(want, [[k] for k in range(m)] + [[]] + [[k] for k in range(m, N - 1)])
                                return [("to_tensor(cp_mode_dot) ≡ mode_dot(to_tensor)", r, want)]
                            add("cp_tensor:cp_mode_dot" if not wrap else "cp_tensor:CPTensor.mode_dot", f"N={N},mode={m},{kind},copy={copy}", setup, call, post,
                                dict(order=N, mode=m, operand=kind, copy=copy, wrapper=wrap), "represents the mode product of the dense tensor", be)
                            def setup_t(S, N=N, m=m, kind=kind):
                                n, r = dims(N), dims(N, "r")
                                M = S.input("M", [J, n[m]], C) if kind == "matrix" else S.input("M", [n[m]], C)
                                return dict(core=S.input("G", r, C), fs=[S.input(f"U{k}", [n[k], r[k]], C) for k in range(N)], M=M)
                            def call_t(I, m=m, keep=keep, copy=copy, wrap=wrap):
                                tk = tkt.TuckerTensor((I["core"], list(I["fs"])))
                                if wrap:
                                    r = tk.mode_dot(I["M"], m, keep_dim=keep, copy=copy)
                                else:
                                    r = tkt.tucker_mode_dot(tk, I["M"], m, keep_dim=keep, copy=copy)
                                return tkt.tucker_to_tensor(r)
                            def post_t(S, I, r, N=N, m=m, kind=kind):
                                dense = SP.tucker_to_tensor(S, I["core"], I["fs"])
                                want = SP.mode_dot(S, dense, I["M"], m)
                                if kind == "vector-keepdim":
                                    want = S.group(want, [[k] for k in range(m)] + [[]] + [[k] for k in range(m, N - 1)])
                                return [("to_tensor(tucker_mode_dot) ≡ mode_dot(to_tensor)", r, want)]
                            if N >= 3 or kind != "vector":  # contracting an order-2 Tucker tensor leaves one factor: outside the format (>= 2 factors)
                                add("tucker_tensor:tucker_mode_dot" if not wrap else "tucker_tensor:TuckerTensor.mode_dot", f"N={N},mode={m},{kind},copy={copy}", setup_t, call_t, post_t,
                                    dict(order=N, mode=m, operand=kind, copy=copy, wrapper=wrap), "represents the mode product of the dense tensor", be)
        # ------------------------------------------------------------------ normalisations (side condition: no zero column)
        for N in range(2, maxN + 1):
            for wts in (True, False):
                def setup(S, N=N, wts=wts):
                    n = dims(N)
                    return dict(w=S.input("w", [R]) if wts else None, fs=[S.input(f"U{k}", [n[k], R], C) for k in range(N)])
                def post(S, I, r, N=N):
                    w2, fs2 = r
                    out = [("tensor preserved", SP.cp_to_tensor(S, w2, fs2), SP.cp_to_tensor(S, I["w"], I["fs"]))]
                    for k in range(N):
                        f = I["fs"][k] if (k > 0 or I["w"] is None) else S.einsum("ir,r->ir", I["fs"][0], I["w"])
                        nrm2 = S.einsum("ir,ir->r", f, S.conj(f))
                        P = S.sqrt(nrm2) ** 2
                        got = S.einsum("ir,ir->r", fs2[k], S.conj(fs2[k]))
                        out.append((f"unit column norms of factor {k} (× scale²)", got * P, P))
                    return out
                add("cp_tensor:cp_normalize", f"N={N},weights={wts}", setup, lambda I: tuple(cpt.cp_normalize((I["w"], list(I["fs"])))), post,
                    dict(order=N, weights=wts), "tensor preserved ∧ unit-norm columns (no zero column)", be, side_nonzero=True)
            def setup_t(S, N=N):
                n, r = dims(N), dims(N, "r")
                return dict(core=S.input("G", r, C), fs=[S.input(f"U{k}", [n[k], r[k]], C) for k in range(N)])
            def post_t(S, I, r, N=N):
                c2, fs2 = r
                out = [("tensor preserved", SP.tucker_to_tensor(S, c2, fs2), SP.tucker_to_tensor(S, I["core"], I["fs"]))]
                for k in range(N):
                    nrm2 = S.einsum("ir,ir->r", I["fs"][k], S.conj(I["fs"][k]))
                    P = S.sqrt(nrm2) ** 2
                    got = S.einsum("ir,ir->r", fs2[k], S.conj(fs2[k]))
                    out.append((f"unit column norms of factor {k} (× scale²)", got * P, P))
                return out
            add("tucker_tensor:tucker_normalize", f"N={N}", setup_t, lambda I: tuple(tkt.tucker_normalize((I["core"], list(I["fs"])))), post_t,
                dict(order=N), "tensor preserved ∧ unit-norm columns (no zero column)", be, side_nonzero=True)
    # ---------------------------------------------------------------------- cp_flip_sign (generic case: non-zero column summaries)
    for N in range(2, maxN + 1):
        for m in range(N):
            def setup(S, N=N):
                n = dims(N)
                return dict(w=S.input("w", [R]), fs=[S.input(f"U{k}", [n[k], R]) for k in range(N)])
            def post(S, I, r):
                w2, fs2 = r
                return [("tensor preserved", SP.cp_to_tensor(S, w2, fs2), SP.cp_to_tensor(S, I["w"], I["fs"])),
                        ("weights are |w|", w2, S.abs(I["w"]))]
            add("cp_tensor:cp_flip_sign", f"N={N},mode={m}", setup, lambda I, m=m: tuple(cpt.cp_flip_sign((I["w"], list(I["fs"])), mode=m)), post,
                dict(order=N, mode=m), "tensor preserved ∧ weights non-negative (non-zero column summaries)", side_nonzero=True)
    # ---------------------------------------------------------------------- PARAFAC2 normalise
    for nI in (1, 2, 3):
        for wts in (True, False):
            def setup(S, nI=nI, wts=wts):
                K = atom("K")
                return dict(w=S.input("w", [R]) if wts else None, A=S.input("A", [nI, R]), B=S.input("B", [R, R]), Cc=S.input("Cm", [K, R]),
                            P=[S.input(f"P{i}", [atom(f"J{i}"), R]) for i in range(nI)])
            def call(I):
                from .c03 import _noval
                return tuple(_noval(p2t, lambda: p2t.parafac2_normalise((I["w"], (I["A"], I["B"], I["Cc"]), list(I["P"])))))
            def post(S, I, r, nI=nI):
                w2, (A2, B2, C2), P2 = r
                out = []
                for i in range(nI):
                    out.append((f"slice {i} preserved", SP.parafac2_slice(S, w2, A2, B2, C2, P2[i], i), SP.parafac2_slice(S, I["w"], I["A"], I["B"], I["Cc"], I["P"][i], i)))
                return out
            add("parafac2_tensor:parafac2_normalise", f"slices={nI},weights={wts}", setup, call, post, dict(n_slices=nI, weights=wts),
                "every slice preserved (no zero column)", side_nonzero=True)
    # ---------------------------------------------------------------------- TT / TR rank padding
    for d in range(1, maxN + 1):
        def setup(S, d=d):
            rk = [1] + [atom(f"r{k}") for k in range(1, d)] + [1]
            n = dims(d)
            return dict(cores=[S.input(f"G{k}", [rk[k], n[k], rk[k + 1]], C) for k in range(d)], rk=rk, n=n, pad=atom("pad"))
        def post(S, I, r, d=d):
            out = [("tensor preserved", ttt.tt_to_tensor(r) if S.name == "num" else SP.tt_to_tensor(S, r), SP.tt_to_tensor(S, I["cores"]))]
            for k in range(d):
                lp = 0 if k == 0 else I["pad"]
                rp = 0 if k == d - 1 else I["pad"]
                out.append((f"core {k} shape", tuple(S.shape(r[k])), (I["rk"][k] + lp, I["n"][k], I["rk"][k + 1] + rp)))
            return out
        add("tt_tensor:pad_tt_rank", f"d={d},pad_boundaries=False", setup, lambda I: ttt.pad_tt_rank(list(I["cores"]), n_padding=I["pad"]), post,
            dict(n_cores=d, pad_boundaries=False), "tensor preserved ∧ ranks enlarged, boundary ranks stay 1")
    for d in range(2, maxN + 1):
        def setup(S, d=d):
            rk = [atom(f"r{k}") for k in range(d)]
            rk.append(rk[0])
            n = dims(d)
            return dict(cores=[S.input(f"G{k}", [rk[k], n[k], rk[k + 1]], C) for k in range(d)], rk=rk, n=n, pad=atom("pad"))
        def post(S, I, r, d=d):
            out = [("ring tensor preserved", SP.tr_to_tensor(S, r), SP.tr_to_tensor(S, I["cores"]))]
            for k in range(d):
                out.append((f"core {k} shape", tuple(S.shape(r[k])), (I["rk"][k] + I["pad"], I["n"][k], I["rk"][k + 1] + I["pad"])))
            return out
        add("tt_tensor:pad_tt_rank", f"d={d},pad_boundaries=True(ring)", setup, lambda I: ttt.pad_tt_rank(list(I["cores"]), n_padding=I["pad"], pad_boundaries=True), post,
            dict(n_cores=d, pad_boundaries=True), "ring tensor preserved ∧ all ranks enlarged")
    return obs


def p_of(I):
    """the symbolic padding amount; concretised natively through the environment"""
    return I.get("_pad", atom("pad"))


def canaries(tier):
    import tensorly.cp_tensor as cpt
    R = atom("R")
    def setup(S):
        n = dims(3)
        return dict(w=S.input("w", [R]), fs=[S.input(f"U{k}", [n[k], R], C) for k in range(3)])
    return [GOb(PID, f"{PID}/canary/cp_normalize-drops-weights", "tensorly.cp_tensor:cp_normalize", setup,
                lambda I: tuple(cpt.cp_normalize((I["w"], list(I["fs"])))),
                lambda S, I, r: [("tensor", SP.cp_to_tensor(S, r[0], r[1]), SP.cp_to_tensor(S, None, I["fs"]))],
                tenalg="core", instance={}, clause="canary", side_nonzero=True)]
