"""C04  Canonicalising and algebraic transforms preserve the represented tensor.

E1-generic obligations (all sizes, ranks, entries): factorised mode products, TT/TR rank padding, normalisations
(under the side condition "no zero column", which is what makes `where(scales == 0, 1, scales)` the identity).
Degenerate cases (zero columns, zero-mean columns) are decided at small concrete sizes by the dense engine (see c04 dense part).
"""
from ..oblig import GOb
from ..symint import atom
from .. import specs as SP
from .. import gtensor as G

PID = "C04"
LEVEL = "proof"
C = "complex128"
TRUSTED_BASE = [
    "numpy primitive contracts (vt.primcheck each run)",
    "CPython; shadows int/np/math.prod",
    "the VC generator (canaries + soundness monitor)",
    "rewriting rules sqrt(x)^2 = x, s*s^-1 = 1 (s != 0) on syntactically identical bases",
]
ASSUMPTIONS = [
    "floats treated as reals/complex (A1)",
    "normalisation obligations in the generic engine are proved under the side condition that no tested column norm is zero (where(scales == 0, 1, scales) = scales); zero columns are covered at enumerated sizes by the dense obligations",
    "order enumerated (<=4 quick, <=5 thorough)",
]
QUANTIFICATION = "forall mode sizes, ranks, entries; enumerated: order, mode, operand kind, keep_dim/copy, tenalg backend"
EXPLANATION = "to_tensor(transform(F)) is proved equal, in canonical form, to the same dense operation applied to to_tensor(F)."


def dims(N, p="n"):
    return [atom(f"{p}{k}") for k in range(N)]


def obligations(tier):
    import tensorly as tl
    import tensorly.cp_tensor as cpt
    import tensorly.tucker_tensor as tkt
    import tensorly.tt_tensor as ttt
    import tensorly.tr_tensor as trt
    import tensorly.parafac2_tensor as p2t

    maxN = 4 if tier == "quick" else 5
    obs = []
    R, J = atom("R"), atom("J")

    def add(fn, tag, setup, call, post, instance, clause, be="core", **kw):
        inst = dict(instance, tenalg=be)
        obs.append(GOb(PID, f"{PID}/{fn}/{clause}[{be},{tag}]", f"tensorly.{fn}", setup, call, post, tenalg=be, instance=inst, clause=clause,
                       forall=["mode sizes", "ranks", "entries"], enumerated=list(inst), **kw))

    for be in ("core", "einsum"):
        # ------------------------------------------------------------------ factorised mode products
        for N in range(2, maxN + 1):
            for m in range(N):
                for kind in ("matrix", "vector", "vector-keepdim"):
                    for copy in (True, False):
                        for wrap in (False, True):
                            if wrap and (be == "einsum" or not copy):
                                continue
                            def setup(S, N=N, m=m, kind=kind):
                                n = dims(N)
                                M = S.input("M", [J, n[m]], C) if kind == "matrix" else S.input("M", [n[m]], C)
                                return dict(w=S.input("w", [R]), fs=[S.input(f"U{k}", [n[k], R], C) for k in range(N)], M=M)
                            keep = kind == "vector-keepdim"
                            def call(I, m=m, keep=keep, copy=copy, wrap=wrap):
                                cp = cpt.CPTensor((I["w"], list(I["fs"])))
                                if wrap:
                                    r = cp.mode_dot(I["M"], m, keep_dim=keep, copy=copy)
                                else:
                                    r = cpt.cp_mode_dot(cp, I["M"], m, keep_dim=keep, copy=copy)
                                return cpt.cp_to_tensor(r)
                            def post(S, I, r, N=N, m=m, kind=kind):
                                dense = SP.cp_to_tensor(S, I["w"], I["fs"])
                                want = SP.mode_dot(S, dense, I["M"], m)
                                if kind == "vector-keepdim":
                                    want = S.group(want, [[k] for k in range(m)] + [[]] + [[k] for k in range(m, N - 1)])
                                return [("to_tensor(cp_mode_dot) ≡ mode_dot(to_tensor)", r, want)]
                            add("cp_tensor:cp_mode_dot" if not wrap else "cp_tensor:CPTensor.mode_dot", f"N={N},mode={m},{kind},copy={copy}", setup, call, post,
                                dict(order=N, mode=m, operand=kind, copy=copy, wrapper=wrap), "represents the mode product of the dense tensor", be)
                            def setup_t(S, N=N, m=m, kind=kind):
                                n, r = dims(N), dims(N, "r")
                                M = S.input("M", [J, n[m]], C) if kind == "matrix" else S.input("M", [n[m]], C)
                                return dict(core=S.input("G", r, C), fs=[S.input(f"U{k}", [n[k], r[k]], C) for k in range(N)], M=M)
                            def call_t(I, m=m, keep=keep, copy=copy, wrap=wrap):
                                tk = tkt.TuckerTensor((I["core"], list(I["fs"])))
                                if wrap:
                                    r = tk.mode_dot(I["M"], m, keep_dim=keep, copy=copy)
                                else:
                                    r = tkt.tucker_mode_dot(tk, I["M"], m, keep_dim=keep, copy=copy)
                                return tkt.tucker_to_tensor(r)
                            def post_t(S, I, r, N=N, m=m, kind=kind):
                                dense = SP.tucker_to_tensor(S, I["core"], I["fs"])
                                want = SP.mode_dot(S, dense, I["M"], m)
                                if kind == "vector-keepdim":
                                    want = S.group(want, [[k] for k in range(m)] + [[]] + [[k] for k in range(m, N - 1)])
                                return [("to_tensor(tucker_mode_dot) ≡ mode_dot(to_tensor)", r, want)]
                            if N >= 3 or kind != "vector":  # contracting an order-2 Tucker tensor leaves one factor: outside the format (>= 2 factors)
                                add("tucker_tensor:tucker_mode_dot" if not wrap else "tucker_tensor:TuckerTensor.mode_dot", f"N={N},mode={m},{kind},copy={copy}", setup_t, call_t, post_t,
                                    dict(order=N, mode=m, operand=kind, copy=copy, wrapper=wrap), "represents the mode product of the dense tensor", be)
        # ------------------------------------------------------------------ normalisations (side condition: no zero column)
        for N in range(2, maxN + 1):
            for wts in (True, False):
                def setup(S, N=N, wts=wts):
                    n = dims(N)
                    return dict(w=S.input("w", [R]) if wts else None, fs=[S.input(f"U{k}", [n[k], R], C) for k in range(N)])
                def post(S, I, r, N=N):
                    w2, fs2 = r
                    out = [("tensor preserved", SP.cp_to_tensor(S, w2, fs2), SP.cp_to_tensor(S, I["w"], I["fs"]))]
                    for k in range(N):
                        f = I["fs"][k] if (k > 0 or I["w"] is None) else S.einsum("ir,r->ir", I["fs"][0], I["w"])
                        nrm2 = S.einsum("ir,ir->r", f, S.conj(f))
                        P = S.sqrt(nrm2) ** 2
                        got = S.einsum("ir,ir->r", fs2[k], S.conj(fs2[k]))
                        out.append((f"unit column norms of factor {k} (× scale²)", got * P, P))
                    return out
                add("cp_tensor:cp_normalize", f"N={N},weights={wts}", setup, lambda I: tuple(cpt.cp_normalize((I["w"], list(I["fs"])))), post,
                    dict(order=N, weights=wts), "tensor preserved ∧ unit-norm columns (no zero column)", be, side_nonzero=True)
            def setup_t(S, N=N):
                n, r = dims(N), dims(N, "r")
                return dict(core=S.input("G", r, C), fs=[S.input(f"U{k}", [n[k], r[k]], C) for k in range(N)])
            def post_t(S, I, r, N=N):
                c2, fs2 = r
                out = [("tensor preserved", SP.tucker_to_tensor(S, c2, fs2), SP.tucker_to_tensor(S, I["core"], I["fs"]))]
                for k in range(N):
                    nrm2 = S.einsum("ir,ir->r", I["fs"][k], S.conj(I["fs"][k]))
                    P = S.sqrt(nrm2) ** 2
                    got = S.einsum("ir,ir->r", fs2[k], S.conj(fs2[k]))
                    out.append((f"unit column norms of factor {k} (× scale²)", got * P, P))
                return out
            add("tucker_tensor:tucker_normalize", f"N={N}", setup_t, lambda I: tuple(tkt.tucker_normalize((I["core"], list(I["fs"])))), post_t,
                dict(order=N), "tensor preserved ∧ unit-norm columns (no zero column)", be, side_nonzero=True)
    # ---------------------------------------------------------------------- cp_flip_sign (generic case: non-zero column summaries)
    for N in range(2, maxN + 1):
        for m in range(N):
            def setup(S, N=N):
                n = dims(N)
                return dict(w=S.input("w", [R]), fs=[S.input(f"U{k}", [n[k], R]) for k in range(N)])
            def post(S, I, r, N=N, m=m):
                w2, fs2 = r
                out = [("tensor preserved", SP.cp_to_tensor(S, w2, fs2), SP.cp_to_tensor(S, I["w"], I["fs"])),
                       ("weights are |w|", w2, S.abs(I["w"]))]
                for jj in range(N):
                    if jj == m:
                        continue
                    if S.name == "sym":
                        mean_new = G.g_mean(fs2[jj], 0)
                        mean_old = G.g_mean(I["fs"][jj], 0)
                        sgn = G.g_sign(mean_old)
                        out.append((f"column summaries of mode {jj} are |old summaries| (non-negative): new·sign(old) ≡ old", mean_new * sgn, mean_old))
                    else:
                        import numpy as np
                        out.append((f"column summaries of mode {jj} are |old summaries| (non-negative): new·sign(old) ≡ old", np.mean(fs2[jj], 0) * np.sign(np.mean(I["fs"][jj], 0)), np.mean(I["fs"][jj], 0)))
                return out
            add("cp_tensor:cp_flip_sign", f"N={N},mode={m}", setup, lambda I, m=m: tuple(cpt.cp_flip_sign((I["w"], list(I["fs"])), mode=m)), post,
                dict(order=N, mode=m), "tensor preserved ∧ weights non-negative (non-zero column summaries)", side_nonzero=True)
    # ---------------------------------------------------------------------- PARAFAC2 normalise
    for nI in (1, 2, 3):
        for wts in (True, False):
            def setup(S, nI=nI, wts=wts):
                K = atom("K")
                return dict(w=S.input("w", [R]) if wts else None, A=S.input("A", [nI, R]), B=S.input("B", [R, R]), Cc=S.input("Cm", [K, R]),
                            P=[S.input(f"P{i}", [atom(f"J{i}"), R]) for i in range(nI)])
            def call(I):
                from .c03 import _noval
                return tuple(_noval(p2t, lambda: p2t.parafac2_normalise((I["w"], (I["A"], I["B"], I["Cc"]), list(I["P"])))))
            def post(S, I, r, nI=nI):
                w2, (A2, B2, C2), P2 = r
                out = []
                for i in range(nI):
                    out.append((f"slice {i} preserved", SP.parafac2_slice(S, w2, A2, B2, C2, P2[i], i), SP.parafac2_slice(S, I["w"], I["A"], I["B"], I["Cc"], I["P"][i], i)))
                return out
            add("parafac2_tensor:parafac2_normalise", f"slices={nI},weights={wts}", setup, call, post, dict(n_slices=nI, weights=wts),
                "every slice preserved (no zero column)", side_nonzero=True)
    # ---------------------------------------------------------------------- cp_permute_factors (assignment solver by contract)
    import itertools
    from ..iterative import stubbed, real_dtype
    for Rk in (2, 3):
        for perm in itertools.permutations(range(Rk)):
            def setup(S, Rk=Rk):
                n = dims(3)
                return dict(_S=S, wr=S.input("wr", [Rk]), fr=[S.input(f"V{k}", [n[k], Rk]) for k in range(3)],
                            w=S.input("w", [Rk]), fs=[S.input(f"U{k}", [n[k], Rk]) for k in range(3)])
            def call(I, perm=perm):
                rec = []
                def cc_stub(m1, m2, **kw):
                    rec.append((list(m1), list(m2)))
                    return 0.5, list(perm)
                ref = cpt.CPTensor((I["wr"], list(I["fr"])))
                tgt = cpt.CPTensor((I["w"], list(I["fs"])))
                with stubbed(cpt, congruence_coefficient=cc_stub):
                    out, perms = cpt.cp_permute_factors(ref, tgt)
                return dict(out=(out.weights, list(out.factors)), perms=[list(p) for p in perms], rec=rec)
            def post(S, I, r, perm=perm, Rk=Rk):
                w2, fs2 = r["out"]
                m1, m2 = r["rec"][0]
                nref = cpt.cp_normalize((I["wr"], list(I["fr"])))
                ntgt = cpt.cp_normalize((I["w"], list(I["fs"])))
                out = [("tensor preserved", SP.cp_to_tensor(S, w2, fs2), SP.cp_to_tensor(S, I["w"], I["fs"])),
                       ("returned permutation is the assignment", r["perms"][0], list(perm)),
                       ("assignment computed for (normalised reference, normalised tensor) in this order: reference first", m1, list(nref.factors)),
                       ("... tensor to permute second", m2, list(I["fs"])),
                       ("weights aligned: w'[j] ≡ w[perm[j]]", w2, S.stack([S.take(I["w"], 0, p) for p in perm], 0))]
                for k in range(3):
                    out.append((f"mode {k}: column j of the result is column perm[j] of the input", fs2[k], S.stack([S.take(I["fs"][k], 1, p) for p in perm], 1)))
                return out
            add("cp_tensor:cp_permute_factors", f"rank={Rk},assignment={list(perm)}", setup, call, post, dict(rank=Rk, assignment=list(perm)),
                "tensor preserved ∧ components aligned with the assignment (reference first)", side_nonzero=True)
    # ---------------------------------------------------------------------- Parafac2Tensor.from_CPTensor (QR by contract: B = Q R, QᵀQ = I)
    for nI in (1, 2, 3):
        for wts in (True, False):
            def setup(S, nI=nI, wts=wts):
                J, K = atom("J"), atom("K")
                return dict(_S=S, w=S.input("w", [R]) if wts else None, A=S.input("A", [nI, R]), B=S.input("B", [J, R]), Cc=S.input("Cm", [K, R]))
            def call(I):
                from .c03 import _noval
                t = _noval(p2t, lambda: p2t.Parafac2Tensor.from_CPTensor((I["w"], (I["A"], I["B"], I["Cc"]))))
                return (t.weights if I["w"] is not None else None, list(t.factors), list(t.projections))
            def post(S, I, r, nI=nI):
                w2, (A2, B2, C2), P2 = r
                out = []
                for i in range(nI):
                    a_i = S.take(I["A"], 0, i)
                    subs, args = ["jr", "r", "kr"], [I["B"], a_i, I["Cc"]]
                    if I["w"] is not None:
                        subs.append("r")
                        args.append(I["w"])
                    out.append((f"slice {i} of the PARAFAC2 form ≡ slice {i} of the CP tensor", SP.parafac2_slice(S, w2, A2, B2, C2, P2[i], i), S.einsum(",".join(subs) + "->jk", *args)))
                out.append(("one projection per slice", len(P2), nI))
                return out
            add("parafac2_tensor:Parafac2Tensor.from_CPTensor", f"slices={nI},weights={wts}", setup, call, post, dict(n_slices=nI, weights=wts),
                "every slice preserved (QR contract)", assumptions=lambda I: [atom("J") >= R])
    # ---------------------------------------------------------------------- SVD compression / decompression of PARAFAC2 slices
    import tensorly.preprocessing as prep
    for K in (2, 3):
        for pattern in (("tall",), ("short", "tall"), ("tall", "short"), ("short", "tall", "short", "tall")):
            if K == 3 and len(pattern) > 2 and tier == "quick":
                continue
            def setup(S, K=K, pattern=pattern):
                Js = [atom(f"J{i}") if kind == "tall" else K for i, kind in enumerate(pattern)]
                return dict(_S=S, Xs=[S.input(f"X{i}", [Js[i], K]) for i in range(len(pattern))], Js=Js,
                            w=S.input("w", [R]), A=S.input("A", [len(pattern), R]), B=S.input("B", [R, R]), Cc=S.input("Cm", [K, R]),
                            P=[S.input(f"P{i}", [K, R]) for i in range(len(pattern))])
            def call(I, K=K):
                S = I["_S"]
                def svd_stub(matrix, n_eigenvecs=None, **kw):
                    if S.name == "sym":
                        U = G.opaque_tensor("SVDU", [matrix.shape[0], n_eigenvecs], matrix.dtype, ortho_axis=0)
                        Sv = G.opaque_tensor("SVDS", [n_eigenvecs], real_dtype(matrix))
                        V = G.opaque_tensor("SVDV", [n_eigenvecs, matrix.shape[1]], matrix.dtype, ortho_axis=1)
                        G.NONNEG.add(G.name_of(Sv))
                        # all min(shape) singular values are kept (n_eigenvecs == number of columns <= rows): the SVD is exact
                        G.register_factorisation((G.name_of(U), G.name_of(Sv), G.name_of(V)), matrix)
                        return U, Sv, V
                    from tensorly.tenalg.svd import svd_interface as real
                    out = real(matrix, n_eigenvecs=n_eigenvecs, **kw)
                    S.record("SVDU", out[0]); S.record("SVDS", out[1]); S.record("SVDV", out[2])
                    return out
                with stubbed(prep, svd_interface=svd_stub):
                    scores, loadings = prep.svd_compress_tensor_slices(list(I["Xs"]))
                from .c03 import _noval
                pf2 = (I["w"], (I["A"], I["B"], I["Cc"]), list(I["P"]))
                dec = _noval(p2t, lambda: prep.svd_decompress_parafac2_tensor(pf2, loadings))
                return dict(scores=scores, loadings=loadings, dec=(dec.weights, list(dec.factors), list(dec.projections)))
            def post(S, I, r, pattern=pattern):
                out = []
                w2, (A2, B2, C2), P2 = r["dec"]
                for i, kind in enumerate(pattern):
                    L, sc = r["loadings"][i], r["scores"][i]
                    model_i = SP.parafac2_slice(S, I["w"], I["A"], I["B"], I["Cc"], I["P"][i], i)
                    dec_i = SP.parafac2_slice(S, w2, A2, B2, C2, P2[i], i)
                    if kind == "short":
                        out.append((f"slice {i} (not taller than wide): left uncompressed", (L is None, sc), (True, I["Xs"][i])))
                        out.append((f"slice {i}: decompressed model slice ≡ model slice", dec_i, model_i))
                    else:
                        out.append((f"slice {i} (tall): loading·score ≡ original slice (all singular values kept)", S.einsum("jk,kc->jc", L, sc), I["Xs"][i]))
                        out.append((f"slice {i}: decompressed model slice ≡ loading · compressed model slice", dec_i, S.einsum("jk,kc->jc", L, model_i)))
                return out
            add("preprocessing:svd_compress_tensor_slices+svd_decompress_parafac2_tensor", f"columns={K},slices={'/'.join(pattern)}", setup, call, post,
                dict(columns=K, slices=list(pattern)), "compression is lossless when all singular values are kept; decompression maps every model slice back",
                assumptions=lambda I: [j > len(I["Xs"]) * 0 + I["Xs"][0].shape[1] for j in I["Js"] if not isinstance(j, int)])
    # ---------------------------------------------------------------------- TT / TR rank padding
    for d in range(1, maxN + 1):
        def setup(S, d=d):
            rk = [1] + [atom(f"r{k}") for k in range(1, d)] + [1]
            n = dims(d)
            return dict(cores=[S.input(f"G{k}", [rk[k], n[k], rk[k + 1]], C) for k in range(d)], rk=rk, n=n, pad=atom("pad"))
        def post(S, I, r, d=d):
            out = [("tensor preserved", ttt.tt_to_tensor(r) if S.name == "num" else SP.tt_to_tensor(S, r), SP.tt_to_tensor(S, I["cores"]))]
            for k in range(d):
                lp = 0 if k == 0 else I["pad"]
                rp = 0 if k == d - 1 else I["pad"]
                out.append((f"core {k} shape", tuple(S.shape(r[k])), (I["rk"][k] + lp, I["n"][k], I["rk"][k + 1] + rp)))
            return out
        add("tt_tensor:pad_tt_rank", f"d={d},pad_boundaries=False", setup, lambda I: ttt.pad_tt_rank(list(I["cores"]), n_padding=I["pad"]), post,
            dict(n_cores=d, pad_boundaries=False), "tensor preserved ∧ ranks enlarged, boundary ranks stay 1")
    for d in range(2, maxN + 1):
        def setup(S, d=d):
            rk = [atom(f"r{k}") for k in range(d)]
            rk.append(rk[0])
            n = dims(d)
            return dict(cores=[S.input(f"G{k}", [rk[k], n[k], rk[k + 1]], C) for k in range(d)], rk=rk, n=n, pad=atom("pad"))
        def post(S, I, r, d=d):
            out = [("ring tensor preserved", SP.tr_to_tensor(S, r), SP.tr_to_tensor(S, I["cores"]))]
            for k in range(d):
                out.append((f"core {k} shape", tuple(S.shape(r[k])), (I["rk"][k] + I["pad"], I["n"][k], I["rk"][k + 1] + I["pad"])))
            return out
        add("tt_tensor:pad_tt_rank", f"d={d},pad_boundaries=True(ring)", setup, lambda I: ttt.pad_tt_rank(list(I["cores"]), n_padding=I["pad"], pad_boundaries=True), post,
            dict(n_cores=d, pad_boundaries=True), "ring tensor preserved ∧ all ranks enlarged")
    return obs


def p_of(I):
    """the symbolic padding amount; concretised natively through the environment"""
    return I.get("_pad", atom("pad"))


def canaries(tier):
    import tensorly.cp_tensor as cpt
    R = atom("R")
    def setup(S):
        n = dims(3)
        return dict(w=S.input("w", [R]), fs=[S.input(f"U{k}", [n[k], R], C) for k in range(3)])
    return [GOb(PID, f"{PID}/canary/cp_normalize-drops-weights", "tensorly.cp_tensor:cp_normalize", setup,
                lambda I: tuple(cpt.cp_normalize((I["w"], list(I["fs"])))),
                lambda S, I, r: [("tensor", SP.cp_to_tensor(S, r[0], r[1]), SP.cp_to_tensor(S, None, I["fs"]))],
                tenalg="core", instance={}, clause="canary", side_nonzero=True)]
