"""C05  SVD interface returns a genuine, sign-canonical truncated SVD.

What a contract can say here: the backend's svd / eigh / qr are dependencies (LAPACK) with assumed contracts; the repository code is the wrapper.
* svd_checks: the clamp of n_eigenvecs (None, within range, past max(shape)) - all sizes, z3 on the size atoms.
* truncated_svd: the full_matrices switch is thrown exactly when n_eigenvecs exceeds min(shape); the returned triple IS the leading slices of the backend's
  SVD (provenance), with the documented shapes whenever n_eigenvecs <= min(shape); by the svd contract the slices are orthonormal, the values non-negative
  and non-increasing and the product the rank-k truncation (best approximation with error = tail by Eckart-Young, trusted lemma L2).
* svd_interface: dispatch on the method name (three built-ins, callables, ValueError otherwise) with n_eigenvecs and the keyword arguments handed over
  unchanged; sign resolution and the non-negative transformation are applied exactly when requested, on the method's output; the mask imputation loop re-runs
  the method on matrix*mask + (U diag(S) V)*(1-mask).
* svd_flip (E1-dense, z3, enumerated small shapes): the product U diag(S) V is unchanged, the deciding entry (largest magnitude of each column of U / row of
  V) is non-negative afterwards, for all values of non-degenerate factors.
* make_svd_non_negative (E1-dense, z3, enumerated small shapes): both factors entrywise non-negative and every division defined, for any triplet with
  non-negative singular values and non-zero vectors (data-dependent branches are forked); the NNDSVDa fill on the one-component instances.
* symeig_svd (eigh, flip by contract): Gram matrix handed to eigh, S = sqrt(clip(w)), U diag(S) V = M before the reversal, component-axis reversals, leading slices.
* randomized_svd (randomized_range_finder, truncated_svd by contract): arguments of both callees, composition U = Q U' / V = V' Qᵀ, product = projection of the
  matrix on the sampled range, orthonormal factors; real and complex data.
* Accuracy against numpy.linalg.svd for every method, shape class and n_eigenvecs, symeig / randomized orthonormality, NNDSVD approximation quality: bounded
  native stand-in - labelled bounded, never counted as proved.
"""
import itertools
import warnings

import numpy as np

from ..oblig import GOb, _sym_equal
from ..oblig_dense import DOb
from ..symint import atom, SInt, current_ctx
from ..iterative import stubbed, real_dtype
from .. import gtensor as G
from .. import dense as D
from ..dense import d_and, d_or, d_implies, d_le, d_lt, d_eq, d_abs, d_sum

PID = "C05"
LEVEL = "proof"
TRUSTED_BASE = [
    "backend svd contract (LAPACK through numpy): M = U diag(S) V with orthonormal U columns / V rows, S non-negative and non-increasing; full_matrices completes U and V to square orthogonal matrices",
    "L2 Eckart-Young: the leading k singular triplets give a best rank-k approximation with error equal to the norm of the discarded singular values",
    "numpy primitive contracts; CPython",
]
ASSUMPTIONS = [
    "eigh contract (A3): ascending real eigenvalues, square orthogonal eigenvector matrix; flip = reversal of one axis; lemma: reversing U's columns, S and V's rows together keeps U diag(S) V and turns ascending into non-increasing",
    "randomized_range_finder enters randomized_svd by contract (documented shape, orthonormal columns); its body is proved to perform the re-orthonormalised power iteration with qr by contract (n_dims <= min(shape)); 'captures the range when n_dims covers the rank' is Halko et al., not proved; n_dims > min(shape) and the clipped / rank-deficient case of symeig_svd are covered only by the bounded stand-in",
    "svd_flip at enumerated shapes up to 3x2 / 2x3 with 1-2 components, factors without a zero deciding column (true of singular vectors)",
    "make_svd_non_negative at enumerated shapes up to 3x2 / 2x3 (3x3 thorough) with 1-2 (3) components; singular vectors enter as 'not zero', singular values as non-negative; the NNDSVDa fill only with one component",
]
QUANTIFICATION = "forall matrix sizes, n_eigenvecs (None, in range, past the sizes) and entries for the wrapper logic; forall entries at the enumerated shapes for svd_flip and make_svd_non_negative; enumerated: method, options"
EXPLANATION = "Wrapper logic against the backend's SVD contract; sign resolution by z3 on real numpy object arrays; accuracy only bounded."


def obligations(tier):
    import tensorly as tl
    import tensorly.tenalg.svd as sv

    obs = []
    n0, n1, k = atom("n0"), atom("n1"), atom("k")

    def ent(cond):
        ctx = current_ctx()
        return bool(cond if isinstance(cond, bool) else (ctx.entails(cond) if ctx else cond))

    # ====================================================================== svd_checks: the clamp
    for kind in ("None", "in range", "past max(shape)"):
        def setup(S):
            return dict(_S=S, M=S.input("M", [n0, n1]), k=k)
        def call(I, kind=kind):
            with warnings.catch_warnings():
                warnings.simplefilter("ignore")
                return sv.svd_checks(I["M"], n_eigenvecs=None if kind == "None" else I["k"])
        def post(S, I, r, kind=kind):
            ke, mn, mx = r
            a, b = S.shape(I["M"])
            if S.name != "sym":
                want_k = max(a, b) if (kind == "None" or I["k"] > max(a, b)) else I["k"]
                return [("returned (n_eigenvecs, min_dim, max_dim)", [int(ke), int(mn), int(mx)], [int(want_k), min(a, b), max(a, b)])]
            L = SInt.lift
            out = [("min_dim is the smaller size", int(ent(L(mn) <= a) and ent(L(mn) <= b) and (ent(L(mn) == a) or ent(L(mn) == b))), 1),
                   ("max_dim is the larger size", int(ent(L(a) <= mx) and ent(L(b) <= mx) and (ent(L(mx) == a) or ent(L(mx) == b))), 1)]
            if kind == "in range":
                out.append(("n_eigenvecs within range is kept", int(ent(L(ke) == I["k"])), 1))
            else:
                out.append(("n_eigenvecs None / past the sizes is set to max(shape)", int(ent(L(ke) == mx)), 1))
            return out
        def pre(I, kind=kind):
            if kind == "in range":
                return [I["k"] <= n0]   # (k <= one of the sizes, hence <= max(shape))
            if kind == "past max(shape)":
                return [n0 < I["k"], n1 < I["k"]]
            return []
        obs.append(GOb(PID, f"{PID}/tenalg.svd:svd_checks/n_eigenvecs clamped to max(shape)[n_eigenvecs {kind}]", "tensorly.tenalg.svd:svd_checks", setup, call, post, tenalg="core",
                       instance=dict(n_eigenvecs=kind), clause="clamp of n_eigenvecs; min and max dimension", forall=["matrix sizes", "n_eigenvecs"], enumerated=["case"], assumptions=pre))

    # ====================================================================== truncated_svd: provenance, shapes, the full_matrices switch
    def svd_contract(S, rec):
        def svd(matrix, full_matrices=True):
            a, b = matrix.shape
            if S.name != "sym":
                out = np.linalg.svd(matrix, full_matrices=full_matrices)
                rec.append(dict(full_matrices=full_matrices, U=out[0], S=out[1], V=out[2]))
                return out
            p = a if ent(SInt.lift(a) <= b) else b
            U = G.opaque_tensor("BSVDU", [a, a if full_matrices else p], matrix.dtype)
            Sv = G.opaque_tensor("BSVDS", [p], real_dtype(matrix))
            V = G.opaque_tensor("BSVDV", [b if full_matrices else p, b], matrix.dtype)
            rec.append(dict(full_matrices=full_matrices, U=U, S=Sv, V=V))
            return U, Sv, V
        return svd
    for case in ("k <= min(shape), tall", "k <= min(shape), wide", "min(shape) < k <= max(shape), wide", "k past max(shape), tall", "None, tall"):
        def setup(S):
            return dict(_S=S, M=S.input("M", [n0, n1]), k=k)
        def pre(I, case=case):
            tall = [n1 <= n0]
            wide = [n0 <= n1]
            if case.startswith("k <= min(shape), tall"):
                return tall + [I["k"] <= n1]
            if case.startswith("k <= min(shape), wide"):
                return wide + [I["k"] <= n0]
            if case.startswith("min(shape) < k"):
                return wide + [n0 < I["k"], I["k"] <= n1]
            if case.startswith("k past"):
                return tall + [n0 < I["k"]]
            return tall
        def call(I, case=case):
            S = I["_S"]
            rec = []
            with warnings.catch_warnings():
                warnings.simplefilter("ignore")
                with stubbed(tl, svd=svd_contract(S, rec)):
                    U, Sv, V = sv.truncated_svd(I["M"], n_eigenvecs=None if case.startswith("None") else I["k"])
            return dict(U=U, S=Sv, V=V, rec=rec)
        def post(S, I, r, case=case):
            a, b = S.shape(I["M"])
            c = r["rec"][0]
            kk = I["k"]
            small = case.startswith("k <= min")
            out = [("the backend SVD is called once", len(r["rec"]), 1)]
            pmin = min(a, b) if S.name != "sym" else (a if ent(SInt.lift(a) <= b) else b)
            pmax = max(a, b) if S.name != "sym" else (b if ent(SInt.lift(a) <= b) else a)
            if case.startswith("None") or case.startswith("k past"):
                kc = pmax   # the clamp of svd_checks (its own obligations above)
            else:
                kc = kk
            if S.name != "sym":
                out.append(("full_matrices is requested exactly when the (clamped) n_eigenvecs exceeds min(shape)", bool(c["full_matrices"]), bool(kc > pmin)))
            elif ent(SInt.lift(pmin) < kc):
                out.append(("full_matrices is requested when the (clamped) n_eigenvecs exceeds min(shape)", bool(c["full_matrices"]), True))
            elif ent(SInt.lift(kc) <= pmin):
                out.append(("full_matrices is not requested when n_eigenvecs is within min(shape)", bool(c["full_matrices"]), False))
            else:
                out.append(("the path decides whether n_eigenvecs exceeds min(shape)", 0, 1))
            if S.name == "sym":
                if small:
                    out += [("documented shapes: U (n0, k), S (k,), V (k, n1)", [tuple(S.shape(r["U"])), tuple(S.shape(r["S"])), tuple(S.shape(r["V"]))], [(a, kk), (kk,), (kk, b)]),
                            ("U is the first k columns of the backend's U", r["U"], S.prefix(c["U"], 1, kk)), ("S is the first k singular values", r["S"], S.prefix(c["S"], 0, kk)),
                            ("V is the first k rows of the backend's V", r["V"], S.prefix(c["V"], 0, kk))]
                else:
                    out += [("all singular triplets that exist are returned (no more than min(shape) singular values)", int(ent(SInt.lift(S.shape(r["S"])[0]) == S.shape(c["S"])[0])), 1)]
            else:
                kc = min(int(kk), max(a, b)) if not case.startswith("None") else max(a, b)
                out += [("U / S / V are the leading slices of the backend's SVD", [r["U"], r["S"], r["V"]], [c["U"][:, :kc], c["S"][:kc], c["V"][:kc, :]])]
            return out
        obs.append(GOb(PID, f"{PID}/tenalg.svd:truncated_svd/leading slices of the backend SVD ∧ documented shapes ∧ full_matrices switch[{case}]", "tensorly.tenalg.svd:truncated_svd", setup, call, post,
                       tenalg="core", instance=dict(case=case), clause="provenance ∧ shapes ∧ full_matrices switch", forall=["matrix sizes", "n_eigenvecs", "entries"], enumerated=["case"], assumptions=pre))

    # ====================================================================== svd_interface: dispatch, options, mask imputation
    def method_stub(S, name, rec):
        def f(matrix, n_eigenvecs=None, **kw):
            rec.append(dict(method=name, matrix=matrix, n_eigenvecs=n_eigenvecs, kw=dict(kw)))
            if S.name != "sym":
                U, s_, V = np.linalg.svd(matrix, full_matrices=False)
                kk = n_eigenvecs
                out = (U[:, :kk], s_[:kk], V[:kk])
                for nm, o in zip(("MU", "MS", "MV"), out):
                    S.record(nm, o)
            else:
                kk = n_eigenvecs
                out = (G.opaque_tensor("MU", [matrix.shape[0], kk], matrix.dtype), G.opaque_tensor("MS", [kk], real_dtype(matrix)), G.opaque_tensor("MV", [kk, matrix.shape[1]], matrix.dtype))
            rec[-1]["out"] = out
            return out
        return f
    for method in ("truncated_svd", "symeig_svd", "randomized_svd", "callable", "unknown name"):
        for opts in (dict(flip_sign=False), dict(flip_sign=True, u_based_flip_sign=False), dict(flip_sign=False, non_negative="nndsvd"), dict(flip_sign=False, mask=True),
                     dict(flip_sign=True, mask=True), dict(flip_sign=True, non_negative="nndsvd", mask=True)):
            if method in ("callable", "unknown name") and opts != dict(flip_sign=False):
                continue
            tag = ",".join(f"{a}={b}" for a, b in opts.items())
            def setup(S):
                return dict(_S=S, M=S.input("M", [n0, n1]), mask=S.input("mask", [n0, n1]))
            def call(I, method=method, opts=opts):
                S = I["_S"]
                rec, post_calls = [], []
                stubs = {m: method_stub(S, m, rec) for m in ("truncated_svd", "symeig_svd", "randomized_svd")}
                def flip(U, V, u_based_decision=True):
                    post_calls.append(("svd_flip", U, V, u_based_decision))
                    return U, V
                def nonneg(tensor, U, S_, V, nntype=True):
                    post_calls.append(("make_svd_non_negative", tensor, U, S_, V, nntype))
                    return U, V
                stubs.update(svd_flip=flip, make_svd_non_negative=nonneg)
                kw = dict(opts)
                if kw.pop("mask", None):
                    kw.update(mask=I["mask"], n_iter_mask_imputation=1)
                m = method_stub(S, "callable", rec) if method == "callable" else ("no_such_svd" if method == "unknown name" else method)
                with stubbed(sv, **stubs):
                    try:
                        out = sv.svd_interface(I["M"], method=m, n_eigenvecs=2, extra_keyword="passed on", **kw)
                    except ValueError as e:
                        return dict(raised=str(e))
                return dict(out=out, rec=rec, post_calls=post_calls)
            def post(S, I, r, method=method, opts=opts):
                if method == "unknown name":
                    return [("an unknown method name raises ValueError", int("raised" in r), 1)]
                rec, pc = r["rec"], r["post_calls"]
                n_calls = 2 if opts.get("mask") else 1
                out = [("the requested method is the one that runs", [c["method"] for c in rec], [method] * n_calls),
                       ("n_eigenvecs and the keyword arguments are handed over unchanged", [(c["n_eigenvecs"], c["kw"]) for c in rec], [(2, {"extra_keyword": "passed on"})] * n_calls),
                       ("the first call receives the matrix", rec[0]["matrix"], I["M"])]
                if opts.get("mask"):
                    U, s_, V = rec[0]["out"]
                    low = S.einsum("ir,r,rj->ij", U, s_, V)
                    out.append(("the imputation step re-runs the method on matrix·mask + (U diag(S) V)·(1 − mask)", rec[1]["matrix"], I["M"] * I["mask"] + low * (1 - I["mask"])))
                want_pc = []
                if opts.get("flip_sign"):
                    want_pc.append("svd_flip")
                if opts.get("non_negative"):
                    want_pc.append("make_svd_non_negative")
                out.append(("sign resolution / the non-negative transformation run exactly when requested", [c[0] for c in pc], want_pc))
                if opts.get("flip_sign") and pc and pc[0][0] == "svd_flip":   # (a missing call already fails the clause above)
                    out.append(("svd_flip receives the U, V of the LAST run of the method (after the imputation loop) and the u_based flag", [pc[0][1] is rec[-1]["out"][0], pc[0][2] is rec[-1]["out"][2], pc[0][3]], [True, True, opts.get("u_based_flip_sign", True)]))
                if opts.get("non_negative") and [c for c in pc if c[0] == "make_svd_non_negative"]:
                    nn_call = [c for c in pc if c[0] == "make_svd_non_negative"][0]
                    out.append(("make_svd_non_negative receives the singular values of the last run and the requested variant", [nn_call[3] is rec[-1]["out"][1], nn_call[5]], [True, opts["non_negative"]]))
                out.append(("the singular values returned are the method's", r["out"][1] is rec[-1]["out"][1], True))
                return out
            obs.append(GOb(PID, f"{PID}/tenalg.svd:svd_interface/dispatch ∧ arguments ∧ options[method={method},{tag}]", "tensorly.tenalg.svd:svd_interface", setup, call, post, tenalg="core",
                           instance=dict(method=method, **opts), clause="dispatch, argument passing, options, mask imputation", forall=["matrix sizes", "entries"], enumerated=["method", "options"]))

    # ====================================================================== randomized_svd: the wrapper logic against the contracts of its callees
    # randomized_range_finder enters by contract (Q with n_dims orthonormal columns spanning the sampled range), truncated_svd by the contract proved above
    # (orthonormal U columns / V rows; U diag(S) V = its argument when n_eigenvecs covers the rank of the REDUCED matrix - registered as a hypothesis).
    rs_cases = {"tall, k <= n1 (direct)": ("direct", lambda I: [n1 < n0, I["k"] <= n1]),
                "tall, n1 < k <= n0 (transposed)": ("transposed", lambda I: [n1 < n0, n1 < I["k"], I["k"] <= n0]),
                "wide, k < n0 (transposed)": ("transposed", lambda I: [n0 < n1, I["k"] < n0]),
                "wide, n0 <= k <= n1 (direct)": ("direct", lambda I: [n0 < n1, n0 <= I["k"], I["k"] <= n1]),
                "square, k <= n0 (direct)": ("direct", lambda I: [n0 <= n1, n1 <= n0, I["k"] <= n0]),
                "tall, n_eigenvecs None (transposed)": ("transposed", lambda I: [n1 < n0])}
    for case, (branch, rs_pre) in rs_cases.items():
        for over in ((5, 0) if tier == "quick" else (5, 0, 2)):
            if over != 5 and "k < n0" in case:
                continue   # (with no oversampling k < min(min_dim, n_dims) is false and the wide case goes direct: covered by its own line below)
            for dt in (("float64", "complex128") if over == 5 and (case.startswith("tall, k <= n1") or "k < n0" in case) else ("float64",)):
                def setup(S, dt=dt):
                    return dict(_S=S, M=S.input("M", [n0, n1], dt), k=k)
                def call(I, case=case, over=over):
                    S = I["_S"]
                    rec_rf, rec_ts = [], []
                    def range_finder(A, n_dims, n_iter=2, random_state=None):
                        rec_rf.append(dict(A=A, n_dims=n_dims, n_iter=n_iter, random_state=random_state))
                        # contract (documented, and what reduced QR gives): Q of shape (A.shape[0], min(n_dims, A.shape[0], A.shape[1])) with orthonormal columns
                        if S.name == "sym":
                            Q = G.opaque_tensor("RFQ", [A.shape[0], min(n_dims, A.shape[0], A.shape[1])], A.dtype, ortho_axis=0)
                        else:
                            Q = S.record("RFQ", np.linalg.qr(np.random.RandomState(3).standard_normal((A.shape[0], min(int(n_dims), A.shape[0], A.shape[1]))))[0])
                        rec_rf[-1]["Q"] = Q
                        return Q
                    def tsvd(matrix, n_eigenvecs=None, **kw):
                        rec_ts.append(dict(matrix=matrix, n_eigenvecs=n_eigenvecs, kw=dict(kw)))
                        # contract of truncated_svd (its own obligations above): shapes (a, min(k, a)), (min(k, a, b),), (min(k, b), b); within min(shape) the factors are
                        # orthonormal and - hypothesis 'k covers the rank of the reduced matrix' - their product is the argument
                        if S.name == "sym":
                            a, b = matrix.shape
                            kq = n_eigenvecs
                            small = ent(SInt.lift(kq) <= a) and ent(SInt.lift(kq) <= b)
                            rec_ts[-1]["within min(shape)"] = small
                            out = (G.opaque_tensor("TSU", [a, min(kq, a)], matrix.dtype, ortho_axis=0 if small else None), G.opaque_tensor("TSS", [min(kq, a, b)], real_dtype(matrix), nonneg=True),
                                   G.opaque_tensor("TSV", [min(kq, b), b], matrix.dtype, ortho_axis=1 if small else None))
                            if small:
                                G.register_factorisation(tuple(G.name_of(o) for o in out), matrix)
                        else:
                            rec_ts[-1]["within min(shape)"] = int(n_eigenvecs) <= min(matrix.shape)
                            U, s_, V = np.linalg.svd(matrix, full_matrices=int(n_eigenvecs) > min(matrix.shape))
                            out = tuple(S.record(nm, o) for nm, o in zip(("TSU", "TSS", "TSV"), (U[:, :n_eigenvecs], s_[:n_eigenvecs], V[:n_eigenvecs])))
                        rec_ts[-1]["out"] = out
                        return out
                    with stubbed(sv, randomized_range_finder=range_finder, truncated_svd=tsvd):
                        out = sv.randomized_svd(I["M"], n_eigenvecs=None if "None" in case else I["k"], n_oversamples=over, n_iter=3, random_state="the caller's generator")
                    return dict(out=out, rf=rec_rf, ts=rec_ts)
                def post(S, I, r, case=case, branch=branch, over=over):
                    a, b = S.shape(I["M"])
                    M = I["M"]
                    U, s_, V = r["out"]
                    out = [("the range finder and the inner SVD each run once", [len(r["rf"]), len(r["ts"])], [1, 1])]
                    rf, ts = r["rf"][0], r["ts"][0]
                    Q = rf["Q"]
                    kk = a if "None" in case else I["k"]          # (svd_checks' clamp, proved above: None -> max(shape))
                    if S.name == "sym":
                        dims_ok = int(ent(SInt.lift(rf["n_dims"]) == min(kk + over, max(a, b))))     # (min / max decide within the path, forking it where the sizes leave it open)
                    else:
                        dims_ok = int(int(rf["n_dims"]) == min(int(kk) + over, max(a, b)))
                    out.append(("the range finder is asked for min(n_eigenvecs + n_oversamples, max(shape)) directions", dims_ok, 1))
                    out.append(("n_iter and random_state are handed to the range finder unchanged", [rf["n_iter"], rf["random_state"]], [3, "the caller's generator"]))
                    out.append(("the inner SVD is asked for the (clamped) n_eigenvecs", int(ent(SInt.lift(ts["n_eigenvecs"]) == kk)) if S.name == "sym" else int(int(ts["n_eigenvecs"]) == int(kk)), 1))
                    Ui, si, Vi = ts["out"]
                    # which of the two (equally valid) arrangements ran is read off the range finder's argument, not prescribed: the clauses below then demand
                    # that everything downstream is consistent with it
                    if S.name == "sym":
                        direct = _sym_equal(rf["A"], M)[0]
                    else:
                        direct = np.shape(rf["A"]) == np.shape(M) and bool(np.allclose(rf["A"], M)) and not (a == b and np.allclose(rf["A"], np.transpose(M)) and branch != "direct")
                    if direct:
                        out += [("the range of the matrix itself is sampled", rf["A"], M),
                                ("the inner SVD receives Qᴴ M", ts["matrix"], S.einsum("iq,ij->qj", S.conj(Q), M)),
                                ("U = Q U', S and V are the inner SVD's", [U, s_, V], [S.einsum("iq,qr->ir", Q, Ui), si, Vi]),
                                ] + ([("the product is the projection of the matrix on the sampled range: U diag(S) V = Q Qᴴ M (inner SVD exact)",
                                 S.einsum("ir,r,rj->ij", U, s_, V), S.einsum("iq,lq,lj->ij", Q, S.conj(Q), M)),
                                ("U has orthonormal columns", S.einsum("ia,ib->ab", S.conj(U), U), S.eye(S.shape(U)[1])),
                                ("V has orthonormal rows", S.einsum("aj,bj->ab", V, S.conj(V)), S.eye(S.shape(V)[0]))] if ts["within min(shape)"] else [])
                    else:
                        out += [("the range of the transposed matrix is sampled", rf["A"], S.einsum("ij->ji", M)),
                                ("the inner SVD receives (Qᴴ Mᵀ)ᵀ", ts["matrix"], S.einsum("jq,ij->iq", S.conj(Q), M)),
                                ("V = V' Qᵀ, U and S are the inner SVD's", [U, s_, V], [Ui, si, S.einsum("rq,jq->rj", Vi, Q)]),
                                ] + ([("the product is the matrix projected on the sampled row space: U diag(S) V = M conj(Q) Qᵀ (inner SVD exact)",
                                 S.einsum("ir,r,rj->ij", U, s_, V), S.einsum("il,lq,jq->ij", M, S.conj(Q), Q)),
                                ("U has orthonormal columns", S.einsum("ia,ib->ab", S.conj(U), U), S.eye(S.shape(U)[1])),
                                ("V has orthonormal rows", S.einsum("aj,bj->ab", V, S.conj(V)), S.eye(S.shape(V)[0]))] if ts["within min(shape)"] else [])
                    return out
                obs.append(GOb(PID, f"{PID}/tenalg.svd:randomized_svd/range finder and inner SVD arguments ∧ composition ∧ orthonormality[{case}, n_oversamples={over}, {dt}]", "tensorly.tenalg.svd:randomized_svd", setup, call, post,
                               tenalg="core", instance=dict(case=case, n_oversamples=over, dtype=dt), clause="what the range finder and the inner SVD receive; U diag(S) V = projection of the matrix on the sampled range; orthonormal factors",
                               forall=["matrix sizes", "n_eigenvecs", "entries"], enumerated=["case", "n_oversamples"], assumptions=rs_pre))

    # ====================================================================== randomized_range_finder: the body against the contracts of qr and the generator
    # qr enters by contract (A3: reduced QR of a tall matrix, Q with orthonormal columns), the generator's draw is an arbitrary matrix. Proved: one draw of a
    # (columns of A) x n_dims matrix from the generator made of the caller's random_state, 1 + 2 n_iter factorisations - of A Omega first, then alternately of Aᴴ Q and A Q
    # (conjugate transpose: the power iteration (A Aᴴ)^q A Omega of Halko et al., re-orthonormalised at every step) -, and the Q of the last one returned: shape
    # (rows of A, n_dims), orthonormal columns by the qr contract. That this subspace captures the range of A is the probabilistic statement of Halko et al. - not proved.
    d_ = atom("d")
    for n_it in (0, 2) + ((1,) if tier == "thorough" else ()):
        for dt in ("float64", "complex128"):
            def setup(S, dt=dt):
                return dict(_S=S, A=S.input("A", [n0, n1], dt), d=d_)
            def call(I, n_it=n_it):
                S = I["_S"]
                qrs, draws, seeds = [], [], []
                class Gen:
                    def normal(self, loc=0.0, scale=1.0, size=None):
                        om = G.opaque_tensor("OMEGA", list(size), "float64") if S.name == "sym" else S.record("OMEGA", np.random.RandomState(5).normal(size=tuple(int(x) for x in size)))
                        draws.append(dict(size=tuple(size), out=om, loc=loc, scale=scale))
                        return om
                def check_random_state(seed):
                    seeds.append(seed)
                    return Gen()
                def qr(a, mode="reduced"):
                    if S.name == "sym":
                        Q = G.opaque_tensor("QRQ", [a.shape[0], a.shape[1]], a.dtype, ortho_axis=0)
                        R_ = G.opaque_tensor("QRR", [a.shape[1], a.shape[1]], a.dtype)
                    else:
                        Q, R_ = np.linalg.qr(a)
                        Q, R_ = S.record("QRQ", Q), S.record("QRR", R_)
                    qrs.append(dict(a=a, Q=Q, mode=mode))
                    return Q, R_
                with stubbed(tl, qr=qr, check_random_state=check_random_state):
                    out = sv.randomized_range_finder(I["A"], I["d"], n_iter=n_it, random_state="the caller's generator")
                return dict(out=out, qrs=qrs, draws=draws, seeds=seeds)
            def post(S, I, r, n_it=n_it):
                a, b = S.shape(I["A"])
                A = I["A"]
                out = [("the generator is made of the caller's random_state, once", r["seeds"], ["the caller's generator"]),
                       ("one draw", len(r["draws"]), 1),
                       ("1 + 2 n_iter reduced QR factorisations", [len(r["qrs"])] + [c["mode"] for c in r["qrs"]], [1 + 2 * n_it] + ["reduced"] * (1 + 2 * n_it))]
                if len(r["qrs"]) != 1 + 2 * n_it or len(r["draws"]) != 1:
                    return out
                # (an i.i.d. normal matrix may be drawn in either orientation: the clause takes the draw as the code shaped it, and demands a (columns of A) x n_dims sketch)
                sz = r["draws"][0]["size"]
                direct = (SInt.lift(sz[0]).same(b) and SInt.lift(sz[1]).same(I["d"])) if S.name == "sym" else (int(sz[0]), int(sz[1])) == (b, int(I["d"]))
                out.append(("the first factorisation is of A Omega, Omega the drawn (columns of A) x n_dims matrix", r["qrs"][0]["a"], S.einsum("ij,jq->iq" if direct else "ij,qj->iq", A, r["draws"][0]["out"])))
                for i in range(n_it):
                    out.append((f"power iteration {i}: Aᴴ Q is factorised (conjugate transpose)", r["qrs"][2 * i + 1]["a"], S.einsum("ij,iq->jq", S.conj(A), r["qrs"][2 * i]["Q"])))
                    out.append((f"power iteration {i}: then A Q", r["qrs"][2 * i + 2]["a"], S.einsum("ij,jq->iq", A, r["qrs"][2 * i + 1]["Q"])))
                out += [("the Q of the last factorisation is returned", r["out"], r["qrs"][-1]["Q"]),
                        ("shape (rows of A, n_dims)", list(S.shape(r["out"])), [a, I["d"] if S.name == "sym" else int(I["d"])]),
                        ("orthonormal columns", S.einsum("ia,ib->ab", S.conj(r["out"]), r["out"]), S.eye(S.shape(r["out"])[1]))]
                return out
            obs.append(GOb(PID, f"{PID}/tenalg.svd:randomized_range_finder/draw ∧ QR power iterations of A Omega ∧ orthonormal Q of the last one[n_iter={n_it}, {dt}]", "tensorly.tenalg.svd:randomized_range_finder", setup, call, post,
                           tenalg="core", instance=dict(n_iter=n_it, dtype=dt), clause="one draw from the caller's generator; re-orthonormalised power iteration with the conjugate transpose; orthonormal basis of documented shape",
                           forall=["matrix sizes", "n_dims <= min(shape)", "entries", "drawn matrix"], enumerated=["n_iter", "dtype"], assumptions=lambda I: [I["d"] <= n0, I["d"] <= n1]))

    # ====================================================================== symeig_svd: the wrapper logic against the contracts of eigh and flip
    # eigh enters by contract (A3: ascending real eigenvalues w, square orthogonal Q with Q diag(w) Qᵀ = its symmetric argument), flip as the reversal of one axis
    # (numpy primitive contract). Proved: eigh receives a Gram matrix of the data; BEFORE the reversal the triple already multiplies back to the matrix
    # (U diag(S) V = M, using only Q Qᵀ = I and S > 0 after the clip - no appeal to the eigen-equation); S = sqrt(clip(w, eps)); the three reversals act on the
    # component axis of U, S and V (so the product is kept and ascending eigenvalues become non-increasing singular values); the outputs are the documented
    # leading slices of the reversed triple.
    se_cases = {"tall, k <= n1": lambda I: [n1 < n0, I["k"] <= n1], "tall, n1 < k <= n0": lambda I: [n1 < n0, n1 < I["k"], I["k"] <= n0],
                "wide or square, k <= n0": lambda I: [n0 <= n1, I["k"] <= n0], "wide, n0 < k <= n1": lambda I: [n0 < n1, n0 < I["k"], I["k"] <= n1],
                "tall, n_eigenvecs None": lambda I: [n1 < n0]}
    for case, se_pre in se_cases.items():
        def setup(S):
            return dict(_S=S, M=S.input("M", [n0, n1]), k=k)
        def call(I, case=case):
            S = I["_S"]
            rec_e, rec_f = [], []
            def eigh(gram):
                rec_e.append(dict(gram=gram))
                if S.name == "sym":
                    n_ = gram.shape[0]
                    w = G.opaque_tensor("EIGW", [n_], real_dtype(gram), nonneg=True)
                    Q = G.opaque_tensor("EIGQ", [n_, n_], gram.dtype, ortho_axis=2)
                else:
                    w, Q = np.linalg.eigh(gram)
                    w, Q = S.record("EIGW", w), S.record("EIGQ", Q)
                rec_e[-1].update(w=w, Q=Q)
                return w, Q
            def flip(t, axis=None):
                rec_f.append(dict(t=t, axis=axis))
                out = G.opaque_tensor("FLIP", list(t.shape), t.dtype) if S.name == "sym" else S.record("FLIP", np.flip(t, axis=axis))
                rec_f[-1]["out"] = out
                return out
            with stubbed(tl, eigh=eigh, flip=flip):
                out = sv.symeig_svd(I["M"], n_eigenvecs=None if "None" in case else I["k"], extra_keyword="absorbed")
            if S.name == "sym" and rec_e:
                rec_e[0]["S_spec"] = tl.sqrt(tl.clip(rec_e[0]["w"], tl.eps(rec_e[0]["w"].dtype)))
            elif rec_e:
                rec_e[0]["S_spec"] = np.sqrt(np.clip(rec_e[0]["w"], np.finfo(rec_e[0]["w"].dtype).eps, None))
            return dict(out=out, e=rec_e, f=rec_f)
        def post(S, I, r, case=case):
            a, b = S.shape(I["M"])
            M = I["M"]
            U, s_, V = r["out"]
            kk = a if "None" in case else I["k"]          # (svd_checks' clamp, proved above: None -> max(shape); here the matrix is tall)
            out = [("eigh runs once and there are exactly three reversals", [len(r["e"]), len(r["f"])], [1, 3])]
            if len(r["e"]) != 1 or len(r["f"]) != 3:
                return out
            e, (fU, fS, fV) = r["e"][0], r["f"]
            Q, Ssp = e["Q"], e["S_spec"]
            left_gram = S.einsum("ij,lj->il", M, M)
            if S.name == "sym":
                left = _sym_equal(e["gram"], left_gram)[0]
            else:
                left = np.shape(e["gram"]) == np.shape(left_gram) and bool(np.allclose(e["gram"], left_gram)) and not (a <= b)
            # which Gram matrix is decomposed is read off the call, not prescribed; everything downstream must be consistent with it
            if left:
                out += [("eigh receives the Gram matrix M Mᵀ", e["gram"], left_gram),
                        ("before the reversal: U = Q, S = sqrt(clip(w, eps)), V = diag(1/S) Qᵀ M", [fU["t"], fS["t"], fV["t"]], [Q, Ssp, S.einsum("iq,q,ij->qj", Q, 1 / Ssp, M)])]
            else:
                out += [("eigh receives the Gram matrix Mᵀ M", e["gram"], S.einsum("ij,il->jl", M, M)),
                        ("before the reversal: V = Qᵀ, S = sqrt(clip(w, eps)), U = M Q diag(1/S)", [fU["t"], fS["t"], fV["t"]], [S.einsum("ij,jq,q->iq", M, Q, 1 / Ssp), Ssp, S.einsum("jq->qj", Q)])]
            out += [("before the reversal the triple multiplies back to the matrix: U diag(S) V = M (Q orthogonal, S > 0 after the clip)", S.einsum("iq,q,qj->ij", fU["t"], fS["t"], fV["t"]), M),
                    ("the three reversals act on the component axis: columns of U, S, rows of V", [fU["axis"], fS["axis"] in (None, 0, -1), fV["axis"]], [1, True, 0]),
                    ("documented leading slices of the reversed triple: U[:, :min(n0, k)], S[:min(n0, n1, k)], V[:min(n1, k)]", [U, s_, V],
                     [S.prefix(fU["out"], 1, min(a, kk)), S.prefix(fS["out"], 0, min(a, b, kk)), S.prefix(fV["out"], 0, min(b, kk))])]
            return out
        obs.append(GOb(PID, f"{PID}/tenalg.svd:symeig_svd/Gram matrix to eigh ∧ U diag(S) V = M before the reversal ∧ component-axis reversals ∧ leading slices[{case}]", "tensorly.tenalg.svd:symeig_svd", setup, call, post,
                       tenalg="core", instance=dict(case=case), clause="eigh receives a Gram matrix of the data; S = sqrt(clip(eigenvalues)); the triple multiplies back to the matrix; reversal of the component axis; leading slices",
                       forall=["matrix sizes", "n_eigenvecs", "entries"], enumerated=["case"], assumptions=se_pre))

    # ====================================================================== svd_flip (E1-dense): product unchanged, deciding entry non-negative
    shapes = [(2, 1, 2), (2, 2, 2), (3, 2, 2), (2, 2, 3)] + ([(3, 1, 3), (4, 1, 2), (2, 1, 4)] if tier == "thorough" else [])   # (3x3 factors exceed the per-obligation budget: argmax forks x sign cases)   # (rows of U, components, columns of V)
    for (a, r_, b) in shapes:
        for ub in (True, False):
            def call(I, ub=ub):
                return sv.svd_flip(I["U"], I["V"], u_based_decision=ub)
            def claims(I, out, a=a, r_=r_, b=b, ub=ub):
                U2, V2 = out
                U, V, s_ = I["U"], I["V"], I["s"]
                prod = [d_eq(d_sum([U2[i, q] * s_[q] * V2[q, j] for q in range(r_)]), d_sum([U[i, q] * s_[q] * V[q, j] for q in range(r_)])) for i in range(a) for j in range(b)]
                res = [("the product U diag(S) V is unchanged", d_and(*prod))]
                dec = []
                for q in range(r_):
                    vec2 = [U2[i, q] for i in range(a)] if ub else [V2[q, j] for j in range(b)]
                    # the entry of largest magnitude of the deciding vector is non-negative after the flip
                    dec.append(d_or(*[d_and(d_le(0, x), *[d_le(d_abs(y), d_abs(x)) for y in vec2]) for x in vec2]))
                res.append(("an entry of largest magnitude of each deciding vector is non-negative (the first one on ties)", d_and(*dec)))
                res.append(("magnitudes are untouched (orthonormality is kept)", d_and(*[d_eq(d_abs(U2[i, q]), d_abs(U[i, q])) for i in range(a) for q in range(r_)] + [d_eq(d_abs(V2[q, j]), d_abs(V[q, j])) for q in range(r_) for j in range(b)])))
                return res
            def pre(I, a=a, r_=r_, b=b, ub=ub):
                # the deciding vectors are not zero (singular vectors have unit norm): their largest-magnitude entry is non-zero
                out = []
                for q in range(r_):
                    vec = [I["U"][i, q] for i in range(a)] if ub else [I["V"][q, j] for j in range(b)]
                    out.append(d_or(*[d_lt(0, d_abs(x)) for x in vec]))
                return [D.SB(c.b) if hasattr(c, "b") else c for c in out]
            obs.append(DOb(PID, f"{PID}/tenalg.svd:svd_flip/product unchanged ∧ deciding entry non-negative[U {a}x{r_}, V {r_}x{b}, u_based={ub}]", "tensorly.tenalg.svd:svd_flip", dict(U=(a, r_), V=(r_, b), s=(r_,)), call, claims,
                           pre=pre, instance=dict(U=f"{a}x{r_}", V=f"{r_}x{b}", u_based_decision=ub), clause="sign resolution keeps the product and makes the deciding entry non-negative", check_domain=False))

    # ====================================================================== make_svd_non_negative (E1-dense): with the non-negative option both factors are entrywise
    # non-negative and every value is defined (no 0/0), for ANY triplet with non-negative singular values - signed data, single-signed or zero vectors included
    nn_shapes = [(2, 2, 1), (3, 2, 1), (2, 2, 2), (3, 2, 2), (2, 3, 2)] + ([(3, 3, 2), (2, 2, 3)] if tier == "thorough" else [])   # (rows, columns, components)
    for (a, b, r_) in nn_shapes:
        for variant in ("nndsvd", "nndsvda", True):
            if variant != "nndsvd" and r_ > 1:
                # the NNDSVDa fill `where(W < eps, |mean|, W)` compares entry by entry (one fork each, over non-linear terms): it is discharged on the
                # one-component instances, where it already meets every non-negative W; the loop over further components is the code proved under 'nndsvd'
                continue
            def call(I, variant=variant):
                return sv.make_svd_non_negative(I["M"], I["U"], I["s"], I["V"], variant)
            def claims(I, out, a=a, b=b, r_=r_):
                W, H = out
                return [("W is entrywise non-negative", d_and(*[d_le(0, W[i, q]) for i in range(a) for q in range(r_)])),
                        ("H is entrywise non-negative", d_and(*[d_le(0, H[q, j]) for q in range(r_) for j in range(b)]))]
            def pre(I, a=a, b=b, r_=r_):
                # contract of the SVD methods: singular values are non-negative; singular vectors have unit norm - used here only as 'are not zero'
                out = [D.SB((I["s"][q] >= 0).b) for q in range(r_)]
                for q in range(r_):
                    for c in (d_or(*[d_lt(0, d_abs(I["U"][i, q])) for i in range(a)]), d_or(*[d_lt(0, d_abs(I["V"][q, j])) for j in range(b)])):
                        out.append(D.SB(c.b) if hasattr(c, "b") else c)
                return out
            obs.append(DOb(PID, f"{PID}/tenalg.svd:make_svd_non_negative/both factors entrywise non-negative ∧ defined[{a}x{b}, {r_} components, variant={variant}]", "tensorly.tenalg.svd:make_svd_non_negative",
                           dict(M=(a, b), U=(a, r_), V=(r_, b), s=(r_,)), call, claims, pre=pre, instance=dict(shape=f"{a}x{b}", components=r_, variant=str(variant)),
                           clause="with the non-negative option both factors are entrywise non-negative (and finite: every division is defined)", check_domain=True))

    # ====================================================================== bounded stand-in: accuracy of every method against numpy.linalg.svd
    def bounded():
        warnings.simplefilter("ignore")
        rng = np.random.RandomState(0)
        n_eval, fails = 0, []
        mats = {"tall": rng.standard_normal((7, 4)), "square": rng.standard_normal((5, 5)), "wide": rng.standard_normal((4, 8)), "1xN": rng.standard_normal((1, 6)),
                "rank-deficient": rng.standard_normal((6, 2)) @ rng.standard_normal((2, 5)), "repeated singular values": np.diag([3.0, 3.0, 1.0, 1.0]) @ np.linalg.qr(rng.standard_normal((4, 4)))[0],
                "integer": rng.randint(-3, 4, size=(5, 4)).astype(float), "negative mean": rng.standard_normal((5, 6)) - 1.5}
        def callable_svd(matrix, n_eigenvecs=None, **kw):
            return sv.truncated_svd(matrix, n_eigenvecs=n_eigenvecs)
        for name, M in mats.items():
            a, b = M.shape
            p = min(a, b)
            ref = np.linalg.svd(M, compute_uv=False)
            rk = int(np.sum(ref > 1e-10 * ref[0]))
            for method in ("truncated_svd", "symeig_svd", "randomized_svd", callable_svd):
                mname = method if isinstance(method, str) else "callable"
                for ke in list(range(1, max(a, b) + 2)) + [None]:
                    for flip, ub in ((False, True), (True, True), (True, False)):
                        U, s_, V = sv.svd_interface(M, method=method, n_eigenvecs=ke, flip_sign=flip, u_based_flip_sign=ub, **({"random_state": 0} if method == "randomized_svd" else {}))
                        n_eval += 1
                        kk = max(a, b) if ke is None or ke > max(a, b) else ke
                        ks = min(kk, p)
                        tag = f"{mname} {name} n_eigenvecs={ke} flip={flip}/{ub}"
                        if U.shape[0] != a or V.shape[1] != b or s_.shape != (ks,) or U.shape[1] < ks or V.shape[0] < ks:
                            fails.append(f"{tag}: shapes {U.shape} {s_.shape} {V.shape}")
                            continue
                        if ke is not None and ke <= p and (U.shape != (a, ke) or V.shape != (ke, b)):
                            fails.append(f"{tag}: documented shapes violated: {U.shape} {V.shape}")
                        if mname != "callable" and (U.shape != (a, min(kk, a)) or V.shape != (min(kk, b), b)):
                            # past min(shape) every method returns the same completion: as many columns of U / rows of V as requested and available
                            fails.append(f"{tag}: U {U.shape} / V {V.shape} instead of ({a}, {min(kk, a)}) / ({min(kk, b)}, {b})")
                        exact = mname != "randomized_svd" or ks + 5 >= rk or True
                        tol = 1e-8 * max(ref[0], 1.0) if mname != "symeig_svd" else 1e-6 * max(ref[0], 1.0)
                        if np.any(s_ < -1e-12) or np.any(np.diff(s_) > 1e-9 * max(ref[0], 1)):
                            fails.append(f"{tag}: singular values not non-negative non-increasing: {s_}")
                        covered = mname != "randomized_svd" or min(kk + 5, max(a, b)) >= rk
                        if covered and np.max(np.abs(s_ - ref[:ks])) > tol:
                            fails.append(f"{tag}: singular values {s_} differ from the true ones {ref[:ks]}")
                        kr = min(ks, rk) if mname == "symeig_svd" else ks     # (symeig: derived vectors of zero singular values are not orthonormal - documented clipping)
                        Uk, Vk = U[:, :kr], V[:kr]
                        if covered and (np.max(np.abs(Uk.T @ Uk - np.eye(kr))) > 1e-6 or np.max(np.abs(Vk @ Vk.T - np.eye(kr))) > 1e-6):
                            fails.append(f"{tag}: singular vectors not orthonormal")
                        if covered:
                            err = np.linalg.norm(M - (U[:, :ks] * s_) @ V[:ks])
                            tail = np.sqrt(np.sum(ref[ks:] ** 2))
                            if abs(err - tail) > 1e-6 * max(ref[0], 1.0):
                                fails.append(f"{tag}: approximation error {err:.3e} is not the norm of the discarded singular values {tail:.3e}")
                        if flip and ks >= 1:
                            for q in range(min(ks, U.shape[1], V.shape[0])):
                                vec = U[:, q] if ub else V[q]
                                if vec[np.argmax(np.abs(vec))] < 0:
                                    fails.append(f"{tag}: the largest-magnitude entry of deciding vector {q} is negative")
                                    break
            for nn in (True, "nndsvd", "nndsvda"):
                for ke in (1, 2, min(a, b)):
                    W, s_, H = sv.svd_interface(M, n_eigenvecs=ke, non_negative=nn)
                    n_eval += 1
                    if W.min() < 0 or H.min() < 0:
                        fails.append(f"non_negative={nn} {name} n_eigenvecs={ke}: negative entries (min {min(W.min(), H.min()):.3e})")
        return n_eval, fails
    def bounded_doc_shapes():
        """the docstrings promise U (rows, n_eigenvecs), S (n_eigenvecs,), V (n_eigenvecs, columns) for every n_eigenvecs"""
        warnings.simplefilter("ignore")
        rng = np.random.RandomState(2)
        n_eval, fails = 0, []
        for shape in ((3, 5), (5, 3)):
            M = rng.standard_normal(shape)
            for method in ("truncated_svd", "symeig_svd", "randomized_svd"):
                for ke in range(min(shape) + 1, max(shape) + 1):
                    U, s_, V = sv.svd_interface(M, method=method, n_eigenvecs=ke)
                    n_eval += 1
                    if U.shape != (shape[0], ke) or s_.shape != (ke,) or V.shape != (ke, shape[1]):
                        fails.append(f"{method} on a {shape[0]}x{shape[1]} matrix with n_eigenvecs={ke} > min(shape): returns U {U.shape}, S {s_.shape}, V {V.shape}")
        return n_eval, fails
    from .c09 import BoundedOb
    obs.append(BoundedOb(f"{PID}/bounded/documented shapes for n_eigenvecs between min(shape) and max(shape)", "tensorly.tenalg.svd:svd_interface", bounded_doc_shapes,
                         dict(shapes="3x5, 5x3", methods="truncated / symeig / randomized"), "seed 2", pid=PID))
    obs.append(BoundedOb(f"{PID}/bounded/accuracy of every method against numpy.linalg.svd, orthonormality, error = discarded tail, sign convention, non-negativity", "tensorly.tenalg.svd:svd_interface", bounded,
                         dict(shapes="tall / square / wide / 1xN / rank-deficient / repeated values / integer / negative mean", n_eigenvecs="1..max(shape)+1 and None", methods="truncated / symeig / randomized / callable"),
                         "seed 0; 8 matrices x 4 methods x all n_eigenvecs x 3 sign options, plus 3 non-negative variants", pid=PID))
    return obs


def canaries(tier):
    """flipping U without V changes the product: must be refuted"""
    import tensorly.tenalg.svd as sv
    def call(I):
        U2, V2 = sv.svd_flip(I["U"], I["V"], u_based_decision=True)
        return U2, I["V"]
    def claims(I, out):
        U2, V2 = out
        return [("product unchanged (must fail)", d_and(*[d_eq(d_sum([U2[i, q] * I["s"][q] * V2[q, j] for q in range(1)]), d_sum([I["U"][i, q] * I["s"][q] * I["V"][q, j] for q in range(1)])) for i in range(2) for j in range(2)]))]
    return [DOb(PID, f"{PID}/canary/flip-U-only", "tensorly.tenalg.svd:svd_flip", dict(U=(2, 1), V=(1, 2), s=(1,)), call, claims, instance={}, clause="canary", check_domain=False)]
