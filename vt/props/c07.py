"""C07  Exact block-coordinate algorithms never increase their objective.

A per-call contract cannot quantify over "the objective along the run"; descent of an exact block method reduces to facts
about WHAT IS HANDED TO THE LINEAR-ALGEBRA PRIMITIVE (DESIGN §3 C07).  Obligations (loop-cut bodies, arbitrary iterate):
at every solve / lstsq / svd / NNLS call site the arguments are proved equal to the Gram matrix / right-hand side /
design matrix / projected unfolding of the block problem at the CURRENT other blocks and weights.  With the dependency's
contract (A3) and lemma L1 (normal equations of a convex quadratic => global block minimiser), L2 (Eckart–Young) the block
update is the block minimiser, hence the objective does not increase; L6 composes this with C06.
"""
import numpy as np

from ..oblig import GOb
from ..symint import atom, EngineError, sprod
from ..loopcut import LoopCut
from ..iterative import Probe, CallbackProbe, stubbed, real_dtype
from .. import specs as SP
from .. import gtensor as G

PID = "C07"
LEVEL = "proof"
TRUSTED_BASE = [
    "L1: the solution of the normal equations of a convex quadratic block problem is its global minimiser (so an exact block update cannot increase the objective)",
    "L2: the leading left singular vectors maximise the projected norm (HOOI); L3: orthogonal Procrustes is solved by the polar factor (PARAFAC2 projections)",
    "L6: C06 ∧ per-block descent ⇒ the reported errors are non-increasing",
    "contracts of solve / lstsq / svd (A3): 'whenever the block problems are well conditioned' is exactly the assumption that they return the exact solution",
    "numpy primitive contracts (vt.primcheck each run); CPython; loop extraction re-reads the real source each run",
]
ASSUMPTIONS = [
    "floats treated as reals (A1); the descent conclusion itself rests on the lemmas above (never proved here) — what is proved is that the code satisfies their hypotheses at every call site",
    "ridge terms: the block objective penalises the weighted factor (lambda * ||U_m diag(w)||^2), which is the objective whose normal equations the code forms",
    "order enumerated (2..3 quick, 2..4 thorough); HALS row-update optimality is a scalar lemma decided by z3 (see C13 obligations)",
]
QUANTIFICATION = "forall mode sizes, ranks, data, current iterate, iteration index; enumerated: order, updated mode, option sets"
EXPLANATION = "Call-site obligations: arguments of every linear-algebra dependency ≡ spec of the block problem at the current iterate."


def dims(N, p="n"):
    return [atom(f"{p}{k}") for k in range(N)]


def _T(S, t):
    return S.group(t, [[1], [0]])


def obligations(tier):
    import tensorly as tl
    import tensorly.decomposition._cp as _cp
    import tensorly.decomposition._nn_cp as _nn
    import tensorly.decomposition._tucker as _tk
    import tensorly.decomposition._tr_als as _tr
    import tensorly.decomposition._parafac2 as _p2
    import tensorly.regression.cp_regression as cpr
    import tensorly.regression.tucker_regression as tkr
    import tensorly.tr_tensor as trt
    from tensorly.cp_tensor import CPTensor

    maxN = 3 if tier == "quick" else 4
    obs = []
    R = atom("R")

    def add(fn, tag, setup, call, post, instance, clause, **kw):
        obs.append(GOb(PID, f"{PID}/{fn}/{clause}[{tag}]", f"tensorly.{fn}", setup, call, post, tenalg="core", instance=instance, clause=clause,
                       forall=["mode sizes", "rank", "data entries", "current iterate", "iteration index"], enumerated=list(instance), **kw))

    def cp_setup(N):
        def setup(S):
            n = dims(N)
            return dict(_S=S, X=S.input("X", n), w=S.input("w", [R]), fs=[S.input(f"U{k}", [n[k], R]) for k in range(N)], e1=S.input("e_prev1", []), e2=S.input("e_prev2", []))
        return setup

    # ====================================================================== CP-ALS: normal equations at every solve site
    def run_cp(func, module, I, kwargs, stubs=None):
        S = I["_S"]
        cut = LoopCut(func)
        with stubbed(module, initialize_cp=lambda *a, **k: CPTensor((I["w"], list(I["fs"]))), **(stubs or {})):
            st = cut.prefix(I["X"], R if S.name == "sym" else I["fs"][0].shape[1], **kwargs)
            st["factors"] = list(st["factors"])
            st["rec_errors"] = [I["e2"], I["e1"]]
            del G.LA_LOG[:]
            cut.body(st, 1)
        return [dict(op=c["op"], A=c["A"], B=c["B"], X=c["X"], at=c["at"]) for c in G.LA_LOG]

    def cp_solve_post(ridge=None, fixed=()):
        def post(S, I, calls):
            # block coordinate descent, stated over the sequence of solve calls and their results (not over local variable names of the sweep): the k-th solve
            # is the block problem of the k-th free mode at the factors already updated in this sweep and the previous ones for the modes still to come
            pairs = []
            solves = [c for c in calls if c["op"] == "solve"]
            w, fs = I["w"], list(I["fs"])
            free = [m for m in range(len(fs)) if m not in fixed]
            for m, c in zip(free, solves):
                N_ = SP.cp_gram(S, w, fs, m, ridge)
                pairs.append((f"mode {m}: Gram argument ≡ (w wᵀ)∘⊛_(q≠m) U_qᴴU_q (+λI), transposed as solve expects", c["A"], _T(S, N_)))
                pairs.append((f"mode {m}: right-hand side ≡ MTTKRP_mᵀ at the current other blocks and weights", c["B"], _T(S, SP.mttkrp(S, I["X"], w, fs, m))))
                fs[m] = _T(S, c["X"])     # the updated block is the transposed solution
            return pairs + [("one exact block solve per updated mode", len(solves), len(free))]
        return post

    for N in range(2, maxN + 1):
        for opt, kwargs, ridge in [("plain", dict(), None), ("l2_reg", dict(l2_reg=0.5), 0.5), ("normalize_factors", dict(normalize_factors=True), None),
                                   ("fixed_mode_0", dict(fixed_modes=[0]), None)]:
            add("decomposition._cp:parafac", f"N={N},{opt}", cp_setup(N), lambda I, kwargs=kwargs: run_cp(_cp.parafac, _cp, I, dict(kwargs, return_errors=True)),
                cp_solve_post(ridge, tuple(kwargs.get("fixed_modes", ()))), dict(order=N, options=opt), "solve sites ≡ normal equations of the block problem", side_nonzero=("normalize" in opt))
        # line search: the jumped iterate is installed only on paths whose condition contains new_error < last_error
        def run_ls(I):
            S = I["_S"]
            cut = LoopCut(_cp.parafac)
            with stubbed(_cp, initialize_cp=lambda *a, **k: CPTensor((I["w"], list(I["fs"])))):
                st = cut.prefix(I["X"], R if S.name == "sym" else I["fs"][0].shape[1], return_errors=True, linesearch=True)
                st["factors"] = list(st["factors"])
                st["factors_last"] = [f * 0.5 for f in st["factors"]]
                st["weights_last"] = st["weights"] * 0.5
                pr = Probe([I["e2"], I["e1"]], watch=("weights", "factors", "new_factors", "new_weights", "new_rec_error", "new_norm_tensor", "unnorml_rec_error", "norm_tensor"))
                st["rec_errors"] = pr
                kind, st2 = cut.body(st, 8)
            from ..symint import current_ctx
            ctx = current_ctx()
            decisions = [(repr(db.op), db.lhs, db.rhs, val) for db, val in (ctx.data_path if ctx else [])]
            return dict(records=pr.records, decisions=decisions, last=I["e1"])
        def ls_post(S, I, r):
            if S.name != "sym":
                e, snap = r["records"][-1]
                jumped = "new_factors" in snap and all(a is b for a, b in zip(snap["factors"], snap["new_factors"]))
                better = float(snap["new_rec_error"]) / float(snap["new_norm_tensor"]) < float(r["last"])
                return [("the jumped iterate is installed iff its relative error is smaller than the last reported error", bool(jumped), bool(better))]
            e, snap = r["records"][-1]
            jumped = snap["factors"] is not None and "new_factors" in snap and all(a is b for a, b in zip(snap["factors"], snap["new_factors"]))
            # the first data decision of the body on this path is `new_rec_error / new_norm_tensor < rec_errors[-1]`
            first = r["decisions"][0] if r["decisions"] else None
            ok_shape = first is not None and first[0] == "'<'" and first[2] is r["last"]
            pairs = [("the acceptance test compares the jumped iterate's relative error with the last reported error", ok_shape, True)]
            if first is not None:
                pairs.append(("tested quantity ≡ new_rec_error / new_norm_tensor", first[1], snap["new_rec_error"] / snap["new_norm_tensor"]))
                pairs.append(("the jumped iterate is installed iff the test succeeded", jumped, bool(first[3])))
            return pairs
        if N == 3:
            add("decomposition._cp:parafac", f"N={N},linesearch", cp_setup(N), run_ls, ls_post, dict(order=N, options="linesearch"),
                "line-search jump accepted only if its error is smaller than the last reported error")
        # ---- HALS non-negative CP: arguments of hals_nnls / solve
        def run_hals(I, kwargs):
            S = I["_S"]
            rec = []
            def stub(UtM, UtU, V=None, **kw):
                rec.append(dict(op="hals", UtM=UtM, UtU=UtU, V=V, at=G.caller_snapshot(), kw=kw))
                if S.name == "sym":
                    return G.opaque_tensor("HALS", G.axis_sizes(V), V.dtype)
                from tensorly.solvers.nnls import hals_nnls as real
                import numpy as np
                rec[-1]["V"] = np.array(V, copy=True)
                return real(UtM, UtU, V, **kw)
            calls = run_cp(_nn.non_negative_parafac_hals, _nn, I, dict(kwargs, return_errors=True), stubs=dict(hals_nnls=stub))
            return dict(solves=calls, hals=rec)
        def hals_post(S, I, r):
            pairs = []
            for c in r["hals"]:
                at = c["at"]
                m, w, fs = at["mode"], at["weights"], at["factors"]
                pairs.append((f"mode {m}: UtU ≡ Gram of the block problem", c["UtU"], SP.cp_gram(S, w, fs, m)))
                pairs.append((f"mode {m}: UtM ≡ MTTKRP_mᵀ", c["UtM"], _T(S, SP.mttkrp(S, I["X"], w, fs, m))))
                pairs.append((f"mode {m}: warm start ≡ current factorᵀ", c["V"], _T(S, fs[m])))
            for c in r["solves"]:
                if c["op"] != "solve":
                    continue
                at = c["at"]
                m, w, fs = at["mode"], at["weights"], at["factors"]
                pairs.append((f"unconstrained mode {m}: Gram argument", c["A"], _T(S, SP.cp_gram(S, w, fs, m))))
                pairs.append((f"unconstrained mode {m}: right-hand side", c["B"], _T(S, SP.mttkrp(S, I["X"], w, fs, m))))
            pairs.append(("every updated mode goes through exactly one exact block solver", len(r["hals"]) + len([c for c in r["solves"] if c["op"] == "solve"]), len(at["modes"]) if r["hals"] or r["solves"] else 0))
            return pairs
        for opt, kwargs in [("all non-negative", dict()), ("nn_modes={0}", dict(nn_modes={0})), ("fixed_mode_0", dict(fixed_modes=[0]))]:
            add("decomposition._nn_cp:non_negative_parafac_hals", f"N={N},{opt}", cp_setup(N), lambda I, kwargs=kwargs: run_hals(I, kwargs), hals_post,
                dict(order=N, options=opt), "NNLS / solve arguments ≡ block problem")
    # ====================================================================== HOOI: matrix handed to svd_interface
    def tk_setup(N, dtype="float64"):
        def setup(S):
            n, r = dims(N), dims(N, "r")
            return dict(_S=S, X=S.input("X", n, dtype), core=S.input("G", r, dtype), fs=[S.input(f"U{k}", [n[k], r[k]], dtype) for k in range(N)], r=r,
                        e1=S.input("e_prev1", []), e2=S.input("e_prev2", []))
        return setup
    def run_hooi(I):
        S = I["_S"]
        cut = LoopCut(_tk.partial_tucker)
        rec = []
        def svd_stub(matrix, n_eigenvecs=None, **kw):
            rec.append(dict(matrix=matrix, n_eigenvecs=n_eigenvecs))
            if S.name == "sym":
                U = G.opaque_tensor("SVDU", [matrix.shape[0], n_eigenvecs], matrix.dtype, ortho_axis=0)
                rec[-1]["U"] = U
                return U, G.opaque_tensor("SVDS", [n_eigenvecs]), G.opaque_tensor("SVDV", [n_eigenvecs] + G.axis_sizes(matrix)[1:], matrix.dtype)
            from tensorly.tenalg.svd import svd_interface as real
            import numpy as np
            rec[-1]["matrix"] = np.array(matrix, copy=True)
            out = real(matrix, n_eigenvecs=n_eigenvecs, **kw)
            S.record("SVDU", out[0]); S.record("SVDS", out[1]); S.record("SVDV", out[2])
            rec[-1]["U"] = out[0]
            return out
        rank = list(I["r"]) if S.name == "sym" else [f.shape[1] for f in I["fs"]]
        with stubbed(_tk, initialize_tucker=lambda *a, **k: (I["core"], list(I["fs"])), svd_interface=svd_stub):
            st = cut.prefix(I["X"], rank)
            st["factors"] = list(st["factors"])
            st["rec_errors"] = [I["e2"], I["e1"]]
            kind, st2 = cut.body(st, 2)
        return dict(calls=rec, rank=rank, core=st2["core"], factors=list(st2["factors"]), modes=list(st2["modes"]))
    def hooi_post(S, I, r):
        pairs = []
        # block coordinate descent: the k-th SVD of a sweep sees the factors already updated in this sweep (modes before k) and the previous ones (modes after k).
        # Stated over the sequence of SVD calls and their results, not over local variable names of the sweep.
        N_ = len(S.shape(I["X"]))
        modes = list(range(N_))
        fs = list(I["fs"])
        for idx, c in enumerate(r["calls"][:N_]):
            mode = modes[idx]
            proj = SP.multi_mode_dot(S, I["X"], fs, modes, skip=idx, transpose=True)
            pairs.append((f"mode {mode}: SVD input ≡ unfold(X ×_(q≠m) U_qᴴ, m) with the factors of modes < m already updated in this sweep", c["matrix"], S.group(proj, [[mode], [k for k in range(N_) if k != mode]])))
            pairs.append((f"mode {mode}: number of singular vectors ≡ rank[m]", c["n_eigenvecs"], r["rank"][idx]))
            fs[idx] = c["U"]
        pairs.append(("the factors after the sweep are the singular vectors computed in it", list(r["factors"]), fs))
        pairs.append(("one truncated SVD per mode", len(r["calls"]), len(r["rank"])))
        pairs.append(("after the sweep the core is the projection X ×_k U_kᴴ onto the new factors", r["core"], SP.multi_mode_dot(S, I["X"], r["factors"], r["modes"], transpose=True)))
        return pairs
    def hooi_pre(N):
        def pre(I):
            n = dims(N)
            out = []
            for k in range(N):
                out.append(I["r"][k] <= n[k])
                out.append(I["r"][k] <= sprod(I["r"][j] for j in range(N) if j != k))
            return out
        return pre
    for N in range(2, maxN + 1):
        add("decomposition._tucker:partial_tucker", f"N={N}", tk_setup(N), run_hooi, hooi_post, dict(order=N), "SVD input ≡ partially projected unfolding ∧ core ≡ projection", assumptions=hooi_pre(N))
        add("decomposition._tucker:partial_tucker", f"N={N},complex data", tk_setup(N, "complex128"), run_hooi, hooi_post, dict(order=N, data="complex"),
            "SVD input ≡ partially projected unfolding ∧ core ≡ projection", assumptions=hooi_pre(N))
    # ====================================================================== TR-ALS: design matrix / target / normal equations
    def tr_setup(N):
        def setup(S):
            n = dims(N)
            rk = [atom(f"r{k}") for k in range(N)]
            rk.append(rk[0])
            return dict(_S=S, X=S.input("X", n), cores=[S.input(f"G{k}", [rk[k], n[k], rk[k + 1]]) for k in range(N)], rk=rk, e1=S.input("e_prev1", []), e2=S.input("e_prev2", []))
        return setup
    def run_tr(I, ls):
        S = I["_S"]
        cut = LoopCut(_tr.tensor_ring_als)
        rank = list(I["rk"]) if S.name == "sym" else [c.shape[0] for c in I["cores"]] + [I["cores"][0].shape[0]]
        import tensorly.random as tlr
        with stubbed(tlr, random_tr=lambda *a, **k: trt.TRTensor(list(I["cores"]))), stubbed(_tr, validate_tr_rank=lambda shape, rank=None, **k: list(rank)):
            st = cut.prefix(I["X"], rank, ls_solve=ls, tol=1e-9)
            st["tr_decomp"] = trt.TRTensor(list(st["tr_decomp"].factors))
            st["rec_errors"] = [I["e2"], I["e1"]]
            del G.LA_LOG[:]
            cut.body(st, 1)
        out = []
        for c in G.LA_LOG:
            at = c["at"]
            out.append(dict(op=c["op"], A=c["A"], B=c["B"], dim=at["dim"], cores=list(at["tr_decomp.factors"])))
        return out
    def tr_post(S, I, calls):
        pairs = []
        N_ = len(S.shape(I["X"]))
        for c in calls:
            d = c["dim"]
            D = SP.tr_design(S, c["cores"], d)
            Xm = S.group(I["X"], [[k for k in range(N_) if k != d], [d]])
            if c["op"] == "lstsq":
                pairs.append((f"core {d}: design matrix ≡ sub-chain contraction (rows: other modes ascending; columns: (r_d, r_d+1))", c["A"], D))
                pairs.append((f"core {d}: target ≡ matricised data with mode {d} as columns", c["B"], Xm))
            else:
                pairs.append((f"core {d}: Gram ≡ DᵀD", c["A"], S.einsum("ka,kb->ab", D, D)))
                pairs.append((f"core {d}: right-hand side ≡ DᵀX", c["B"], S.einsum("ka,kj->aj", D, Xm)))
        pairs.append(("one exact block solve per core", len(calls), N_))
        return pairs
    for N in (3,) + ((4,) if tier == "thorough" else ()):
        for ls in ("lstsq", "normal_eq"):
            add("decomposition._tr_als:tensor_ring_als", f"N={N},ls_solve={ls}", tr_setup(N), lambda I, ls=ls: run_tr(I, ls), tr_post, dict(order=N, ls_solve=ls),
                "least-squares arguments ≡ block problem of the ring")
    # ====================================================================== PARAFAC2 projections: Procrustes input and polar factor
    def p2_setup(nI):
        def setup(S):
            K = atom("K")
            Jn = [atom(f"J{i}") for i in range(nI)]
            return dict(_S=S, Xs=[S.input(f"X{i}", [Jn[i], K]) for i in range(nI)], A=S.input("A", [nI, R]), B=S.input("B", [R, R]), Cc=S.input("Cm", [K, R]))
        return setup
    def run_proj(I):
        S = I["_S"]
        rec = []
        def svd_stub(matrix, n_eigenvecs=None, **kw):
            rec.append(dict(matrix=matrix, n_eigenvecs=n_eigenvecs, kw=dict(kw)))
            if S.name == "sym":
                U = G.opaque_tensor("SVDU", [matrix.shape[0], n_eigenvecs], matrix.dtype, ortho_axis=0)
                V = G.opaque_tensor("SVDV", [n_eigenvecs, matrix.shape[1]], matrix.dtype, ortho_axis=1)
                rec[-1].update(U=U, V=V)
                return U, G.opaque_tensor("SVDS", [n_eigenvecs], real_dtype(matrix)), V
            from tensorly.tenalg.svd import svd_interface as real
            import numpy as np
            out = real(matrix, n_eigenvecs=n_eigenvecs, **kw)
            rec[-1].update(matrix=np.array(matrix, copy=True), U=out[0], V=out[2])
            S.record("SVDU", out[0]); S.record("SVDV", out[2]); S.record("SVDS", out[1])
            return out
        with stubbed(_p2, svd_interface=svd_stub):
            P = _p2._compute_projections(list(I["Xs"]), (I["A"], I["B"], I["Cc"]), "truncated_svd")
        return dict(P=P, calls=rec)
    def proj_post(S, I, r):
        pairs = []
        for i, (c, Xi) in enumerate(zip(r["calls"], I["Xs"])):
            a_i = S.take(I["A"], 0, i)
            pairs.append((f"slice {i}: Procrustes input ≡ B diag(a_i) Cᵀ X_iᵀ", c["matrix"], S.einsum("sr,r,kr,jk->sj", I["B"], a_i, I["Cc"], Xi)))
            pairs.append((f"slice {i}: projection ≡ (U·Vh)ᵀ (polar factor)", r["P"][i], S.einsum("sa,aj->js", c["U"], c["V"])))
            pairs.append((f"slice {i}: all R components kept, no sign flip", (c["n_eigenvecs"], c["kw"].get("flip_sign")), (S.shape(I["A"])[1], False)))
        pairs.append(("one projection per slice", len(r["P"]), len(I["Xs"])))
        return pairs
    for nI in (1, 2, 3):
        add("decomposition._parafac2:_compute_projections", f"slices={nI}", p2_setup(nI), run_proj, proj_post, dict(n_slices=nI), "Procrustes input and polar factor per slice",
            assumptions=lambda I: [R <= atom("K")] + [R <= atom(f"J{i}") for i in range(len(I["Xs"]))])
    # ====================================================================== ridge ALS of the regressors
    def reg_setup(N, ny=0):
        def setup(S):
            ns_ = atom("ns")
            n = dims(N)
            m = dims(ny, "m")
            d = dict(_S=S, X=S.input("X", [ns_] + n), W=[S.input(f"W{k}", [n[k], R]) for k in range(N)], ns=ns_, ny=ny)
            d["y"] = S.input("y", [ns_] + m)
            d["W"] += [S.input(f"Wy{o}", [m[o], R]) for o in range(ny)]
            return d
        return setup
    def run_cpreg(I):
        S = I["_S"]
        est = cpr.CPRegressor(weight_rank=R if S.name == "sym" else I["W"][0].shape[1], reg_W=0.7, verbose=0)
        cut = LoopCut(cpr.CPRegressor.fit)
        st = cut.prefix(est, I["X"], I["y"])
        st["W"] = list(I["W"])
        st["norm_W"] = [I["X"].sum() * 0 + 1, I["X"].sum() * 0 + 2] if S.name == "num" else [G.opaque_tensor("NW", []), G.opaque_tensor("NW", [])]
        del G.LA_LOG[:]
        cut.body(st, 0)
        return [dict(A=c["A"], B=c["B"], i=c["at"]["i"], W=list(c["at"]["W"])) for c in G.LA_LOG if c["op"] == "solve"]
    def cpreg_post(S, I, calls):
        pairs = []
        NX = len(S.shape(I["X"])) - 1
        ny = I["ny"]
        lx = SP.letters(NX, 1)
        ly = SP.letters(ny, 1 + NX)
        for c in calls:
            i, W = c["i"], c["W"]
            if i < NX:
                subs = ["a" + lx] + [lx[k] + "R" for k in range(NX) if k != i] + [ly[o] + "R" for o in range(ny)]
                args = [W[k] for k in range(NX) if k != i] + [W[NX + o] for o in range(ny)]
                Phi = S.group(S.einsum(",".join(subs) + "->a" + ly + lx[i] + "R", I["X"], *args), [list(range(1 + ny)), [1 + ny, 2 + ny]])
                rhs = S.einsum("zp,z->p", Phi, S.group(I["y"], [list(range(1 + ny))]))
            else:
                j = i - NX
                oth = [o for o in range(ny) if o != j]
                subs = ["a" + lx] + [lx[k] + "R" for k in range(NX)] + [ly[o] + "R" for o in oth]
                args = [W[k] for k in range(NX)] + [W[NX + o] for o in oth]
                Phi = S.group(S.einsum(",".join(subs) + "->a" + "".join(ly[o] for o in oth) + "R", I["X"], *args), [list(range(1 + len(oth))), [1 + len(oth)]])
                ym = S.group(I["y"], [[0] + [1 + o for o in oth], [1 + j]])
                rhs = S.einsum("zp,zo->po", Phi, ym)
            gram = S.einsum("ap,aq->pq", Phi, Phi) + S.eye(S.shape(Phi)[1]) * 0.7
            pairs.append((f"factor {i}: ΦᵀΦ + λI with Φ the design matrix of the ridge block problem", c["A"], gram))
            pairs.append((f"factor {i}: right-hand side ≡ Φᵀy (target rows aligned with the design matrix)", c["B"], rhs))
        pairs.append(("one ridge solve per factor", len(calls), len(I["W"])))
        return pairs
    for N in range(2, maxN + 1):
        for ny in (0, 1, 2, 3):
            if ny >= 2 and N > 2:
                continue
            add("regression.cp_regression:CPRegressor.fit", f"X-order={N + 1},target-modes={ny}", reg_setup(N, ny), run_cpreg, cpreg_post, dict(x_order=N + 1, target_modes=ny),
                "solve sites ≡ ridge normal equations of the block problem")
    def tkreg_setup(N):
        def setup(S):
            ns_ = atom("ns")
            n, r = dims(N), dims(N, "r")
            return dict(_S=S, X=S.input("X", [ns_] + n), y=S.input("y", [ns_]), W=[S.input(f"W{k}", [n[k], r[k]]) for k in range(N)], Gc=S.input("Gc", r), r=r)
        return setup
    def run_tkreg(I):
        S = I["_S"]
        ranks = list(I["r"]) if S.name == "sym" else [w.shape[1] for w in I["W"]]
        est = tkr.TuckerRegressor(weight_ranks=ranks, reg_W=0.7, verbose=0)
        cut = LoopCut(tkr.TuckerRegressor.fit)
        st = cut.prefix(est, I["X"], I["y"])
        st["W"] = list(I["W"])
        st["G"] = I["Gc"]
        st["norm_W"] = []
        del G.LA_LOG[:]
        cut.body(st, 0)
        return [dict(A=c["A"], B=c["B"], i=c["at"].get("i"), W=list(c["at"]["W"]), G=c["at"]["G"], phi=c["at"].get("phi")) for c in G.LA_LOG if c["op"] == "solve"]
    def tkreg_post(S, I, calls):
        pairs = []
        N_ = len(I["W"])
        lx = SP.letters(N_, 1)
        lr = SP.letters(N_, 1 + N_)
        for k_, c in enumerate(calls):
            W, Gc = c["W"], c["G"]
            if k_ < N_:
                i = c["i"]
                subs = ["a" + lx, lr] + [lx[k] + lr[k] for k in range(N_) if k != i]
                Phi = S.group(S.einsum(",".join(subs) + "->a" + lx[i] + lr[i], I["X"], Gc, *[W[k] for k in range(N_) if k != i]), [[0], [1, 2]])
                what = f"factor {i}"
            else:
                subs = ["a" + lx] + [lx[k] + lr[k] for k in range(N_)]
                Phi = S.group(S.einsum(",".join(subs) + "->a" + lr, I["X"], *W), [[0], list(range(1, N_ + 1))])
                what = "core"
            gram = S.einsum("ap,aq->pq", Phi, Phi) + S.eye(S.shape(Phi)[1]) * 0.7
            pairs.append((f"{what}: ΦᵀΦ + λI", c["A"], gram))
            pairs.append((f"{what}: Φᵀy", c["B"], S.einsum("ap,a->p", Phi, I["y"])))
        pairs.append(("one ridge solve per factor plus one for the core", len(calls), N_ + 1))
        return pairs
    for N in range(2, maxN + 1):
        add("regression.tucker_regression:TuckerRegressor.fit", f"X-order={N + 1},scalar target", tkreg_setup(N), run_tkreg, tkreg_post, dict(x_order=N + 1, target="scalar"),
            "solve sites ≡ ridge normal equations of the block problem")
    # ====================================================================== PARAFAC2 sweep: both block solvers work on the CURRENT model. From an iterate with arbitrary weights
    # (a user initialisation, or the previous sweep's normalisation) the projections are computed for weights-included factors, the inner CP solver is
    # warm-started at the same model and fits the slices projected with the projections just computed - otherwise the two exact block updates minimise
    # different objectives and the error can rise
    import tensorly.parafac2_tensor as _p2t
    for normalize in (False, True):
        def sw_setup(S):
            K = atom("K")
            return dict(_S=S, Xs=[S.input(f"X{i}", [atom(f"J{i}"), K]) for i in range(2)], w=S.input("w", [R]), A=S.input("A", [2, R]), B=S.input("B", [R, R]), Cc=S.input("Cm", [K, R]),
                        P=[S.input(f"P{i}", [atom(f"J{i}"), R]) for i in range(2)], K=K)
        def sw_call(I, normalize=normalize):
            from .c03 import _noval
            from tensorly.cp_tensor import CPTensor
            S = I["_S"]
            sym = S.name == "sym"
            Rr = R if sym else I["A"].shape[1]
            rec = {}
            real_proj, real_parafac = _p2._compute_projections, _p2.parafac
            def proj_stub(ts, fs_, svd, **kw):
                rec["proj_fs"] = list(fs_)
                if sym:
                    rec["Pn"] = [G.opaque_tensor("PNEW", [G.axis_sizes(t)[0], G.axis_sizes(fs_[1])[0]], t.dtype) for t in ts]
                else:
                    rec["Pn"] = real_proj(ts, fs_, svd)
                    for q in rec["Pn"]:
                        S.record("PNEW", q)
                return rec["Pn"]
            def inner(X, rank, init=None, **kw):
                rec["cp_X"], rec["cp_init"] = X, (init[0], list(init[1]))
                if sym:
                    return CPTensor((None, [G.opaque_tensor("INNER", list(f.shape), f.dtype) for f in init[1]]))
                out = real_parafac(X, rank, init=init, **kw)
                for f in out[1]:
                    S.record("INNER", f)
                return out
            def go():
                cut = LoopCut(_p2.parafac2)
                with stubbed(_p2, _compute_projections=proj_stub, parafac=inner, _validate_parafac2_tensor=_p2t._validate_parafac2_tensor,
                             initialize_decomposition=lambda *a, **k: (I["w"], [I["A"], I["B"], I["Cc"]], list(I["P"]))):
                    st = cut.prefix(list(I["Xs"]), Rr, return_errors=True, tol=0, normalize_factors=normalize, linesearch=False)
                    st["factors"] = list(st["factors"])
                    st["rec_errors"] = []
                    cut.body(st, 0)
                return rec
            return _noval(_p2t, go)
        def sw_post(S, I, r):
            model = SP.cp_to_tensor(S, I["w"], [I["A"], I["B"], I["Cc"]])
            w0, f0 = r["cp_init"]
            proj = S.stack([S.einsum("jr,jk->rk", p, x) for p, x in zip(r["Pn"], I["Xs"])], 0)
            return [("the projections are computed for the current model, weights included", SP.cp_to_tensor(S, None, r["proj_fs"]), model),
                    ("the inner CP solver is warm-started at the current model", SP.cp_to_tensor(S, w0, f0), model),
                    ("the inner CP solver fits the slices projected with the projections just computed", r["cp_X"], proj)]
        add("decomposition._parafac2:parafac2", f"normalize_factors={normalize},sweep from arbitrary weights", sw_setup, sw_call, sw_post, dict(normalize_factors=normalize),
            "both block updates of a sweep work on the current model", assumptions=lambda I: [R <= I["K"]] + [R <= x.shape[0] for x in I["Xs"]])
    # ====================================================================== PARAFAC2 line search: what is accepted is what was judged
    for nnm in (None, [0], [0, 2]):
        def ls_setup(S):
            K = atom("K")
            return dict(_S=S, Xs=[S.input(f"X{i}", [atom(f"J{i}"), K]) for i in range(2)], w=S.input("w", [R]),
                        fs=[S.input("A", [2, R]), S.input("B", [R, R]), S.input("Cm", [K, R])], fl=[S.input("Al", [2, R]), S.input("Bl", [R, R]), S.input("Cl", [K, R])],
                        P=[S.input(f"P{i}", [atom(f"J{i}"), R]) for i in range(2)], Pn=[S.input(f"Pn{i}", [atom(f"J{i}"), R]) for i in range(2)],
                        err=S.input("err", []), lserr=S.input("lserr", []), nrm=S.input("nrm", []))
        def ls_call(I, nnm=nnm):
            rec = {}
            def proj_stub(ts, fs_, svd, **kw):
                rec["proj_factors"] = list(fs_)
                return list(I["Pn"])
            def err_stub(ts, decomposition, *a, **k):
                rec["err_decomposition"] = (decomposition[0], list(decomposition[1]), list(decomposition[2]))
                return I["lserr"] * I["nrm"]
            ls = _p2._BroThesisLineSearch(I["nrm"], "truncated_svd", verbose=False, nn_modes=nnm)
            with stubbed(_p2, _compute_projections=proj_stub, _parafac2_reconstruction_error=err_stub):
                f, p_, e = ls.line_step(8, list(I["Xs"]), list(I["fl"]), I["w"], list(I["fs"]), list(I["P"]), I["err"])
            from ..symint import current_ctx
            ctx = current_ctx()
            decisions = [(repr(db.op), db.lhs, db.rhs, val) for db, val in (ctx.data_path if ctx else [])]
            accepted = p_[0] is I["Pn"][0] if I["_S"].name == "sym" else bool(np.shares_memory(p_[0], I["Pn"][0]) or p_[0] is I["Pn"][0])
            last = decisions[-1] if decisions else None
            cmp_ok = bool(last is not None and last[0] == "'<'" and last[2] is I["err"] and last[3])
            return dict(f=list(f), p=list(p_), e=e, rec=rec, accepted=accepted, cmp_ok=cmp_ok, tested=(last[1] if last else None))
        def ls_post2(S, I, r):
            out = []
            if r["accepted"]:
                out += [("accepted jump: the returned factors are the ones the projections were computed for", list(r["f"]), r["rec"]["proj_factors"]),
                        ("accepted jump: the returned factors are the ones whose error was compared with the current error", list(r["f"]), r["rec"]["err_decomposition"][1]),
                        ("accepted jump: the returned error is that error, relative to the data norm", r["e"], I["lserr"])]
                if S.name == "sym":
                    out.append(("the jump is accepted only on the path where the tested quantity is smaller than the current error", r["cmp_ok"], True))
                    out.append(("the tested quantity is the error of the jumped point relative to the data norm", r["tested"], I["lserr"]))
            else:
                out += [("rejected jump: the current factors come back", list(r["f"]), list(I["fs"])), ("rejected jump: the current error comes back", r["e"], I["err"])]
            return out
        add("decomposition._parafac2:_BroThesisLineSearch.line_step", f"nn_modes={nnm}", ls_setup, ls_call, ls_post2, dict(nn_modes=str(nnm)),
            "an accepted line-search point is exactly the point that was projected and judged; a rejected one changes nothing")
    # ====================================================================== coupled matrix-tensor ALS: every least-squares site is the block problem of the REPORTED objective
    # 1/2 ||X - [[w; A, B, C]]||^2 + 1/2 ||Y - A V^T||^2.  The initialiser is used by contract: unit weights unless it is asked to normalise, in which case it returns weights.
    import tensorly.decomposition._cmtf_als as _cm
    for normalize in (False, True):
        def cm_setup(S):
            n = dims(3)
            return dict(_S=S, X=S.input("X", n), Y=S.input("Y", [n[0], atom("Jm")]), w=S.input("w", [R]), fs=[S.input(f"U{k}", [n[k], R]) for k in range(3)])
        def cm_call(I, normalize=normalize):
            S = I["_S"]
            seen = []
            def init_stub(t, rank, **k):
                seen.append(bool(k.get("normalize_factors")))
                w = I["w"] if k.get("normalize_factors") else None
                if len(t.shape) == 3:
                    return CPTensor((w, list(I["fs"])))
                return CPTensor((w, [I["fs"][0], (G.opaque_tensor("CINIT", [t.shape[1], rank]) if S.name == "sym" else __import__("numpy").ones((t.shape[1], rank)))]))
            cut = LoopCut(_cm.coupled_matrix_tensor_3d_factorization)
            with stubbed(_cm, initialize_cp=init_stub):
                st = cut.prefix(I["X"], I["Y"], R if S.name == "sym" else I["fs"][0].shape[1], normalize_factors=normalize)
                st["tensor_cp"] = CPTensor((st["tensor_cp"].weights, list(st["tensor_cp"].factors)))
                st["rec_errors"] = []
                del G.LA_LOG[:]
                cut.body(st, 0)
            return dict(calls=[dict(op=c["op"], A=c["A"], B=c["B"], X=c["X"]) for c in G.LA_LOG if c["op"] == "lstsq"], weights=st["tensor_cp"].weights)
        def cm_post(S, I, r):
            calls, w = r["calls"], r["weights"]
            fs = list(I["fs"])
            out = [("four least-squares problems per sweep (V, then modes 2, 1, 0)", len(calls), 4),
                   ("V update: design ≡ the coupled factor A", calls[0]["A"], fs[0]), ("V update: right-hand side ≡ Y", calls[0]["B"], I["Y"])]
            for c, m in zip(calls[1:3], (2, 1)):
                others = [f for q, f in enumerate(fs) if q != m]
                out.append((f"mode {m}: design ≡ Khatri-Rao of the other factors carrying the weights of the model whose error is reported", c["A"], SP.khatri_rao(S, others, weights=w)))
                out.append((f"mode {m}: right-hand side ≡ unfolding of X along mode {m}, transposed", c["B"], S.group(I["X"], [[q for q in range(3) if q != m], [m]])))
                fs[m] = _T(S, c["X"])
            return out
        add("decomposition._cmtf_als:coupled_matrix_tensor_3d_factorization", f"normalize_factors={normalize}", cm_setup, cm_call, cm_post, dict(normalize_factors=normalize),
            "least-squares sites ≡ block problems of the reported objective")
    # ====================================================================== the descent lemma of HALS rests on a callee contract: every row update of hals_nnls is the EXACT
    # minimiser of its one-row problem over [eps, inf) at the current other rows - for the plain, the l1-penalised and the ridge-penalised objective. That contract
    # is discharged here too (the same loop-cut bodies as C13, E1-dense + z3 at enumerated sizes; only the exactness clause is claimed under C07): an exact
    # coordinate minimiser can never raise the objective it minimises (L1), an inexact one can.
    from . import c13 as _c13
    from ..oblig_dense import DOb as _DOb
    for ob in _c13.obligations(tier):
        if isinstance(ob, _DOb) and ob.function.endswith(":hals_nnls") and "cold start" not in ob.name:
            def claims(I, out, ob=ob):
                sel = [c for c in ob.claims(I, out) if "exact minimiser of its one-row problem" in c[0]]
                assert sel, "exactness clause missing"
                return sel
            parts = ob.name.split("/")
            obs.append(_DOb(PID, f"{PID}/callee-contract/{parts[1]}/every row update is the exact minimiser of its one-row problem" + ob.name[ob.name.index("["):], ob.function, ob.inputs, ob.call, claims,
                            params=ob.params, pre=ob.pre, instance=dict(ob.instance, source="C13"), clause="exact coordinate minimisation (hypothesis of the descent lemma L1), plain / l1 / ridge objective",
                            solver_timeout_ms=ob.solver_timeout_ms, check_domain=ob.check_domain, max_paths=ob.max_paths))
    # ====================================================================== PARAFAC2 line search x non-negativity: descent of the sweep that follows an accepted jump needs the
    # jumped iterate to lie in the constraint set of the inner non-negative solver (every mode in nn_modes, mode 1 included with 'all'); the clipping obligations
    # of C10 on _BroThesisLineSearch.line_step are discharged here too
    from . import c10 as _c10
    for ob in _c10.obligations(tier):
        if type(ob) is GOb and ob.function.endswith("_BroThesisLineSearch.line_step"):
            obs.append(GOb(PID, f"{PID}/" + ob.name.split("/", 1)[1], ob.function, ob.setup, ob.call, ob.post, tenalg=ob.tenalg, assumptions=ob.assumptions, side_nonzero=ob.side_nonzero,
                           instance=dict(ob.instance, source="C10"), clause="the line-search iterate is feasible for the inner solver's constraint set (hypothesis of descent after an accepted jump)", forall=list(ob.forall), enumerated=list(ob.enumerated)))
    # ====================================================================== bounded stand-in (never counted as proved): end-to-end native survey - the real
    # entry points, unstubbed, on seeded tensors; a cross-check of the composed contracts on what they assume away (degenerate data, option combinations)
    from .c09 import BoundedOb
    from . import e2e_native
    obs.append(BoundedOb(f"{PID}/bounded/native survey: reported errors of the exact block-coordinate algorithms never rise", "tensorly.decomposition:parafac+tucker+non_negative_parafac_hals", lambda: e2e_native.c06_c07(tier, "C07"), dict(orders="2-3 (4 thorough)", data="generic, non-negative, integer, exactly low-rank", budgets="2, 8"), "seed 0; slack 1e-6 (errors are square roots of differences)", pid=PID))
    from .c09 import BoundedOb as _BOb
    from . import e2e_native as _e2e
    obs.append(_BOb(f"{PID}/bounded/native survey of secondary entry points: PARAFAC2 variants, TR-ALS, constrained / randomised CP, masks, sparse component, normalisation exits, CMTF, TT-matrix",
                    "tensorly.decomposition:parafac2+tensor_ring_als+constrained_parafac+randomised_parafac+parafac+non_negative_tucker+non_negative_tucker_hals+coupled_matrix_tensor_3d_factorization+tensor_train_matrix",
                    lambda: _e2e.extras(tier, PID), dict(entry_points=9, clauses="those of this property"), "seed 0; tolerances 1e-6 (errors), 1e-8 (structure); one shared run per process, failures filtered by property", pid=PID))
    return obs


def canaries(tier):
    """stale weights in the Gram matrix must be refuted"""
    import tensorly.decomposition._cp as _cp
    from tensorly.cp_tensor import CPTensor
    R = atom("R")
    def setup(S):
        n = dims(3)
        return dict(_S=S, X=S.input("X", n), w=S.input("w", [R]), fs=[S.input(f"U{k}", [n[k], R]) for k in range(3)], e1=S.input("e_prev1", []), e2=S.input("e_prev2", []))
    def call(I):
        cut = LoopCut(_cp.parafac)
        with stubbed(_cp, initialize_cp=lambda *a, **k: CPTensor((I["w"], list(I["fs"])))):
            st = cut.prefix(I["X"], R, return_errors=True)
            st["rec_errors"] = [I["e2"], I["e1"]]
            del G.LA_LOG[:]
            cut.body(st, 1)
        return [dict(A=c["A"], at=c["at"]) for c in G.LA_LOG]
    def post(S, I, calls):
        c = calls[0]
        return [("gram without weights", c["A"], _T(S, SP.cp_gram(S, None, c["at"]["factors"], c["at"]["mode"])))]
    return [GOb(PID, f"{PID}/canary/gram-without-weights", "tensorly.decomposition._cp:parafac", setup, call, post, tenalg="core", instance={}, clause="canary")]
