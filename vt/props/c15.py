"""C15  Library calls never modify caller-owned inputs.

Frame proof.  E1-generic: every symbolic tensor knows which tensor object it is a view of (numpy's view semantics: transpose / moveaxis /
basic slicing alias, reshape of a C-contiguous array aliases, everything else owns fresh memory) and every in-place operation (item
assignment and tl.index_update on the numpy backend, the augmented assignments *= += -= /=, and the `modifies` clauses of contract stubs
such as hals_nnls's start matrix) is logged with the root object it writes to.  Python lists, tuples, dicts and wrapper objects are the real
ones.  For every call site, on every path and for all sizes / values:

  (1) no logged write targets an array the caller passed in (directly, inside a list / tuple / wrapper object, or through a view);
  (2) every container the caller passed in (factor lists, the initialisation object, fixed_modes and coefficient lists) holds exactly the
      objects it held before, in the same order.

E1-dense (real numpy object arrays of z3 reals, numpy's own view semantics and in-place behaviour): cell-by-cell object identity of every
input array before and after the solver / proximal-operator bodies, all values, all paths, enumerated shapes.
Documented in-place parameters (copy=False mode products, the NNLS start matrix V, index_update's target) are excluded where they are the
parameter in question, and only there.  A refutation is replayed natively: deep copy before, bitwise comparison after.
"""
import copy
import importlib

import numpy as np

from ..oblig import GOb
from ..symint import atom, EngineError
from ..loopcut import LoopCut
from ..iterative import stubbed, make_svd_stub
from .. import gtensor as G

PID = "C15"
LEVEL = "proof"
TRUSTED_BASE = [
    "numpy view semantics as modelled: transpose / moveaxis / basic slicing return views, reshape of a C-contiguous array returns a view; reshape of a non-contiguous array is taken to copy (special cases where numpy still returns a view are not modelled: a write through such a view would be missed, never falsely reported)",
    "in-place operations are exactly: item assignment, tl.index_update (numpy backend), augmented assignment on arrays, and the modifies-clauses of the stubbed solvers (hals_nnls writes its start matrix V) - the alias model is cross-checked natively by the replay of every obligation (soundness monitor)",
    "numpy primitive contracts; CPython; loop extraction",
]
ASSUMPTIONS = [
    "whether an argument is modified does not depend on the sizes beyond the enumerated orders; the dense obligations are at enumerated small shapes",
    "exception exits are covered only where the source call sites raise (error contracts) and by the bounded native stand-in",
]
QUANTIFICATION = "forall mode sizes, ranks, values, paths; enumerated: entry point, argument kinds (arrays, lists, tuples, wrapper objects, views), options"
EXPLANATION = "Write log over an alias model plus identity snapshots of the real Python containers; dense: cell identity of real numpy object arrays."


def dims(N, p="n"):
    return [atom(f"{p}{k}") for k in range(N)]


# ------------------------------------------------------------------------------------------------ snapshots
def is_array(x):
    return isinstance(x, (G.GTensor, np.ndarray))


def walk(x, path="args", seen=None, depth=0):
    """yields (path, object) for arrays and containers reachable from the arguments"""
    seen = seen if seen is not None else set()
    if x is None or isinstance(x, (str, bytes, bool, int, float, complex, np.generic)) or depth > 8 or id(x) in seen:
        return
    if hasattr(x, "z3") and not is_array(x):
        return
    seen.add(id(x))
    if is_array(x):
        yield path, x
        return
    if isinstance(x, dict):
        yield path, x
        for k, v in x.items():
            if not (isinstance(k, str) and k.startswith("_")):
                yield from walk(v, f"{path}[{k!r}]", seen, depth + 1)
    elif isinstance(x, (list, tuple)):
        yield path, x
        for i, v in enumerate(x):
            yield from walk(v, f"{path}[{i}]", seen, depth + 1)
    elif hasattr(x, "__dict__") and type(x).__module__.startswith("tensorly"):
        yield path, x
        for k, v in vars(x).items():
            yield from walk(v, f"{path}.{k}", seen, depth + 1)


def shallow(x):
    """identity-level state of a container"""
    def tok(v):
        return ("v", v) if isinstance(v, (str, bytes, bool, int, float, complex, type(None))) else ("id", id(v))
    if isinstance(x, dict):
        return ("dict", tuple((repr(k), tok(v)) for k, v in x.items() if not (isinstance(k, str) and k.startswith("_"))))
    if isinstance(x, (list, tuple)):
        return (type(x).__name__, tuple(tok(v) for v in x))
    return ("obj", tuple((k, tok(v)) for k, v in sorted(vars(x).items())))


class Frame:
    """snapshot of the arguments before the call; compare() after"""

    def __init__(self, args, allow=()):
        self.items = list(walk(args))
        self.allow = tuple(allow)          # path prefixes of documented in-place parameters
        self.keep = [o for _, o in self.items]   # keep the objects alive: ids stay unique
        self.cont = [(p, o, shallow(o)) for p, o in self.items if not is_array(o)]
        self.sym = {id(o): p for p, o in self.items if isinstance(o, G.GTensor)}
        self.nat = [(p, o, np.array(o, copy=True)) for p, o in self.items if isinstance(o, np.ndarray)]
        self.mark = len(G.WRITE_LOG)

    def allowed(self, path):
        return any(path.startswith(a) for a in self.allow)

    def compare(self):
        bad_w, bad_c = [], []
        for e in G.WRITE_LOG[self.mark:]:
            p = self.sym.get(id(e["target"]))
            if p is not None and not self.allowed(p):
                bad_w.append(f"{e['op']} writes into {p}")
        for p, o, before in self.nat:
            same = (o.shape == before.shape) and (np.array_equal(o, before, equal_nan=True) if o.dtype.kind in "fciub" else all(a is b or a == b for a, b in zip(o.ravel().tolist(), before.ravel().tolist())))
            if not same and not self.allowed(p):
                bad_w.append(f"{p} differs from its copy taken before the call")
        for p, o, before in self.cont:
            if shallow(o) != before and not self.allowed(p):
                bad_c.append(f"{p} ({type(o).__name__}) no longer holds the objects it held before the call")
        return bad_w, bad_c

    def pairs(self, tag=""):
        bad_w, bad_c = self.compare()
        n_arr = len(self.sym) + len(self.nat)
        return [(f"{tag}no write into an array the caller passed in" + (": " + "; ".join(sorted(set(bad_w))[:3]) if bad_w else ""), int(not bad_w), 1),
                (f"{tag}every list / tuple / object the caller passed in holds what it held before" + (": " + "; ".join(bad_c[:3]) if bad_c else ""), int(not bad_c), 1),
                (f"{tag}{n_arr} arrays and {len(self.cont)} containers are owned by the caller (non-vacuity)", int(n_arr >= 1), 1)]


# ------------------------------------------------------------------------------------------------ interception at the boundary of the real function
import contextlib
import sys
import types

FRAMES = []


def resolve(fn):
    """'tensorly.x.y:Class.method' or 'tensorly.x.y:func' (module prefix 'tensorly.' may be missing) -> (owner, attribute name, function, is_method)"""
    if ":" not in fn:
        raise EngineError(f"cannot resolve {fn}")
    mod, name = fn.split(":")
    m = None
    for cand in (mod, "tensorly." + mod, "tensorly.decomposition." + mod):
        try:
            m = importlib.import_module(cand)
            break
        except ImportError:
            m = None
    if m is None:
        raise EngineError(f"cannot resolve {fn}")
    parts = name.split("+")[0].split(".")
    owner = m
    for part in parts[:-1]:
        owner = getattr(owner, part)
    raw = owner.__dict__.get(parts[-1]) if isinstance(owner, type) else getattr(owner, parts[-1], None)
    f = raw.__func__ if isinstance(raw, (staticmethod, classmethod)) else raw
    if not isinstance(f, types.FunctionType):
        raise EngineError(f"{fn} is not a plain function")
    return owner, parts[-1], f, isinstance(owner, type) and not isinstance(raw, staticmethod)


@contextlib.contextmanager
def intercepted(fn, allow=()):
    """every reference to the real function inside tensorly (module globals, class attributes, tenalg dispatch tables) is replaced by a wrapper that
    snapshots the actual arguments, calls the real function and compares - also when the call raises"""
    owner, attr, real, is_method = resolve(fn)

    def wrapper(*a, **k):
        args = list(a[1:]) if is_method else list(a)
        fr = Frame({"args": tuple(args), "kwargs": k}, allow)
        try:
            return real(*a, **k)
        finally:
            FRAMES.append((fn, fr, fr.pairs()))
    wrapper.__wrapped__ = real
    undo = []
    def swap(d, key, val, new):
        undo.append((d, key, val))
        try:
            d[key] = new
        except TypeError:  # mappingproxy of a class
            pass
    for name, mod in list(sys.modules.items()):
        if not (name == "tensorly" or name.startswith("tensorly.")) or mod is None:
            continue
        for key, val in list(vars(mod).items()):
            if val is real:
                undo.append(("mod", mod, key, val))
                setattr(mod, key, wrapper)
            elif isinstance(val, type) and val.__module__.startswith("tensorly"):
                for ck, cv in list(vars(val).items()):
                    inner = cv.__func__ if isinstance(cv, (staticmethod, classmethod)) else cv
                    if inner is real:
                        undo.append(("cls", val, ck, cv))
                        setattr(val, ck, staticmethod(wrapper) if isinstance(cv, staticmethod) else (classmethod(wrapper) if isinstance(cv, classmethod) else wrapper))
    try:
        yield
    finally:
        for kind, o, key, val in reversed(undo):
            setattr(o, key, val)


# ------------------------------------------------------------------------------------------------ generic wrapper over the call sites of other properties
SOURCES = ["c02", "c03", "c04", "c19"]


def wrap(base):
    inst = base.instance
    allow = ()
    def call(I):
        del FRAMES[:]
        outer = Frame({k: v for k, v in I.items() if not k.startswith("_")}, allow)   # what the call site itself owns
        try:
            cm = intercepted(base.function, allow)
            cm.__enter__()
        except EngineError:
            cm = None
        try:
            base.call(I)
        finally:
            if cm is not None:
                cm.__exit__(None, None, None)
        return dict(outer=outer.pairs("call site: "), frames=[(fn, pairs) for fn, fr, pairs in FRAMES])
    def post(S, I, r):
        out = list(r["outer"][:2])
        for i, (fn, pairs) in enumerate(r["frames"][:6]):
            out += [(f"call {i} of the function: {l}", g, w) for l, g, w in pairs[:2]]
        n = sum(p[2][1] for _, p in r["frames"]) + r["outer"][2][1]
        out.append((f"arguments with caller-owned arrays were observed at the call site and at {len(r['frames'])} entries of the real function (non-vacuity)", int(n >= 1), 1))
        return out
    return GOb(PID, f"{PID}/" + base.name.split("/", 1)[1], base.function, base.setup, call, post, tenalg=base.tenalg, assumptions=base.assumptions, side_nonzero=base.side_nonzero,
               instance=dict(inst, source=base.pid), clause="modifies nothing the caller owns", forall=list(base.forall) + ["paths"], enumerated=list(base.enumerated))


def _select(obs, tier):
    if tier != "quick" or True:   # (every instance of the source properties is re-run in both tiers: they are cheap, and a frame defect may show only at order >= 3 or at mode 0)
        return obs
    seen, out = set(), []
    for ob in obs:
        inst = {k: v for k, v in ob.instance.items() if k not in ("order", "N", "n_slices", "slices", "rank", "mode", "modes", "unit", "skip", "skip_begin", "skip_end", "P", "assignment")}
        key = (ob.function, repr(sorted(inst.items(), key=lambda kv: kv[0])))
        if key in seen:
            continue
        seen.add(key)
        out.append(ob)
    return out


def decomposition_obligations(tier):
    """iterative decompositions called with a caller-owned initialisation, option lists and masks: real prefix (real initialiser), the first sweeps from the
    state it leaves (so the work factors are the caller's arrays exactly when the code makes them so), the exits; inner solvers by contract incl. `modifies`"""
    import tensorly as tl
    import tensorly.decomposition._cp as _cp
    import tensorly.decomposition._nn_cp as _nn
    import tensorly.decomposition._constrained_cp as _cc
    import tensorly.decomposition._tucker as _tk
    import tensorly.decomposition._parafac2 as _p2
    import tensorly.decomposition._cmtf_als as _cm
    import tensorly.parafac2_tensor as p2t
    from tensorly.cp_tensor import CPTensor
    from tensorly.tucker_tensor import TuckerTensor
    from ..iterative import real_dtype

    obs = []
    R = atom("R")
    maxN = 3

    def solver_stubs(S):
        def hals(UtM, UtU, V=None, **kw):
            if S.name != "sym":
                from tensorly.solvers.nnls import hals_nnls as real
                return real(UtM, UtU, V, **kw)
            if V is None:
                return G.opaque_tensor("HALS", list(UtM.shape), UtM.dtype)
            G.log_write(V, "hals_nnls (contract: updates its start matrix V in place and returns it)")
            return V
        def fista(UtM, UtU, x=None, **kw):
            if S.name != "sym":
                from tensorly.solvers.nnls import fista as real
                return real(UtM, UtU, x=x, **kw)
            return G.opaque_tensor("FISTA", list((x if x is not None else UtM).shape), UtM.dtype)
        def aset(Utm, UtU, x=None, **kw):
            if S.name != "sym":
                from tensorly.solvers.nnls import active_set_nnls as real
                return real(Utm, UtU, x=x, **kw)
            return G.opaque_tensor("ASET", [G.flat_sizes(x if x is not None else Utm)], Utm.dtype)
        def admm(UtM, UtU, x, dual_var, **kw):
            if S.name != "sym":
                from tensorly.solvers.admm import admm as real
                return real(UtM, UtU, x, dual_var, **kw)
            return (G.opaque_tensor("ADMMX", list(x.shape), x.dtype), G.opaque_tensor("ADMMAUX", [x.shape[1], x.shape[0]], x.dtype), G.opaque_tensor("ADMMDUAL", list(x.shape), x.dtype))
        return dict(hals_nnls=hals, fista=fista, active_set_nnls=aset, admm=admm)

    def run(func, module, args, kwargs, S, stubs, allow=(), sweeps=(0, 1), noval=False):
        fr = Frame({"args": tuple(args), "kwargs": kwargs}, allow)
        stages = []
        names = {k: v for k, v in stubs.items() if k in vars(module)}
        def go():
            import contextlib
            if noval:
                names["_validate_parafac2_tensor"] = p2t._validate_parafac2_tensor  # (the contract installed by _noval)
            with contextlib.ExitStack() as stack:
                stack.enter_context(stubbed(module, **names))
                if "truncated_svd" in stubs:
                    stack.enter_context(stubbed(tl, truncated_svd=stubs["truncated_svd"]))   # tl.truncated_svd(MtM)[1][0]: the step size of the core update
                cut = LoopCut(func)
                st = cut.prefix(*args, **kwargs)
                if isinstance(st, tuple) and len(st) == 2 and st[0] == "return":
                    stages.append(("the early return", fr.pairs()))
                    return
                stages.append(("the prefix (initialisation)", fr.pairs()))
                for it in sweeps:
                    if it >= 1:
                        st = havoc(st, fr)
                    kind, st = cut.body(st, it)
                    stages.append((f"sweep {it} ({kind})", fr.pairs()))
                    if kind == "return":
                        return
                    if kind == "break":
                        break
                cut.suffix(st)
                stages.append(("the exits", fr.pairs()))
        if noval and S.name == "sym":
            from .c03 import _noval
            _noval(p2t, go)
        else:
            go()
        return stages

    def havoc(st, fr):
        """the values a sweep leaves behind are replaced by arbitrary ones (smaller terms, more paths covered); WHICH objects are the caller's is kept exactly"""
        def hv(v):
            if isinstance(v, G.GTensor):
                if id(G.root(v)) in fr.sym or v.ndim == 0:
                    return v
                return G.opaque_tensor("STATE", G.axis_sizes(v), v.dtype)
            if isinstance(v, list) and v and all(isinstance(x, G.GTensor) for x in v) and id(v) not in {id(o) for _, o, _ in fr.cont}:
                return [hv(x) for x in v]
            return v
        return {k: hv(v) for k, v in st.items()}

    def post(S, I, stages):
        out = []
        for name, pairs in stages:
            out += [(f"after {name}: {l}", g, w) for l, g, w in pairs[:2]]
        out.append((f"{len(stages)} stages observed; caller-owned arrays present (non-vacuity)", int(len(stages) >= 2 and stages[0][1][2][1] == 1), 1))
        return out

    def add(fn, tag, setup, call, instance, **kw):
        obs.append(GOb(PID, f"{PID}/{fn}/modifies nothing the caller owns: data, mask, initialisation (arrays, list, object), option lists[{tag}]", f"tensorly.decomposition.{fn}", setup, call, post,
                       tenalg="core", instance=instance, clause="modifies nothing the caller owns (prefix, first sweeps, exits)", forall=["mode sizes", "rank", "values", "paths"], enumerated=list(instance), **kw))

    # ---- CP family
    def cp_setup(N, weights):
        def setup(S):
            n = dims(N)
            return dict(_S=S, n=n, X=S.input("X", n), mask=S.input("mask", n), w=S.input("w", [2]) if weights else None, fs=[S.input(f"U{k}", [n[k], 2 if weights else R]) for k in range(N)], R=2 if weights else R)
        return setup
    cp_algos = [("_cp:parafac", _cp.parafac, _cp, dict(), True), ("_nn_cp:non_negative_parafac", _nn.non_negative_parafac, _nn, dict(), True),
                ("_nn_cp:non_negative_parafac_hals", _nn.non_negative_parafac_hals, _nn, dict(), False), ("_constrained_cp:constrained_parafac", _cc.constrained_parafac, _cc, dict(non_negative=True), False)]
    for N in (3,):
        for fn, func, module, extra, has_mask in cp_algos:
            variants = [("init=tuple", dict(form="tuple")), ("init=CPTensor", dict(form="CPTensor")), ("init=tuple,non-unit weights", dict(form="tuple", weights=True)),
                        ("init=tuple,fixed_modes=[0]", dict(form="tuple", fixed=[0])), ("init=tuple,fixed_modes=[2, 0] (last mode listed)", dict(form="tuple", fixed=[2, 0]))]
            if "constrained" not in fn:
                variants.append(("init=tuple,normalize_factors", dict(form="tuple", normalize=True)))
            if has_mask:
                variants.append(("init=tuple,mask", dict(form="tuple", mask=True)))
                variants.append(("init=tuple,mask,tol=0,no error reporting", dict(form="tuple", mask=True, quiet=True)))
            if "hals" in fn:
                variants.append(("init=tuple,sparsity_coefficients list,fixed_modes=[1]", dict(form="tuple", sparsity=True, fixed=[1])))
            for tag, v in variants:
                def call(I, func=func, module=module, extra=extra, v=v, fn=fn):
                    S = I["_S"]
                    init = (I["w"], list(I["fs"]))
                    if v["form"] == "CPTensor":
                        init = CPTensor(init)
                    kwargs = dict(init=init, return_errors=True, **extra)
                    if v.get("quiet"):
                        kwargs.update(return_errors=False, tol=0)
                    if v.get("fixed") is not None:
                        kwargs["fixed_modes"] = list(v["fixed"])
                    if v.get("normalize"):
                        kwargs["normalize_factors"] = True
                    if v.get("mask"):
                        kwargs["mask"] = I["mask"]
                    if v.get("sparsity"):
                        kwargs["sparsity_coefficients"] = [0.1, 0.2, 0.3]
                    return run(func, module, [I["X"], I["R"]], kwargs, S, solver_stubs(S))
                Nv = 2 if (v.get("mask") and "non_negative" in fn) else N   # (the masked multiplicative update is the one heavy term: order 2 there)
                add(fn, f"N={Nv},{tag}", cp_setup(Nv, bool(v.get("weights"))), call, dict(order=Nv, **{k: (val if not isinstance(val, list) else list(val)) for k, val in v.items()}),
                    side_nonzero=bool(v.get("normalize")))
    # ---- Tucker family
    def tk_setup(N):
        def setup(S):
            n, r = dims(N), dims(N, "r")
            return dict(_S=S, n=n, r=r, X=S.input("X", n), mask=S.input("mask", n), core=S.input("Gc", r), fs=[S.input(f"U{k}", [n[k], r[k]]) for k in range(N)])
        return setup
    def tk_pre(I):
        return [r <= n for r, n in zip(I["r"], I["n"])]
    def tk_stubs(S):
        d = solver_stubs(S)
        d["svd_interface"] = make_svd_stub(S, None)
        d["validate_tucker_rank"] = lambda shape, rank=None, **k: list(rank) if isinstance(rank, (list, tuple)) else rank
        def tsvd(M, *a, **k):
            if S.name != "sym":
                from tensorly.tenalg.svd import truncated_svd as real
                return real(M, *a, **k)
            return None, [G.opaque_tensor("SIGMA", [], real_dtype(M))], None
        d["truncated_svd"] = tsvd
        return d
    for N in (3,):
        tk_variants = [("_tucker:partial_tucker", _tk.partial_tucker, [("init=tuple", dict()), ("init=tuple,mask", dict(mask=True))]),
                       ("_tucker:non_negative_tucker", _tk.non_negative_tucker, [("init=tuple", dict()), ("init=TuckerTensor", dict(obj=True)), ("init=tuple,normalize_factors", dict(normalize=True))]),
                       ("_tucker:non_negative_tucker_hals", _tk.non_negative_tucker_hals, [("init=tuple", dict()), ("init=tuple,fixed_modes=[0],sparsity_coefficients list", dict(fixed=[0], sparsity=True)),
                                                                                              ("init=tuple,algorithm=active_set", dict(algorithm="active_set"))])]
        for fn, func, variants in tk_variants:
            for tag, v in variants:
                def call(I, func=func, v=v, N=N, fn=fn):
                    S = I["_S"]
                    init = (I["core"], list(I["fs"]))
                    if v.get("obj"):
                        init = TuckerTensor(init)
                    kwargs = dict(init=init)
                    if "partial" not in fn:
                        kwargs["return_errors"] = True
                    if v.get("mask"):
                        kwargs["mask"] = I["mask"]
                    if v.get("normalize"):
                        kwargs["normalize_factors"] = True
                    if v.get("fixed") is not None:
                        kwargs["fixed_modes"] = list(v["fixed"])
                    if v.get("sparsity"):
                        kwargs["sparsity_coefficients"] = [0.1] * N
                    if v.get("algorithm"):
                        kwargs["algorithm"] = v["algorithm"]
                    return run(func, _tk, [I["X"], list(I["r"])], kwargs, S, tk_stubs(S))
                add(fn, f"N={N},{tag}", tk_setup(N), call, dict(order=N, **v), assumptions=tk_pre, side_nonzero=bool(v.get("normalize")))
        # tucker() with fixed factors: a plain function around partial_tucker (no loop of its own): zero and one sweep through the real partial_tucker
        for fixed in ([0], [2, 0]):
            for n_it in (0, 1):
                def call(I, fixed=fixed, n_it=n_it, N=N):
                    S = I["_S"]
                    args = [I["X"], [I["r"][k] for k in range(N) if k not in fixed]]
                    kwargs = dict(init=(I["core"], list(I["fs"])), fixed_factors=list(fixed), n_iter_max=n_it)
                    fr = Frame({"args": tuple(args), "kwargs": kwargs})
                    with stubbed(_tk, **{k: v for k, v in tk_stubs(S).items() if k in vars(_tk)}):
                        _tk.tucker(*args, **kwargs)
                    return [("the call", fr.pairs()), ("the call (again)", fr.pairs())]
                add("_tucker:tucker", f"N={N},init=tuple,fixed_factors={fixed},n_iter_max={n_it}", tk_setup(N), call, dict(order=N, fixed_factors=fixed, n_iter_max=n_it), assumptions=tk_pre)
    # ---- PARAFAC2
    for nI in (2,):
        def p2_setup(S, nI=nI):
            K = atom("K")
            return dict(_S=S, Xs=[S.input(f"X{i}", [atom(f"J{i}"), K]) for i in range(nI)], w=S.input("w", [R]), A=S.input("A", [nI, R]), B=S.input("B", [R, R]), Cc=S.input("Cm", [K, R]),
                        P=[S.input(f"P{i}", [atom(f"J{i}"), R]) for i in range(nI)], R=R, K=K)
        for tag, v in (("init=tuple (weights, factors, projections)", dict()), ("init=tuple,normalize_factors", dict(normalize=True)), ("init=tuple,nn_modes=[0]", dict(nn=[0]))):
            def call(I, v=v):
                S = I["_S"]
                init = (I["w"], [I["A"], I["B"], I["Cc"]], list(I["P"]))
                kwargs = dict(init=init, return_errors=True, linesearch=False)
                if v.get("normalize"):
                    kwargs["normalize_factors"] = True
                if v.get("nn") is not None:
                    kwargs["nn_modes"] = list(v["nn"])
                stubs = solver_stubs(S)
                stubs["svd_interface"] = make_svd_stub(S, None, square_u=True)
                def inner(X, rank, init=None, **kw):
                    if S.name != "sym":
                        return real_inner[0](X, rank, init=init, **kw)
                    return CPTensor((None, [G.opaque_tensor("INNER", list(f.shape), f.dtype) for f in init[1]]))
                real_inner = [_p2.parafac]
                stubs["parafac"] = inner
                real_hals = [_p2.non_negative_parafac_hals]
                def inner_h(X, rank, init=None, **kw):
                    if S.name != "sym":
                        return real_hals[0](X, rank, init=init, **kw)
                    return CPTensor((None, [G.opaque_tensor("INNER", list(f.shape), f.dtype) for f in init[1]]))
                stubs["non_negative_parafac_hals"] = inner_h
                return run(_p2.parafac2, _p2, [list(I["Xs"]), I["R"]], kwargs, S, stubs, noval=True)
            add("_parafac2:parafac2", f"slices={nI},{tag}", p2_setup, call, dict(n_slices=nI, **v), assumptions=lambda I: [I["R"] <= I["K"]] + [I["R"] <= x.shape[0] for x in I["Xs"]],
                side_nonzero=bool(v.get("normalize")))
    # ---- CP_PLSR: fit / transform with a matrix and with a vector response (the vector is reshaped - a view on numpy - before it is centred and deflated)
    import tensorly.regression.cp_plsr as pls
    ns_ = atom("ns")
    for ykind in ("matrix",):   # (the vector response exceeds the canonicaliser's labelling budget in a convergence test: bounded survey only)
        def pl_setup(S, ykind=ykind):
            n = dims(1)
            return dict(_S=S, X=S.input("X", [ns_] + n), Y=S.input("Y", [ns_, atom("m")] if ykind == "matrix" else [ns_]), Z0=[S.input("z0", [n[0], 1])])
        def pl_call(I):
            S = I["_S"]
            est = pls.CP_PLSR(n_components=1, n_iter_max=1, verbose=False)
            fr = Frame({"args": (I["X"], I["Y"])})
            stages = []
            with stubbed(pls, initialize_cp=lambda Z, rank, **kw: CPTensor((None, list(I["Z0"])))):
                est.fit(I["X"], I["Y"])
                stages.append(("fit", fr.pairs()))
                est.transform(I["X"], I["Y"])
                stages.append(("transform(X, Y)", fr.pairs()))
                est.predict(I["X"])
                stages.append(("predict", fr.pairs()))
            return stages
        obs.append(GOb(PID, f"{PID}/regression.cp_plsr:CP_PLSR/fit, transform and predict modify neither X nor Y[X-order=2,components=1,Y {ykind}]", "tensorly.regression.cp_plsr:CP_PLSR.fit+transform+predict", pl_setup, pl_call, post,
                       tenalg="core", instance=dict(x_order=2, components=1, Y=ykind), clause="modifies nothing the caller owns (training data and responses)", forall=["sample count", "sizes", "values", "paths"],
                       enumerated=["Y kind"], side_nonzero=True, assumptions=lambda I: [ns_ >= 4]))
    # ---- CMTF and robust PCA (data and mask only)
    def cm_setup(S):
        n = dims(3)
        return dict(_S=S, X=S.input("X", n), Y=S.input("Y", [n[0], atom("Jm")]), fs=[S.input(f"U{k}", [n[k], R]) for k in range(3)], R=R)
    def cm_call(I):
        S = I["_S"]
        init = (None, list(I["fs"]))
        return run(_cm.coupled_matrix_tensor_3d_factorization, _cm, [I["X"], I["Y"], I["R"]], dict(init=init), S, {})
    add("_cmtf_als:coupled_matrix_tensor_3d_factorization", "init=tuple", cm_setup, cm_call, dict(init="tuple"))
    return obs


def dense_obligations(tier):
    """solver and proximal-operator bodies on real numpy object arrays (numpy's own aliasing and in-place behaviour): every input array is, cell for cell,
    the object it was before the call - for all values and paths at the enumerated shapes; hals_nnls's start matrix V is the documented exception"""
    from ..oblig_dense import DOb
    obs = []
    seen = set()
    for mod in ("c12", "c13"):
        m = importlib.import_module(f"vt.props.{mod}")
        for ob in m.obligations(tier):
            if not isinstance(ob, DOb):
                continue
            key = (ob.function, repr(sorted(ob.inputs.items())), repr(sorted((k, repr(v)) for k, v in ob.instance.items())))
            if key in seen:
                continue
            seen.add(key)
            allow = ("V",) if ob.function.endswith(":hals_nnls") else ()
            def call(I, ob=ob):
                snap = {k: v.copy() for k, v in I.items() if isinstance(v, np.ndarray)}
                out = ob.call(I)
                return (out, snap, I)
            def claims(I_unused, r, allow=allow):
                out, snap, I = r
                res = []
                for k, before in snap.items():
                    if k in allow:
                        continue
                    now = I[k]
                    same = now.shape == before.shape and all((a is b) or (not hasattr(a, "z") and a == b) for a, b in zip(now.ravel().tolist(), before.ravel().tolist()))
                    res.append((f"input array {k} is, cell for cell, what it was before the call", bool(same)))
                res.append((f"{len(snap)} input arrays observed (non-vacuity)", bool(len(snap) >= 1)))
                return res
            parts = ob.name.split("/")
            obs.append(DOb(PID, f"{PID}/{parts[1]}/input arrays untouched" + ob.name[ob.name.index("["):], ob.function, ob.inputs, call, claims, params=ob.params, pre=ob.pre,
                           instance=dict(ob.instance, source=ob.pid), clause="modifies nothing the caller owns (dense: cell identity)" + (" except the documented start matrix V" if allow else ""),
                           solver_timeout_ms=ob.solver_timeout_ms, check_domain=False, max_paths=ob.max_paths))
    return obs


def bounded_obligation():
    from .c09 import BoundedOb
    from . import c15_native
    return BoundedOb(f"{PID}/bounded/native ownership survey of the public entry points", "tensorly (decompositions, solvers, proximal operators, tensor algebra under both backends, conversions, metrics, preprocessing, regressors)",
                     c15_native.run, dict(argument_kinds="arrays, views of a caller base, tuples, lists, wrapper objects, option lists, masks", exits="returns and exceptions"),
                     "122 seeded calls, deep copy before / bitwise and structural comparison after", pid=PID)


def obligations(tier):
    obs = _obligations(tier)
    for ob in obs:
        if type(ob) is GOb:
            ob.backend_label = "write-log over the alias model + container identity (all paths)"
    return obs


def _obligations(tier):
    obs = decomposition_obligations(tier) + dense_obligations(tier) + [bounded_obligation()]
    for mod in SOURCES:
        m = importlib.import_module(f"vt.props.{mod}")
        src = [ob for ob in m.obligations(tier) if type(ob) is GOb and ob.raises is None and ob.instance.get("copy", True) is not False
               and not (tier != "quick" and "CP_PLSR.transform" in ob.function)]   # (the thorough-only PLSR transform instances exceed the per-obligation budget here; vector / matrix Y transform is in the bounded survey)
        for ob in _select(src, tier):
            obs.append(wrap(ob))
    return obs


def canaries(tier):
    """an in-place scaling of a caller-owned factor through a view must be flagged"""
    import tensorly as tl
    def setup(S):
        return dict(_S=S, U=S.input("U", dims(2)))
    def call(I):
        fr = Frame({"U": I["U"]})
        v = tl.transpose(I["U"])
        v *= 2.0
        return fr
    return [GOb(PID, f"{PID}/canary/in-place-through-a-view", "tensorly:transpose", setup, call, lambda S, I, fr: fr.pairs(), tenalg="core", instance={}, clause="canary")]
