"""Class wrappers hand their options to the function they wrap, unchanged.

Every decomposition class (`CP`, `Tucker`, `TensorRing`, ...) is a thin wrapper: the constructor stores its options and `fit_transform` calls the
module-level function.  The properties are stated - and proved - on the functions; they hold for the classes exactly if every option reaches the
function.  Obligation per class, decided by recording stubs on abstract values (forwarding is value-independent, `fit_transform` is straight-line code):
the class is instantiated with one distinct sentinel object per constructor parameter, every function of the class's module is replaced by a recorder,
`fit_transform(<data sentinel>)` is run, and the recorded call is bound to the REAL function's signature: each constructor parameter that is a parameter
of the function must arrive as the very object given to the constructor (`return_errors` excepted: wrappers ask for the errors to expose `errors_`),
and the data must arrive as the data.  The same run natively (no symbolic backend involved) is the replay.
"""
import inspect
import types
import warnings

from ..oblig import Obligation, Verdict, PROVED, REFUTED, UNDECIDED

MODULES = ["_cp", "_nn_cp", "_tucker", "_parafac2", "_constrained_cp", "_tt", "_tr_svd", "_tr_als", "_cp_power", "_symmetric_cp"]
EXEMPT = {"return_errors"}


class _Called(Exception):
    def __init__(self, name, args, kwargs):
        self.name, self.args_, self.kwargs = name, args, kwargs


class _Sent:
    def __init__(self, n):
        self.n = n

    def __repr__(self):
        return f"<{self.n}>"


def classes():
    import importlib
    out = []
    for m in MODULES:
        mod = importlib.import_module(f"tensorly.decomposition.{m}")
        for name, K in vars(mod).items():
            if inspect.isclass(K) and K.__module__ == mod.__name__ and hasattr(K, "fit_transform") and not name.startswith("_"):
                out.append((m, K))
    return out


def probe(K):
    """-> (function name, missing / altered options, options the function does not have, data forwarded)"""
    mod = inspect.getmodule(K)
    sig = inspect.signature(K.__init__)
    params = [p for p in sig.parameters.values() if p.name != "self" and p.kind in (p.POSITIONAL_OR_KEYWORD, p.KEYWORD_ONLY)]
    sent = {p.name: _Sent(p.name) for p in params}
    obj = K(**sent)
    saved = {}
    for name, f in list(vars(mod).items()):
        if isinstance(f, types.FunctionType):
            def rec(*a, __n=name, **k):
                raise _Called(__n, a, k)
            saved[name] = f
            setattr(mod, name, rec)
    X = _Sent("tensor")
    try:
        try:
            obj.fit_transform(X)
            return None, [], [], False
        except _Called as c:
            real = saved[c.name]
            got = inspect.signature(real).bind(*c.args_, **c.kwargs).arguments
            fparams = set(inspect.signature(real).parameters)
            missing = [n for n in sent if n in fparams and n not in EXEMPT and got.get(n) is not sent[n]]
            unknown = [n for n in sent if n not in fparams]
            return c.name, missing, unknown, any(v is X for v in got.values())
    finally:
        for name, f in saved.items():
            setattr(mod, name, f)


class WrapOb(Obligation):
    engine = "recording-stub provenance"

    def __init__(self, pid, K, only=None):
        self.K, self.only = K, only
        what = "every constructor option" if only is None else "/".join(only)
        super().__init__(pid, f"{pid}/decomposition.{K.__module__.split('.')[-1]}:{K.__name__}.fit_transform/{what} reaches the wrapped function unchanged", f"tensorly.decomposition.{K.__module__.split('.')[-1]}:{K.__name__}.fit_transform",
                         instance=dict(wrapper=K.__name__, options="all" if only is None else list(only)), clause="the class wrapper forwards its options and the data to the function the property is stated on",
                         forall=["option values", "data"], enumerated=["class"])

    def run(self):
        warnings.simplefilter("ignore")
        try:
            fname, missing, unknown, data_ok = probe(self.K)
        except Exception as e:  # noqa
            return Verdict(UNDECIDED, "engine", f"probe failed: {type(e).__name__}: {e}")
        if fname is None:
            return Verdict(UNDECIDED, "engine", "fit_transform called no function of its module")
        if self.only is not None:
            missing = [m for m in missing if m in self.only]
            unknown = [u for u in unknown if u in self.only]
        bad = []
        if missing:
            bad.append(f"{fname} does not receive {missing} as given to the constructor")
        # (a constructor option the function does not have - Tucker_NN(svd=...) - is accepted and ignored by the library: observed, no property speaks about it)
        if not data_ok:
            bad.append(f"{fname} does not receive the data given to fit_transform")
        if bad:
            return Verdict(REFUTED, "recording-stub provenance", "; ".join(bad), witness=dict(replayable=True, native_fails=True, observed="; ".join(bad)))
        return Verdict(PROVED, "recording-stub provenance", "", extra=dict(function=fname, options_the_function_does_not_have=unknown))

    def replay(self, witness):
        v = self.run()
        return v.status == PROVED, v.detail


def obligations(pid, select=None, only=None):
    return [WrapOb(pid, K, only) for m, K in classes() if select is None or K.__name__ in select]
