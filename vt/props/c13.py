"""C13  NNLS solvers return KKT-optimal non-negative solutions.

"Run to convergence" is a limit statement.  What a per-call contract can state — and what is PROVED here with E1-dense + z3
for all real data at enumerated sizes — is (i) every HALS row update is the exact minimiser of the one-row problem over
[eps, inf) at the current other rows (Gauss–Seidel), (ii) a sweep that changes nothing leaves a KKT point of the (penalised)
problem, (iii) a FISTA step that changes nothing leaves a KKT point, (iv) ADMM without constraints returns the solution of the
normal equations, (v) the default (cold) start of hals_nnls is defined - every division has a non-zero divisor - for every
positive definite Gram matrix and right-hand side.  The headline (converged output attains the reference optimum, cold or warm start) and the active-set
solver are covered only by a BOUNDED stand-in (native runs against scipy.optimize.nnls), reported separately.
"""
import itertools
import time

import numpy as np
import z3

from ..oblig import GOb, Obligation, Verdict, PROVED, REFUTED
from ..oblig_dense import DOb
from ..loopcut import LoopCut
from ..symint import atom
from .. import dense as D
from ..dense import d_and, d_or, d_implies, d_le, d_lt, d_eq, d_sum, d_max
from .. import gtensor as G
from .. import specs as SP

PID = "C13"
LEVEL = "proof"
USES_PRIMITIVES = True
TRUSTED_BASE = [
    "KKT conditions are sufficient for optimality of the convex (penalised) NNLS problems (L4)",
    "z3 QF_NRA (cvc5 for unknowns); numpy object-array semantics; tl.solve by contract",
    "bounded stand-in: scipy.optimize.nnls as the reference optimum",
]
ASSUMPTIONS = [
    "reals, not floats; sizes enumerated (rank <= 2 quick / 3 thorough, 1-2 right-hand sides): proved for all values at those sizes",
    "UtU is symmetric with positive diagonal (Gram matrix of a design without zero columns), positive definite for the cold-start obligation; penalties >= 0; eps >= 0",
    "convergence itself (the limit statement), warm/cold start equivalence and the active-set solver are decided only by the bounded stand-in",
]
QUANTIFICATION = "forall real UtU (symmetric, positive diagonal), UtM, current iterate, penalties; enumerated: sizes, penalty options; bounded: seeded native problems 1-8 unknowns x 1-5 right-hand sides"
EXPLANATION = "Row-update exactness and fixed-point => KKT implications decided by z3 on the terms produced by the real solver code."


def _sym_gram(I, r):
    """symmetric matrix from the upper-triangular symbols"""
    A = np.empty((r, r), dtype=object)
    for i in range(r):
        for j in range(r):
            A[i, j] = I["A"][min(i, j), max(i, j)]
    return A


class BoundedOb(Obligation):
    engine = "bounded-native"

    def __init__(self, name, function, fn, instance, bound):
        super().__init__(PID, name, function, instance=instance, clause="bounded stand-in", forall=[], enumerated=list(instance))
        self.fn, self.bound = fn, bound
        self.bounded = True

    def run(self):
        t0 = time.time()
        n, fails = self.fn()
        v = Verdict(PROVED if not fails else REFUTED, "bounded-native", "; ".join(fails[:3]), extra=dict(evaluations=n, bound=self.bound),
                    witness=dict(replayable=True, native_fails=True, failures=fails[:3]) if fails else None)
        v.time_s = time.time() - t0
        return v

    def replay(self, witness):
        n, fails = self.fn()
        return (not fails), "; ".join(fails[:3])


def obligations(tier):
    import tensorly as tl
    import tensorly.solvers.nnls as nn
    import tensorly.solvers.admm as adm

    obs = []
    sizes = [(1, 1), (2, 1), (2, 2)] + ([(3, 1)] if tier == "thorough" else [])

    def add(fn, tag, inputs, call, claims, instance, clause, params=None, pre=None, **kw):
        obs.append(DOb(PID, f"{PID}/solvers.nnls:{fn}/{clause}[{tag}]", f"tensorly.solvers.nnls:{fn}", inputs, call, claims, params=params, pre=pre, instance=instance, clause=clause, **kw))

    for (r, c) in sizes:
        for opt in ("plain", "sparsity", "ridge", "sparsity+ridge"):
            params = dict(eps=None)
            if "sparsity" in opt:
                params["ls"] = None
            if "ridge" in opt:
                params["lr_"] = None

            def pre(I, r=r, opt=opt):
                out = [I["eps"] >= 0] + [I["A"][i, i] > 0 for i in range(r)]
                if "ls" in I:
                    out.append(I["ls"] >= 0)
                if "lr_" in I:
                    out.append(I["lr_"] >= 0)
                return out

            def run_sweep(I, r=r, opt=opt):
                A = _sym_gram(I, r)
                cut = LoopCut(nn.hals_nnls)
                V0 = np.array(I["V"], dtype=object, copy=True)
                st = cut.prefix(I["B"], A, V0, n_iter_max=1, sparsity_coefficient=I.get("ls"), ridge_coefficient=I.get("lr_"), epsilon=I["eps"])
                st["V"] = np.array(I["V"], dtype=object, copy=True) if D.is_sym(I["eps"]) else np.array(I["V"], dtype=float, copy=True)
                kind, st2 = cut.body(st, 0)
                return st2["V"]

            def claims(I, out, r=r, c=c, opt=opt):
                A = _sym_gram(I, r)
                ls = I.get("ls", 0)
                lr_ = I.get("lr_", 0)
                eps = I["eps"]
                V = [[I["V"][k, j] for j in range(c)] for k in range(r)]
                res = []
                exact = []
                for k in range(r):  # Gauss–Seidel: rows < k already updated
                    for j in range(c):
                        b = I["B"][k, j] - d_sum([A[k, l] * V[l][j] for l in range(r) if l != k])
                        a = A[k, k] + 2 * lr_
                        # exact minimiser of a/2 v^2 - (b - ls) v over v >= eps  <=>  v = max(eps, (b - ls)/a)  <=>  (v >= eps) and (a v - (b - ls) >= 0) and ((v - eps)(a v - b + ls) == 0)
                        v = out[k, j]
                        g = a * v - (b - ls)
                        exact.append(d_and(d_le(eps, v), d_le(0, g), d_or(d_eq(v, eps), d_eq(g, 0))))
                    for j in range(c):
                        V[k][j] = out[k, j]
                res.append(("every row update is the exact minimiser of its one-row problem over [eps, inf) at the current other rows", d_and(*exact)))
                # fixed point => KKT of the whole (penalised) problem
                same = d_and(*[d_eq(out[k, j], I["V"][k, j]) for k in range(r) for j in range(c)])
                kkt = []
                for k in range(r):
                    for j in range(c):
                        g = d_sum([A[k, l] * I["V"][l, j] for l in range(r)]) - I["B"][k, j] + ls + 2 * lr_ * I["V"][k, j]
                        kkt.append(d_and(d_le(eps, I["V"][k, j]), d_le(0, g), d_or(d_eq(I["V"][k, j], eps), d_eq(g, 0))))
                res.append(("a sweep that changes nothing => the iterate satisfies the KKT conditions (bound eps)", d_implies(same, d_and(*kkt))))
                res.append(("result >= eps >= 0", d_and(*[d_le(eps, out[k, j]) for k in range(r) for j in range(c)])))
                return res
            add("hals_nnls", f"rank={r},columns={c},{opt}", dict(A=(r, r), B=(r, c), V=(r, c)), run_sweep, claims, dict(rank=r, columns=c, option=opt),
                "row updates exact ∧ fixed point ⇒ KKT", params=params, pre=pre, solver_timeout_ms=60000, check_domain=True)
        # ---- HALS cold start: the default initial iterate (clipped, rescaled least-squares solution) is defined - no 0/0 - for EVERY positive definite
        #      Gram matrix and right-hand side, in particular when every constraint is active at it (clipped solution = 0).  (Its sign is not claimed: the
        #      rescaling factor can be negative for strongly coupled columns, and the first sweep clips every row anyway - proved above from ANY iterate.)
        def pre_c(I, r=r):
            A = _sym_gram(I, r)
            minors = [A[0, 0] > 0]
            if r >= 2:
                minors.append(A[0, 0] * A[1, 1] - A[0, 1] * A[1, 0] > 0)
            if r >= 3:
                det3 = (A[0, 0] * (A[1, 1] * A[2, 2] - A[1, 2] * A[2, 1]) - A[0, 1] * (A[1, 0] * A[2, 2] - A[1, 2] * A[2, 0]) + A[0, 2] * (A[1, 0] * A[2, 1] - A[1, 1] * A[2, 0]))
                minors.append(det3 > 0)
            return minors

        def run_cold(I, r=r):
            A = _sym_gram(I, r)
            cut = LoopCut(nn.hals_nnls)
            st = cut.prefix(np.array(I["B"], copy=True), A, None, n_iter_max=1)
            return st["V"]

        def claims_c(I, out, r=r, c=c):
            return [("the default start has the shape of the right-hand side", tuple(np.shape(out)) == (r, c))]
        add("hals_nnls", f"rank={r},columns={c},cold start", dict(A=(r, r), B=(r, c)), run_cold, claims_c, dict(rank=r, columns=c, start="cold"),
            "default start defined (every division has a non-zero divisor)", pre=pre_c, solver_timeout_ms=60000, check_domain=True)
        # ---- FISTA: a step that changes nothing leaves a KKT point
        def pre_f(I, r=r):
            return [I["eps"] >= 0, I["lr"] > 0, I["ls"] >= 0, I["rr"] >= 0] + [I["A"][i, i] > 0 for i in range(r)]

        def run_fista(I, r=r):
            A = _sym_gram(I, r)
            cut = LoopCut(nn.fista)
            st = cut.prefix(I["B"], A, x=np.array(I["x"], copy=True), n_iter_max=1, sparsity_coef=I["ls"], ridge_coef=I["rr"], lr=I["lr"], epsilon=I["eps"])
            kind, st2 = cut.body(st, 0)
            return st2["x"]

        def claims_f(I, out, r=r, c=c):
            A = _sym_gram(I, r)
            eps = I["eps"]
            same = d_and(*[d_eq(out[k, j], I["x"][k, j]) for k in range(r) for j in range(c)])
            kkt = []
            for k in range(r):
                for j in range(c):
                    g = d_sum([A[k, l] * I["x"][l, j] for l in range(r)]) - I["B"][k, j] + I["ls"] + 2 * I["rr"] * I["x"][k, j]
                    kkt.append(d_and(d_le(eps, I["x"][k, j]), d_or(d_and(d_eq(I["x"][k, j], eps), d_le(0, g)), d_eq(g, 0))))
            return [("a projected-gradient step that changes nothing => KKT (bound eps)", d_implies(same, d_and(*kkt))),
                    ("iterate >= eps after a step", d_and(*[d_le(eps, out[k, j]) for k in range(r) for j in range(c)]))]
        add("fista", f"rank={r},columns={c}", dict(A=(r, r), B=(r, c), x=(r, c)), run_fista, claims_f, dict(rank=r, columns=c), "fixed point ⇒ KKT",
            params=dict(eps=None, lr=None, ls=None, rr=None), pre=pre_f, solver_timeout_ms=60000, check_domain=True)
    # ---- FISTA default step size: 1 / L with L = sigma_max(UtU) + 2 ridge the Lipschitz constant of the gradient the loop uses (UtU x - UtM + l1 + 2 ridge x);
    #      a larger step makes the accelerated projected-gradient iteration oscillate for strong ridge (E1-generic, all sizes; sigma_max by the SVD contract)
    def lr_setup(S):
        n, Rr = atom("n"), atom("R")
        return dict(_S=S, UtM=S.input("UtM", [Rr, n]), UtU=S.input("UtU", [Rr, Rr]), rr=S.input("rr", [], nonneg=True), ls=S.input("ls", [], nonneg=True))
    def lr_call(I):
        import tensorly as tl
        S = I["_S"]
        rec = {}
        def tsvd(M, *a, **k):
            rec["arg"] = M
            if S.name != "sym":
                from tensorly.tenalg.svd import truncated_svd as real
                out = real(M, *a, **k)
                rec["sigma"] = out[1][0]
                S.record("SIGMA", out[1][0])
                return out
            from ..iterative import real_dtype
            rec["sigma"] = G.opaque_tensor("SIGMA", [], real_dtype(M), nonneg=True)   # dtype contract of singular values: real, precision of the argument
            return None, [rec["sigma"]], None
        from ..iterative import stubbed as _st
        with _st(tl, truncated_svd=tsvd):
            cut = LoopCut(nn.fista)
            st = cut.prefix(I["UtM"], I["UtU"], n_iter_max=1, sparsity_coef=I["ls"], ridge_coef=I["rr"])
        return dict(lr=st["lr"], sigma=rec.get("sigma"), arg=rec.get("arg"))
    def lr_post(S, I, r):
        return [("the largest singular value is taken of UtU", r["arg"], I["UtU"]),
                ("default step size: lr ≡ 1 / (sigma_max + 2 ridge)", r["lr"], 1 / (r["sigma"] + 2 * I["rr"]))]
    obs.append(GOb(PID, f"{PID}/solvers.nnls:fista/default step size ≡ 1 / Lipschitz constant of the gradient[lr=None]", "tensorly.solvers.nnls:fista", lr_setup, lr_call, lr_post, tenalg="core",
                   instance=dict(lr=None), clause="default step size is 1 / (sigma_max(UtU) + 2 ridge)", forall=["sizes", "data", "penalties"], enumerated=[], side_nonzero=True))
    # ---- ADMM without constraints: the least-squares solution (E1-generic, all sizes)
    def setup(S):
        n, R = atom("n"), atom("R")
        return dict(_S=S, UtM=S.input("UtM", [n, R]), UtU=S.input("UtU", [R, R]), x=S.input("x", [n, R]), dual=S.input("dual", [n, R]))
    def call(I):
        del G.LA_LOG[:]
        x, xs, dual = adm.admm(I["UtM"], I["UtU"], I["x"], I["dual"], n_const=None)
        last = [c for c in G.LA_LOG if c["op"] == "solve"][-1]
        return dict(x=x, A=last["A"], B=last["B"], X=last["X"])
    def post(S, I, r):
        return [("solve is called with (UtUᵀ, UtMᵀ)", [r["A"], r["B"]], [S.group(I["UtU"], [[1], [0]]), S.group(I["UtM"], [[1], [0]])]),
                ("the result is that solution transposed, i.e. x·UtU = UtM", r["x"], S.group(r["X"], [[1], [0]]))]
    obs.append(GOb(PID, f"{PID}/solvers.admm:admm/unconstrained ⇒ normal-equation solution[n_const=None]", "tensorly.solvers.admm:admm", setup, call, post, tenalg="core",
                   instance=dict(n_const=None), clause="unconstrained ADMM returns the least-squares solution", forall=["sizes", "data"], enumerated=["n_const"]))
    # ---- bounded stand-in: converged outputs vs scipy.optimize.nnls
    def bounded():
        n1, f1 = bounded_cases(0, (1, 3), True)
        if tier != "thorough":
            return n1, f1
        # thorough: more right-hand sides; the warm-started active set is exercised on the seed-0 cases above only - on further random problems it is known
        # to stop at non-optimal points (known finding, pinned by explicit witnesses below), and those cases would hide a new regression behind an old one
        n2, f2 = bounded_cases(1, (2, 5), False)
        return n1 + n2, f1 + f2
    def bounded_cases(seed, rhs_list, warm_active_set):
        import warnings
        warnings.simplefilter("ignore")
        from scipy.optimize import nnls as sp_nnls
        rng = np.random.RandomState(seed)
        n_eval, fails = 0, []
        for n_unk in range(1, 9):
            for n_rhs in rhs_list:
                for kind in ("signed", "nonneg"):
                    U = rng.standard_normal((n_unk + 4, n_unk))
                    if kind == "nonneg":
                        U = np.abs(U)
                    M = U @ np.maximum(rng.standard_normal((n_unk, n_rhs)), 0) + (0.1 if n_rhs == 1 else 0.5) * rng.standard_normal((n_unk + 4, n_rhs))  # larger noise: more active constraints
                    UtU, UtM = U.T @ U, U.T @ M
                    ref = np.stack([sp_nnls(U, M[:, j])[0] for j in range(n_rhs)], 1)
                    fref = 0.5 * np.linalg.norm(U @ ref - M) ** 2
                    for start in ("cold", "warm"):
                        V0 = None if start == "cold" else np.abs(rng.standard_normal((n_unk, n_rhs)))
                        V = nn.hals_nnls(UtM.copy(), UtU.copy(), None if V0 is None else V0.copy(), n_iter_max=5000, tol=1e-14)
                        f = 0.5 * np.linalg.norm(U @ V - M) ** 2
                        n_eval += 1
                        if V.min() < 0 or f > fref * (1 + 1e-6) + 1e-9:
                            fails.append(f"hals_nnls {kind} {n_unk}x{n_rhs} {start}: objective {f:.6e} vs reference {fref:.6e}, min {V.min():.2e}")
                        x = nn.fista(UtM.copy(), UtU.copy(), x=None if V0 is None else V0.copy(), n_iter_max=20000, tol=1e-16, epsilon=0.0)
                        f = 0.5 * np.linalg.norm(U @ x - M) ** 2
                        n_eval += 1
                        if x.min() < 0 or f > fref * (1 + 1e-4) + 1e-8:
                            fails.append(f"fista {kind} {n_unk}x{n_rhs} {start}: objective {f:.6e} vs reference {fref:.6e}")
                    for j in range(n_rhs):
                        fr = 0.5 * np.linalg.norm(U @ ref[:, j] - M[:, j]) ** 2
                        wrong = (ref[:, j] <= 0).astype(float) + 0.5 * rng.rand(n_unk) * (rng.rand(n_unk) > 0.5)  # a guess supported where the solution is not
                        starts = [("cold", None), ("warm: perturbed solution", ref[:, j] + 0.1 * np.abs(rng.standard_normal(n_unk))), ("warm: all ones", np.ones(n_unk)),
                                  ("warm: wrong support", wrong), ("warm: large", 10 * np.abs(rng.standard_normal(n_unk)))]
                        for sname, x0 in (starts if warm_active_set else starts[:1]):
                            xa = nn.active_set_nnls(UtM[:, j].copy(), UtU.copy(), x=None if x0 is None else x0.copy(), n_iter_max=500)
                            f = 0.5 * np.linalg.norm(U @ xa - M[:, j]) ** 2
                            n_eval += 1
                            if xa.min() < -1e-12 or f > fr * (1 + 1e-6) + 1e-9:
                                fails.append(f"active_set_nnls {kind} {n_unk} unknowns rhs {j} {sname}: objective {f:.6e} vs reference {fr:.6e}")
        # one unknown, negative right-hand side, warm start: the optimum is 0 (these starts leave a rounding residue in the boundary step)
        for (a, b, x0) in ((1.5274520456522023, -1.0192353864204196, 0.9427268757652605), (0.13158337098383913, -0.2990114125889121, 0.8743391365446918),
                           (0.22370087487875204, -0.036171402007042386, 0.2440761643501634)):
            xa = nn.active_set_nnls(np.array([b]), np.array([[a]]), x=np.array([x0]), n_iter_max=500)
            n_eval += 1
            if xa.min() < 0 or abs(xa[0]) > 1e-12:
                fails.append(f"active_set_nnls 1 unknown, UtU=[[{a:.6g}]], UtM=[{b:.6g}], warm start [{x0:.6g}]: returns {xa.tolist()} (optimum 0, and a solution must be non-negative)")
        return n_eval, fails
    def bounded_witnesses():
        """explicit well-conditioned 2-unknown problems on which the warm-started active set stops at a non-optimal point (reference: enumeration of the 4 supports)"""
        W = [dict(UtU=[[3.9576871688374413, 1.9181917178011336], [1.9181917178011336, 2.2612114132159564]], UtM=[-0.2796602380231369, 1.5533093533050115], x0=[0.05075028826006253, 0.7644143906408309]),
             dict(UtU=[[9.077816028543607, 5.241659741048247], [5.241659741048247, 4.267446683887158]], UtM=[2.866501583530948, 0.638773448582892], x0=[1.0, 1.0])]
        n_eval, fails = 0, []
        for k, w in enumerate(W):
            UtU, UtM, x0 = (np.array(w[q]) for q in ("UtU", "UtM", "x0"))
            xa = nn.active_set_nnls(UtM.copy(), UtU.copy(), x=x0.copy(), n_iter_max=500)
            best = None
            for S in ([], [0], [1], [0, 1]):
                x = np.zeros(2)
                if S:
                    x[S] = np.linalg.solve(UtU[np.ix_(S, S)], UtM[S])
                if (x >= -1e-12).all():
                    f = 0.5 * x @ UtU @ x - UtM @ x
                    best = f if best is None or f < best else best
            fa = 0.5 * xa @ UtU @ xa - UtM @ xa
            n_eval += 1
            if xa.min() < -1e-12 or fa > best + 1e-9:
                fails.append(f"active_set_nnls witness {k} (2 unknowns, warm start {w['x0']}): objective {fa:.6f} at the returned point {np.round(xa, 4).tolist()}, optimum {best:.6f}")
        return n_eval, fails
    obs.append(BoundedOb(f"{PID}/bounded/active_set_nnls from a warm start attains the optimum on the recorded witnesses", "tensorly.solvers.nnls:active_set_nnls", bounded_witnesses,
                         dict(witnesses=2), "two explicit 2-unknown problems; reference by enumeration of the supports"))
    obs.append(BoundedOb(f"{PID}/bounded/converged outputs attain the reference NNLS optimum", "tensorly.solvers.nnls:hals_nnls+fista+active_set_nnls", bounded,
                         dict(unknowns="1-8", rhs="1,3 (1,2,5 thorough)"), "seed 0; signed and non-negative designs; cold start and 1 (HALS, FISTA) / 4 (active set) kinds of warm start; reference scipy.optimize.nnls"))
    return obs


def canaries(tier):
    import tensorly.solvers.nnls as nn
    def run(I):
        A = _sym_gram(I, 2)
        cut = LoopCut(nn.hals_nnls)
        st = cut.prefix(I["B"], A, np.array(I["V"], dtype=object, copy=True), n_iter_max=1, epsilon=I["eps"])
        kind, st2 = cut.body(st, 0)
        return st2["V"]
    def claims(I, out):
        # wrong claim: the update ignores the other row (must be refuted)
        return [("row 0 minimises its problem ignoring row 1", d_or(d_eq(out[0, 0], I["eps"]), d_eq(I["A"][0, 0] * out[0, 0], I["B"][0, 0])))]
    return [DOb(PID, f"{PID}/canary/hals-row-ignores-coupling", "tensorly.solvers.nnls:hals_nnls", dict(A=(2, 2), B=(2, 1), V=(2, 1)), run, claims, params=dict(eps=None),
                pre=lambda I: [I["eps"] >= 0, I["A"][0, 0] > 0, I["A"][1, 1] > 0], instance={}, clause="canary", check_domain=False)]
