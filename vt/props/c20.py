"""C20  Factor-similarity metrics are optimal and invariant to CP indeterminacies.

* Error metrics (MSE, RMSE, R2_score, reflective correlation, covariance, variance, standard deviation, correlation): E1-generic, the real functions
  against their definitions in cleared-denominator polynomial form, all sizes, every axis argument of orders 1-3.
* congruence_coefficient and correlation_index: E1-dense (real numpy object arrays of z3 reals, enumerated small shapes, all values).  The assignment
  solver scipy.optimize.linear_sum_assignment is a dependency used by contract (returns an assignment minimising the total cost): the cost matrix the real
  code hands to it is proved to be minus the product over modes of the (absolute) column cosines, the returned value the mean of the selected entries and
  the returned permutation the assignment; with absolute values every entry lies in [0, 1] (Cauchy-Schwarz, supplied to the solver as a lemma instance -
  trusted lemma L5) and so does the coefficient; for a column-permuted, column-rescaled (sign-flipped) copy the entries selected by the recovering permutation
  are all 1, the optimum.  correlation_index lies in [0, 1] and is 0 for such copies, for all four methods.
* Optimality over all matchings (the solver's contract), leverage-score distributions and cp_permute_factors alignment on native data: bounded stand-in
  with brute force over all R! matchings, R <= 6 - labelled bounded, never counted as proved.  (Tensor preservation by cp_permute_factors is proved in C04.)
"""
import itertools
import time

import numpy as np

from ..oblig import GOb
from ..oblig_dense import DOb
from ..symint import atom
from ..iterative import stubbed
from .. import gtensor as G
from .. import dense as D
from ..dense import d_and, d_or, d_implies, d_le, d_lt, d_eq, d_abs, d_sum

PID = "C20"
LEVEL = "proof"
TRUSTED_BASE = [
    "scipy.optimize.linear_sum_assignment returns a complete assignment of minimal total cost (contract; exercised against brute force by the bounded stand-in)",
    "L5 Cauchy-Schwarz: (sum a_k b_k)^2 <= (sum a_k^2)(sum b_k^2) - given to the solver as lemma instances for the column pairs involved",
    "reals for floats; numpy primitive contracts; sqrt / division introduce defined fresh variables with domain obligations (dense engine)",
]
ASSUMPTIONS = [
    "dense obligations at enumerated shapes: 2-3 rows, ranks 1-3 (quick: up to 2x2 and 3x2), one or two matrices per list",
    "columns of the compared matrices are non-zero (the functions raise otherwise); scalings of equivalent factor sets are non-zero",
    "the tolerance cut-off of correlation_index (score < tol -> 0) only maps small values to 0",
    "correlation_index wrapper (mode-wise methods): the scoring function enters by its contract (recording stub returning fixed distinct scores); method 'stacked' is the known finding and has no such obligation",
]
QUANTIFICATION = "forall entries (reals) at the enumerated shapes; forall sizes for the error metrics; enumerated: shapes, ranks, permutations, sign patterns, absolute_value, methods, axis"
EXPLANATION = "Definitions in cleared-denominator form; assignment solver by contract; Cauchy-Schwarz as a lemma instance."


def dims(N, p="n"):
    return [atom(f"{p}{k}") for k in range(N)]


def obligations(tier):
    import tensorly as tl
    import tensorly.metrics.regression as mr
    import tensorly.metrics.factors as mf
    import tensorly.metrics.similarity as ms

    obs = []

    def add(fn, tag, setup, call, post, instance, clause, **kw):
        obs.append(GOb(PID, f"{PID}/metrics.regression:{fn}/{clause}[{tag}]", f"tensorly.metrics.regression:{fn}", setup, call, post, tenalg="core", instance=instance, clause=clause,
                       forall=["sizes", "entries"], enumerated=list(instance), **kw))

    # ====================================================================== error metrics ≡ definitions
    for N in (1, 2, 3):
        for axis in [None] + list(range(N)) + list(range(-N, 0)):
            def setup(S, N=N):
                n = dims(N)
                return dict(_S=S, n=n, a=S.input("a", n), b=S.input("b", n))
            def cnt(S, I, axis=axis):
                if axis is None:
                    c = 1
                    for s in I["n"]:
                        c = c * S.size(s) if not isinstance(c, int) else S.size(s)
                    return c
                return S.size(I["n"][axis])
            def sm(S, t, axis=axis, N=N):
                return S.sum(t, axis=axis if axis is None else axis % N)
            tag = f"order={N},axis={axis}"
            inst = dict(order=N, axis=axis)
            add("MSE", tag, setup, lambda I, axis=axis: mr.MSE(I["a"], I["b"], axis=axis),
                lambda S, I, r, cnt=cnt, sm=sm: [("MSE · count ≡ Σ (a − b)²", r * cnt(S, I), sm(S, (I["a"] - I["b"]) ** 2))], inst, "≡ definition (denominators cleared)")
            add("RMSE", tag, setup, lambda I, axis=axis: mr.RMSE(I["a"], I["b"], axis=axis),
                lambda S, I, r, cnt=cnt, sm=sm: [("RMSE² · count ≡ Σ (a − b)²", r ** 2 * cnt(S, I), sm(S, (I["a"] - I["b"]) ** 2))], inst, "≡ definition (denominators cleared)")
            add("reflective_correlation_coefficient", tag, setup, lambda I, axis=axis: mr.reflective_correlation_coefficient(I["a"], I["b"], axis=axis),
                lambda S, I, r, sm=sm: [("r ≡ Σ a b / sqrt(Σa² Σb²)", r, sm(S, I["a"] * I["b"]) / S.sqrt(sm(S, I["a"] ** 2) * sm(S, I["b"] ** 2)))], inst, "≡ definition")
            def cov_spec(S, I, x, y, cnt=cnt, sm=sm):
                return cnt(S, I) * sm(S, x * y) - sm(S, x) * sm(S, y)     # = count² · covariance
            add("covariance", tag, setup, lambda I, axis=axis: mr.covariance(I["a"], I["b"], axis=axis),
                lambda S, I, r, cnt=cnt, cov_spec=cov_spec: [("cov · count² ≡ count·Σab − Σa·Σb", r * cnt(S, I) * cnt(S, I), cov_spec(S, I, I["a"], I["b"]))], inst, "≡ definition (denominators cleared)")
            add("variance", tag, setup, lambda I, axis=axis: mr.variance(I["a"], axis=axis),
                lambda S, I, r, cnt=cnt, cov_spec=cov_spec: [("var · count² ≡ count·Σa² − (Σa)²", r * cnt(S, I) * cnt(S, I), cov_spec(S, I, I["a"], I["a"]))], inst, "≡ definition (denominators cleared)")
            add("standard_deviation", tag, setup, lambda I, axis=axis: mr.standard_deviation(I["a"], axis=axis),
                lambda S, I, r, cnt=cnt, cov_spec=cov_spec: [("std² · count² ≡ count·Σa² − (Σa)²", r ** 2 * cnt(S, I) * cnt(S, I), cov_spec(S, I, I["a"], I["a"]))], inst, "≡ definition (denominators cleared)")
            add("correlation", tag, setup, lambda I, axis=axis: mr.correlation(I["a"], I["b"], axis=axis),
                lambda S, I, r, cov_spec=cov_spec, cnt=cnt: [("corr ≡ cov / sqrt(var a · var b), each in its Σ-form", r,
                                                            (cov_spec(S, I, I["a"], I["b"]) / (cnt(S, I) * cnt(S, I))) / S.sqrt((cov_spec(S, I, I["a"], I["a"]) / (cnt(S, I) * cnt(S, I))) * (cov_spec(S, I, I["b"], I["b"]) / (cnt(S, I) * cnt(S, I)))))],
                inst, "≡ definition")
        def setup2(S, N=N):
            n = dims(N)
            return dict(_S=S, n=n, a=S.input("a", n), b=S.input("b", n))
        add("R2_score", f"order={N}", setup2, lambda I: mr.R2_score(I["a"], I["b"]),
            lambda S, I, r: [("R² ≡ 1 − ‖X̂ − X‖² / ‖X‖²", r, 1 - S.sumsq(I["b"] - I["a"]) / S.sumsq(I["a"]))], dict(order=N), "≡ definition")
    # ====================================================================== congruence_coefficient: assignment solver by contract (E1-generic: all row counts)
    class _T:
        """tensorly.backend with to_numpy as the identity (a pure conversion); everything else is the real dispatcher"""
        def __getattr__(self, k):
            import tensorly.backend as real
            if k == "to_numpy":
                return lambda t: t
            return getattr(real, k)
    for Rk in (1, 2, 3):
        for n_mats in (1, 2):
            for av in (True, False):
                perms = list(itertools.permutations(range(Rk)))
                if tier == "quick" and len(perms) > 2:
                    perms = [perms[0], perms[3], perms[-1]]
                for perm in perms:
                    def setup(S, Rk=Rk, n_mats=n_mats):
                        d = dict(_S=S)
                        for m in range(n_mats):
                            nm = atom(f"n{m}")
                            d[f"U{m}"] = S.input(f"U{m}", [nm, Rk])
                            d[f"V{m}"] = S.input(f"V{m}", [nm, Rk])
                        return d
                    def call(I, Rk=Rk, n_mats=n_mats, av=av, perm=perm):
                        S = I["_S"]
                        rec = {}
                        def lsa(cost):
                            rec["cost"] = cost
                            return np.arange(Rk), np.array(perm)
                        M1 = [I[f"U{m}"] for m in range(n_mats)]
                        M2 = [I[f"V{m}"] for m in range(n_mats)]
                        stubs = dict(linear_sum_assignment=lsa)
                        if S.name == "sym":
                            stubs["T"] = _T()
                        try:
                            with stubbed(mf, **stubs):
                                val, p = mf.congruence_coefficient(M1[0] if n_mats == 1 else M1, M2[0] if n_mats == 1 else M2, absolute_value=av)
                        except ValueError as e:
                            if "nonzero l2 norm" in str(e):
                                return dict(raised=True)    # documented error contract for a zero column: nothing to claim on that path
                            raise
                        return dict(val=val, perm=[int(x) for x in p], cost=rec["cost"])
                    def post(S, I, r, Rk=Rk, n_mats=n_mats, av=av, perm=perm):
                        if r.get("raised"):
                            return []
                        want = None
                        for m in range(n_mats):
                            U, V = I[f"U{m}"], I[f"V{m}"]
                            Un = U / S.sqrt(S.einsum("ir,ir->r", U, U))
                            Vn = V / S.sqrt(S.einsum("ir,ir->r", V, V))
                            c = S.einsum("ia,ib->ab", Un, Vn)
                            if av:
                                c = S.abs(c)
                            want = c if want is None else want * c
                        sel = None
                        for i in range(Rk):
                            e = S.take(S.take(want, 0, i), 0, perm[i])
                            sel = e if sel is None else sel + e
                        return [("the cost matrix handed to the assignment solver ≡ − Π_modes (|·|) cosines of the normalised columns", r["cost"], -1 * want),
                                ("the returned value ≡ mean of the entries selected by the assignment", r["val"] * Rk, sel),
                                ("the returned permutation ≡ the assignment", r["perm"], list(perm))]
                    obs.append(GOb(PID, f"{PID}/metrics.factors:congruence_coefficient/cost matrix ≡ −Π cosines ∧ value ≡ mean of the selected entries ∧ permutation ≡ assignment[rank={Rk},matrices={n_mats},absolute_value={av},assignment={list(perm)}]",
                                   "tensorly.metrics.factors:congruence_coefficient", setup, call, post, tenalg="core", instance=dict(rank=Rk, matrices=n_mats, absolute_value=av, assignment=list(perm)),
                                   clause="cost matrix ≡ −Π cosines ∧ value ≡ mean of the selected entries ∧ permutation ≡ assignment", forall=["row counts", "entries"], enumerated=["rank", "matrices", "absolute_value", "assignment"]))
    # ====================================================================== cp_permute_factors: aligned components (the obligations of C04 on the same call sites:
    # with the assignment solver by contract, column j of every permuted factor is the column the assignment matched to reference component j, the weights
    # follow, and the tensor is preserved)
    from . import c04
    for ob in c04.obligations(tier):
        if type(ob) is GOb and ob.function.endswith(":cp_permute_factors"):
            obs.append(GOb(PID, f"{PID}/" + ob.name.split("/", 1)[1], ob.function, ob.setup, ob.call, ob.post, tenalg=ob.tenalg, assumptions=ob.assumptions, side_nonzero=ob.side_nonzero,
                           instance=dict(ob.instance, source="C04"), clause=ob.clause, forall=list(ob.forall), enumerated=list(ob.enumerated)))
    # ====================================================================== correlation index: the scoring formula (E1-dense; the columns arrive normalised)
    from ..dense import d_max
    # (ranks 1, 2, 4: the code multiplies by the float 1/(2R), which is exact only for powers of two - with R = 3 the real-arithmetic identity is false by one rounding)
    for (n, Rk) in [(2, 1), (2, 2), (3, 2)] + ([(2, 4)] if tier == "thorough" else []):
        def call(I):
            return ms._compute_correlation_index(I["x1"], I["x2"], tol=0.0)
        def claims(I, out, n=n, Rk=Rk):
            c = [[d_abs(d_sum([I["x1"][k, i] * I["x2"][k, j] for k in range(n)])) for j in range(Rk)] for i in range(Rk)]
            rows = d_sum([d_abs(d_max([c[i][j] for j in range(Rk)]) - 1) for i in range(Rk)])
            colsum = d_sum([d_abs(d_max([c[i][j] for i in range(Rk)]) - 1) for j in range(Rk)])
            return [("score · 2R ≡ Σ_rows |max_j |x1_i·x2_j| − 1| + Σ_columns |max_i |x1_i·x2_j| − 1| (or 0 below the tolerance)", d_eq(out * (2 * Rk), rows + colsum))]
        obs.append(DOb(PID, f"{PID}/metrics.similarity:_compute_correlation_index/score ≡ definition[{n}x{Rk}]", "tensorly.metrics.similarity:_compute_correlation_index", dict(x1=(n, Rk), x2=(n, Rk)), call, claims,
                       instance=dict(shape=f"{n}x{Rk}"), clause="score ≡ definition (row and column maxima)", check_domain=False))
    # ====================================================================== correlation_index, mode-wise methods: the scoring formula (by its contract, above) is
    # applied to each pair of factor matrices with columns normalised IN THAT MODE - which is what makes the index 0 for copies rescaled differently in each mode -
    # and the scores are combined as the method says
    for method, comb in (("max_score", max), ("min_score", min), ("avg_score", lambda v: sum(v) / len(v))):
        for n_mats in (1, 2, 3):
            def setup(S, n_mats=n_mats):
                d = dict(_S=S)
                R = atom("R")
                for m in range(n_mats):
                    nm = atom(f"n{m}")
                    d[f"U{m}"] = S.input(f"U{m}", [nm, R])
                    d[f"V{m}"] = S.input(f"V{m}", [nm, R])
                return d
            def call(I, method=method, n_mats=n_mats):
                rec = []
                scores = [0.375, 0.125, 0.25]
                def cci(x1, x2, tol=5e-16):
                    rec.append((x1, x2, tol))
                    return scores[len(rec) - 1]
                try:
                    with stubbed(ms, _compute_correlation_index=cci):
                        out = ms.correlation_index([I[f"U{m}"] for m in range(n_mats)], [I[f"V{m}"] for m in range(n_mats)], method=method, tol=1e-12)
                except ValueError as e:
                    if "non-zero" in str(e):
                        return dict(raised=True)       # documented error for a zero column
                    raise
                return dict(out=out, rec=rec, scores=scores[:len(rec)])
            def post(S, I, r, method=method, comb=comb, n_mats=n_mats):
                if r.get("raised"):
                    return []
                out = [("one scoring call per mode, with the caller's tolerance", [len(r["rec"])] + [t for _, _, t in r["rec"]], [n_mats] + [1e-12] * n_mats),
                       ("the scores are combined as the method says", r["out"], comb(r["scores"]))]
                for m, (x1, x2, _) in enumerate(r["rec"][:n_mats]):
                    U, V = I[f"U{m}"], I[f"V{m}"]
                    out.append((f"mode {m}: first argument ≡ factor with its own columns normalised", x1, U / S.sqrt(S.einsum("ir,ir->r", U, U))))
                    out.append((f"mode {m}: second argument ≡ factor with its own columns normalised", x2, V / S.sqrt(S.einsum("ir,ir->r", V, V))))
                return out
            obs.append(GOb(PID, f"{PID}/metrics.similarity:correlation_index/per-mode column normalisation ∧ scores combined per method[method={method},matrices={n_mats}]",
                           "tensorly.metrics.similarity:correlation_index", setup, call, post, tenalg="core", instance=dict(method=method, matrices=n_mats), side_nonzero=True,
                           clause="per-mode column normalisation ∧ scores combined per method", forall=["row counts", "rank", "entries"], enumerated=["method", "matrices"]))
    # ====================================================================== bounded stand-in: optimality by brute force, ranges, invariances, leverage scores
    def bounded():
        import warnings
        warnings.simplefilter("ignore")
        from tensorly.metrics import congruence_coefficient, correlation_index
        from tensorly.metrics.leverage_scores import leverage_score_dist
        from tensorly.cp_tensor import CPTensor, cp_permute_factors, cp_to_tensor
        rng = np.random.RandomState(0)
        n_eval, fails = 0, []
        def cosmat(Us, Vs, av):
            M = 1.0
            for U, V in zip(Us, Vs):
                c = (U / np.linalg.norm(U, axis=0)).T @ (V / np.linalg.norm(V, axis=0))
                M = M * (np.abs(c) if av else c)
            return M
        for Rk in range(1, 7 if tier == "thorough" else 6):
            for n_mats in (1, 2, 3):
                for trial in range(2):
                    Us = [rng.standard_normal((rng.randint(Rk, Rk + 4), Rk)) for _ in range(n_mats)]
                    Vs = [rng.standard_normal(U.shape) for U in Us]
                    for av in (True, False):
                        val, perm = congruence_coefficient(Us[0] if n_mats == 1 else Us, Vs[0] if n_mats == 1 else Vs, absolute_value=av)
                        M = cosmat(Us, Vs, av)
                        best = max(np.mean([M[i, p[i]] for i in range(Rk)]) for p in itertools.permutations(range(Rk)))
                        n_eval += 1
                        if abs(val - best) > 1e-10:
                            fails.append(f"congruence_coefficient rank {Rk}, {n_mats} matrices, absolute_value={av}: {val} but the best matching gives {best}")
                        if abs(np.mean([M[i, perm[i]] for i in range(Rk)]) - val) > 1e-10 or sorted(perm) != list(range(Rk)):
                            fails.append(f"congruence_coefficient rank {Rk}: the returned permutation {perm} does not attain the returned value")
                        if av and not (-1e-12 <= val <= 1 + 1e-12):
                            fails.append(f"congruence_coefficient rank {Rk}: value {val} outside [0, 1]")
                    # equivalent factor sets: column permutation x non-zero scalings (sign flips)
                    sigma = rng.permutation(Rk)
                    ds = [rng.uniform(0.5, 3, Rk) * rng.choice([-1, 1], Rk) for _ in range(n_mats)]
                    Ws = [U[:, sigma] * d for U, d in zip(Us, ds)]
                    val, perm = congruence_coefficient(Us[0] if n_mats == 1 else Us, Ws[0] if n_mats == 1 else Ws)
                    rec = [int(np.where(sigma == i)[0][0]) for i in range(Rk)]
                    n_eval += 1
                    if abs(val - 1) > 1e-10 or list(perm) != rec:
                        fails.append(f"congruence_coefficient rank {Rk}, {n_mats} matrices: a permuted / rescaled copy gives {val}, permutation {list(perm)} (recovering: {rec})")
                    Wsame = [U[:, sigma] * ds[0] for U in Us]    # the same column scaling in every mode
                    for method in ("stacked", "max_score", "min_score", "avg_score"):
                        # (the 'stacked' method normalises the vertically stacked columns: scalings that differ between the modes are stated separately below)
                        sc = float(correlation_index(Us, Wsame if method == "stacked" else Ws, method=method))
                        sc2 = float(correlation_index(Us, Vs, method=method))
                        n_eval += 2
                        if abs(sc) > 1e-10:
                            fails.append(f"correlation_index[{method}] rank {Rk}: {sc} for a permuted / rescaled copy (expected 0)")
                        if not (-1e-12 <= sc2 <= 1 + 1e-12):
                            fails.append(f"correlation_index[{method}] rank {Rk}: {sc2} outside [0, 1]")
                    if Rk >= 2:
                        # 'exactly': a factor set with a repeated component is NOT equivalent, in either order of the arguments
                        Wdup = [W.copy() for W in Ws]
                        for W in Wdup:
                            W[:, 1] = W[:, 0]
                        for a_, b_ in ((Us, Wdup), (Wdup, Us)):
                            for method in ("stacked", "max_score", "avg_score"):
                                n_eval += 1
                                if float(correlation_index(a_, b_, method=method)) <= 1e-9:
                                    fails.append(f"correlation_index[{method}] rank {Rk}: 0 for a factor set with a repeated component (not an equivalent set)")
                    if n_mats == 3:
                        w = rng.uniform(0.5, 2, Rk)
                        ref = CPTensor((w, [U.copy() for U in Us]))
                        tgt = CPTensor((w[sigma] / np.prod([np.abs(d) for d in ds], axis=0) * 0 + w[sigma], [W.copy() for W in Ws]))
                        out, perms = cp_permute_factors(ref, tgt)
                        n_eval += 1
                        for U, F in zip(Us, out.factors):
                            c = np.abs(np.sum((U / np.linalg.norm(U, axis=0)) * (F / np.linalg.norm(F, axis=0)), axis=0))
                            if np.any(np.abs(c - 1) > 1e-8):
                                fails.append(f"cp_permute_factors rank {Rk}: components are not aligned with the reference (column cosines {c})")
                                break
                        if not np.allclose(cp_to_tensor(out), cp_to_tensor(tgt)):
                            fails.append(f"cp_permute_factors rank {Rk}: the permuted tensor is a different tensor")
        for dt in (np.float64, np.float32):
            for shape, rank in (((8, 3), 3), ((9, 4), 2), ((5, 5), 5), ((12, 3), 1)):
                A = (rng.standard_normal((shape[0], rank)) @ rng.standard_normal((rank, shape[1]))).astype(dt)
                p = np.asarray(leverage_score_dist(A))
                n_eval += 1
                if p.min() < 0 or abs(p.sum() - 1) > 1e-6 or p.shape != (shape[0],):
                    fails.append(f"leverage_score_dist {shape} rank {rank} {np.dtype(dt).name}: min {p.min()}, sum {p.sum()}")
        return n_eval, fails
    def bounded_stacked():
        from tensorly.metrics import correlation_index
        rng = np.random.RandomState(1)
        n_eval, fails = 0, []
        for Rk in (1, 2, 3):
            Us = [rng.standard_normal((n, Rk)) for n in (4, 5, 6)]
            sigma = rng.permutation(Rk)
            for kind in ("per-mode scalings", "per-mode sign flips"):
                ds = [(rng.uniform(0.5, 3, Rk) if kind == "per-mode scalings" else np.ones(Rk)) * rng.choice([-1.0, 1.0], Rk) for _ in Us]
                if all(np.allclose(d, ds[0]) for d in ds):
                    ds[1] = -ds[1]
                sc = float(correlation_index(Us, [U[:, sigma] * d for U, d in zip(Us, ds)], method="stacked"))
                n_eval += 1
                if abs(sc) > 1e-10:
                    fails.append(f"correlation_index[stacked] rank {Rk}, {kind}: {sc:.4f} for a column-permuted, column-rescaled copy (expected 0)")
        return n_eval, fails
    from .c09 import BoundedOb
    obs.append(BoundedOb(f"{PID}/bounded/correlation_index[stacked] is 0 for copies rescaled differently in each mode", "tensorly.metrics.similarity:correlation_index", bounded_stacked,
                         dict(method="stacked", ranks="1-3"), "seed 1; per-mode scalings and per-mode sign flips", pid=PID))
    obs.append(BoundedOb(f"{PID}/bounded/optimality against brute force, ranges, invariance under permutation and rescaling, leverage-score distributions", "tensorly.metrics + tensorly.cp_tensor:cp_permute_factors", bounded,
                         dict(ranks="1-5 (6 thorough)", matrices="1-3 per list", methods="all four correlation-index methods"), "seed 0; all R! matchings enumerated", pid=PID))
    return obs


def canaries(tier):
    import tensorly.metrics.regression as mr
    def setup(S):
        n = dims(2)
        return dict(_S=S, n=n, a=S.input("a", n), b=S.input("b", n))
    return [GOb(PID, f"{PID}/canary/mse-is-sum-of-squares", "tensorly.metrics.regression:MSE", setup, lambda I: mr.MSE(I["a"], I["b"]),
                lambda S, I, r: [("MSE ≡ Σ (a − b)² (must fail: the count is missing)", r, S.sum((I["a"] - I["b"]) ** 2))], tenalg="core", instance={}, clause="canary")]
