"""Native reproducibility survey used by the bounded stand-in of C16 (never counted as proved): every seed-accepting public entry point is
called twice with the same seed (an int, and two identically seeded generators) with numpy's global generator reseeded and advanced in between;
the results must agree bit for bit and a call with an integer seed must leave numpy.random.get_state() untouched."""
import warnings

import numpy as np


def leaves(x, out=None, seen=None, depth=0):
    out = out if out is not None else []
    seen = seen if seen is not None else set()
    if x is None or isinstance(x, (str, bytes)) or depth > 8:
        return out
    if isinstance(x, (bool, int, float, complex, np.ndarray, np.generic)):
        out.append(np.asarray(x))
        return out
    if isinstance(x, np.random.RandomState) or id(x) in seen:
        return out
    seen.add(id(x))
    if isinstance(x, dict):
        for k in sorted(x, key=str):
            leaves(x[k], out, seen, depth + 1)
    elif isinstance(x, (list, tuple)):
        for v in x:
            leaves(v, out, seen, depth + 1)
    elif hasattr(x, "__dict__") and type(x).__module__.startswith("tensorly"):
        for k in sorted(vars(x)):
            if not k.startswith("__"):
                leaves(vars(x)[k], out, seen, depth + 1)
    return out


def cases():
    """name -> f(random_state); inputs are built once, outside the calls"""
    import tensorly as tl
    from tensorly import decomposition as D, random as R, regression as RG
    from tensorly.tenalg import svd as SV
    from tensorly.decomposition import _cp, _tucker, _parafac2, _constrained_cp
    import tensorly.contrib.decomposition as CD
    g = np.random.RandomState(42)
    X = g.standard_normal((5, 6, 7))
    Xp = np.abs(X) + 0.1
    Mx = g.standard_normal((12, 9))
    mask = (g.rand(5, 6, 7) > 0.2).astype(float)
    Xr, y, Y2 = g.standard_normal((14, 3, 4)), g.standard_normal(14), g.standard_normal((14, 2))
    slices = [g.standard_normal((n, 5)) for n in (6, 7, 8)]
    out = {}
    out["random_tensor"] = lambda rs: R.random_tensor((3, 4), random_state=rs)
    out["random_cp"] = lambda rs: R.random_cp((4, 5, 6), 2, random_state=rs)
    out["random_cp[orthogonal,full]"] = lambda rs: R.random_cp((4, 5, 6), 2, orthogonal=True, full=True, random_state=rs)
    out["random_tucker"] = lambda rs: R.random_tucker((4, 5, 6), [2, 2, 2], random_state=rs)
    out["random_tucker[orthogonal]"] = lambda rs: R.random_tucker((4, 5, 6), [2, 2, 2], orthogonal=True, random_state=rs)
    out["random_tt"] = lambda rs: R.random_tt((4, 5, 6), [1, 2, 2, 1], random_state=rs)
    out["random_tt_matrix"] = lambda rs: R.random_tt_matrix((2, 3, 2, 3), [1, 2, 1], random_state=rs)
    out["random_tr"] = lambda rs: R.random_tr((4, 5, 6), [2, 2, 2, 2], random_state=rs)
    out["random_parafac2"] = lambda rs: R.random_parafac2([(4, 3), (5, 3)], 2, random_state=rs)
    out["tl.randn"] = lambda rs: tl.randn((3, 4), seed=rs)
    for init in ("random", "svd"):
        for svd in ("truncated_svd", "randomized_svd"):
            if init == "random" and svd != "truncated_svd":
                continue
            t = f"{init},{svd}"
            out[f"initialize_cp[{t}]"] = lambda rs, init=init, svd=svd: _cp.initialize_cp(X, 3, init=init, svd=svd, random_state=rs)
            out[f"initialize_tucker[{t}]"] = lambda rs, init=init, svd=svd: _tucker.initialize_tucker(X, [2, 2, 2], [0, 1, 2], rs, init=init, svd=svd)
            out[f"initialize_constrained_parafac[{t}]"] = lambda rs, init=init, svd=svd: _constrained_cp.initialize_constrained_parafac(X, 3, init=init, svd=svd, random_state=rs, non_negative=True)
            out[f"parafac[{t}]"] = lambda rs, init=init, svd=svd: D.parafac(X, 3, init=init, svd=svd, random_state=rs, n_iter_max=4)
            out[f"parafac[{t},mask]"] = lambda rs, init=init, svd=svd: D.parafac(X, 3, init=init, svd=svd, random_state=rs, n_iter_max=4, mask=mask)
            out[f"non_negative_parafac[{t}]"] = lambda rs, init=init, svd=svd: D.non_negative_parafac(Xp, 3, init=init, svd=svd, random_state=rs, n_iter_max=4)
            out[f"non_negative_parafac_hals[{t}]"] = lambda rs, init=init, svd=svd: D.non_negative_parafac_hals(Xp, 3, init=init, svd=svd, random_state=rs, n_iter_max=4)
            out[f"constrained_parafac[{t}]"] = lambda rs, init=init, svd=svd: D.constrained_parafac(X, 3, init=init, svd=svd, random_state=rs, n_iter_max=3, non_negative=True)
            out[f"tucker[{t}]"] = lambda rs, init=init, svd=svd: D.tucker(X, [2, 2, 2], init=init, svd=svd, random_state=rs, n_iter_max=4)
            out[f"partial_tucker[{t}]"] = lambda rs, init=init, svd=svd: D.partial_tucker(X, [2, 2], modes=[0, 2], init=init, svd=svd, random_state=rs, n_iter_max=4)
            out[f"non_negative_tucker[{t}]"] = lambda rs, init=init, svd=svd: D.non_negative_tucker(Xp, [2, 2, 2], init=init, random_state=rs, n_iter_max=4)
            out[f"non_negative_tucker_hals[{t}]"] = lambda rs, init=init, svd=svd: D.non_negative_tucker_hals(Xp, [2, 2, 2], init=init, svd=svd, random_state=rs, n_iter_max=4)
            if svd == "truncated_svd":  # (randomized projections: known finding, see KNOWN_FINDINGS.json)
                out[f"parafac2[{t}]"] = lambda rs, init=init, svd=svd: D.parafac2(slices, 3, init=init, svd=svd, random_state=rs, n_iter_max=4)
            out[f"initialize_decomposition(parafac2)[{t}]"] = lambda rs, init=init, svd=svd: _parafac2.initialize_decomposition(slices, 3, init=init, svd="truncated_svd", random_state=rs)
    out["randomised_parafac"] = lambda rs: D.randomised_parafac(X, 3, n_samples=30, n_iter_max=4, random_state=rs)
    out["sample_khatri_rao"] = lambda rs: _cp.sample_khatri_rao([Mx[:5, :3], Mx[5:, :3]], 6, random_state=rs, return_sampled_rows=True)
    out["tensor_ring_als"] = lambda rs: D.tensor_ring_als(X, [2, 2, 2, 2], n_iter_max=3, random_state=rs)
    out["tensor_ring_als_sampled"] = lambda rs: D.tensor_ring_als_sampled(X, [2, 2, 2, 2], n_samples=12, n_iter_max=3, random_state=rs)
    out["tensor_ring_als_sampled[uniform,randomized_error]"] = lambda rs: D.tensor_ring_als_sampled(X, [2, 2, 2, 2], n_samples=12, n_iter_max=3, random_state=rs, uniform_sampling=True, randomized_error=True, tol=1e-12)
    out["tensor_train_cross"] = lambda rs: CD.tensor_train_cross(X, [1, 2, 2, 1], random_state=rs)
    out["randomized_range_finder"] = lambda rs: SV.randomized_range_finder(Mx, 4, random_state=rs)
    out["randomized_svd"] = lambda rs: SV.randomized_svd(Mx, 3, random_state=rs)
    out["svd_interface[randomized_svd]"] = lambda rs: SV.svd_interface(Mx, n_eigenvecs=3, method="randomized_svd", random_state=rs)
    out["svd_interface[randomized_svd,mask]"] = lambda rs: SV.svd_interface(Mx, n_eigenvecs=3, method="randomized_svd", random_state=rs, mask=(np.abs(Mx) > 0.2).astype(float), n_iter_mask_imputation=3)
    def reg(cls, rs, **kw):
        m = cls(random_state=rs, **kw)
        m.fit(Xr, y)
        return dict(attrs={k: v for k, v in vars(m).items() if k.endswith("_")}, pred=m.predict(Xr))
    out["CPRegressor"] = lambda rs: reg(RG.CPRegressor, rs, weight_rank=2, n_iter_max=5, verbose=0)
    out["TuckerRegressor"] = lambda rs: reg(RG.TuckerRegressor, rs, weight_ranks=[2, 2], n_iter_max=5, verbose=0)
    def plsr(rs):
        m = RG.CP_PLSR(n_components=2, random_state=rs)
        m.fit(Xr, Y2)
        return dict(attrs={k: v for k, v in vars(m).items() if k.endswith("_") or "factors" in k}, pred=m.predict(Xr))
    out["CP_PLSR"] = plsr
    for name, cls, kw in (("CP", D.CP, dict(rank=3, n_iter_max=3, init="random")), ("CP_NN", D.CP_NN, dict(rank=3, n_iter_max=3, init="random")), ("CP_NN_HALS", D.CP_NN_HALS, dict(rank=3, n_iter_max=3, init="random")),
                          ("RandomizedCP", D.RandomizedCP, dict(rank=3, n_samples=20, n_iter_max=3)), ("Tucker", D.Tucker, dict(rank=[2, 2, 2], n_iter_max=3, init="random")),
                          ("TensorRingALSSampled", D.TensorRingALSSampled, dict(rank=[2, 2, 2, 2], n_samples=12, n_iter_max=3)), ("ConstrainedCP", D.ConstrainedCP, dict(rank=3, n_iter_max=3, init="random", non_negative=True)),
                          ("Parafac2", D.Parafac2, dict(rank=3, n_iter_max=3, return_errors=True)), ("TensorRingALS", D.TensorRingALS, dict(rank=[2, 2, 2, 2], n_iter_max=3))):
        out[f"class {name}.fit_transform"] = lambda rs, cls=cls, kw=kw, name=name: cls(random_state=rs, **kw).fit_transform(Xp if "NN" in name else (slices if name == "Parafac2" else X))
    return out


def deterministic_cases():
    """functions without random choices: repeated calls agree and the global generator is untouched"""
    import tensorly as tl
    from tensorly import decomposition as D, tenalg as T
    g = np.random.RandomState(7)
    X = g.standard_normal((4, 5, 6))
    fs = [g.standard_normal((n, 3)) for n in (4, 5, 6)]
    return {"parafac[svd]": lambda: D.parafac(X, 3, init="svd", n_iter_max=4), "tucker[svd]": lambda: D.tucker(X, [2, 2, 2], n_iter_max=4), "tensor_train": lambda: D.tensor_train(X, [1, 2, 2, 1]),
            "tensor_ring": lambda: D.tensor_ring(X, [2, 2, 2, 2]), "non_negative_parafac[svd]": lambda: D.non_negative_parafac(np.abs(X), 3, n_iter_max=4), "parafac2[svd]": lambda: D.parafac2(X, 3, init="svd", n_iter_max=3),
            "khatri_rao": lambda: T.khatri_rao(fs), "mode_dot": lambda: T.mode_dot(X, fs[0].T, 0), "unfolding_dot_khatri_rao": lambda: T.unfolding_dot_khatri_rao(X, (None, fs), 1), "cp_to_tensor": lambda: tl.cp_to_tensor((None, fs)),
            "robust_pca": lambda: D.robust_pca(X, n_iter_max=4), "svd_interface[truncated]": lambda: T.svd_interface(X[0], n_eigenvecs=2), "svd_interface[symeig]": lambda: T.svd_interface(X[0], n_eigenvecs=2, method="symeig_svd")}


SKIPPED = []


def same(a, b):
    la, lb = leaves(a), leaves(b)
    if len(la) != len(lb):
        return False
    return all(x.shape == y.shape and x.dtype == y.dtype and np.array_equal(x, y, equal_nan=True) for x, y in zip(la, lb))


def state_eq(s0, s1):
    return s0[0] == s1[0] and np.array_equal(s0[1], s1[1]) and s0[2:] == s1[2:]


def run(seeds=(0, 12345)):
    import contextlib, io
    with contextlib.redirect_stdout(io.StringIO()):
        return _run(seeds)


def _run(seeds):
    warnings.simplefilter("ignore")
    n, fails = 0, []
    del SKIPPED[:]
    for name, f in cases().items():
        for seed in seeds:
            for kind in ("int", "generator"):
                mk = (lambda: seed) if kind == "int" else (lambda: np.random.RandomState(seed))
                np.random.seed(1000 + seed)
                s0 = np.random.get_state()
                try:
                    r1 = f(mk())
                except Exception as e:  # noqa
                    SKIPPED.append(f"{name}[{kind}]: {type(e).__name__}: {str(e)[:60]}")
                    break
                s1 = np.random.get_state()
                np.random.seed(2000 + seed)
                np.random.random_sample(5)
                r2 = f(mk())
                n += 1
                if not state_eq(s0, s1):
                    fails.append(f"{name} with random_state={kind} {seed} changed numpy's global random state")
                if not same(r1, r2):
                    fails.append(f"{name} with random_state={kind} {seed}: two identically seeded calls differ (global generator reseeded in between)")
    for name, f in deterministic_cases().items():
        np.random.seed(5)
        s0 = np.random.get_state()
        try:
            r1 = f()
        except Exception as e:  # noqa
            SKIPPED.append(f"{name}: {type(e).__name__}")
            continue
        s1 = np.random.get_state()
        np.random.seed(6)
        r2 = f()
        n += 1
        if not state_eq(s0, s1):
            fails.append(f"{name} (no random choices) changed numpy's global random state")
        if not same(r1, r2):
            fails.append(f"{name} (no random choices): repeated calls differ")
    return n, fails


if __name__ == "__main__":
    print(run(), SKIPPED)
