"""C18  Results stay in the numeric context (dtype) of the input.

dtype-tag abstract interpretation on E1-generic.  Every symbolic tensor carries a concrete dtype tag and every primitive
computes the tag of its result by asking numpy itself (np.result_type on dummies of the tagged dtypes, weak Python scalars
included), so the promotion rules are numpy's own.  The call sites of the other properties' obligations (the REAL functions
with their loop cuts and dependency stubs) are re-run with every floating input tagged float32 / complex64 instead of
float64 / complex128, on every path and for all sizes and values, and every array in the result (factors, weights, cores,
reconstructions, reported errors, solver iterates ...) must carry the single-precision tag; the float64 run must stay float64.
A context-free allocation (tl.zeros(...), tl.eye(...), np.* constants) shows as a float64 tag.  Refutations are replayed
natively with float32 numpy inputs; the native dtypes are also compared with the symbolic tags (engine monitor).
"""
import importlib

import numpy as np

from ..oblig import GOb
from .. import gtensor as G

PID = "C18"
LEVEL = "proof"
TRUSTED_BASE = [
    "numpy's promotion rules are taken from numpy itself (np.result_type on dummy arrays of the tagged dtypes)",
    "dtype contracts of the dependencies: solve / lstsq / qr / svd / eigh return the (real or complex) dtype of their argument's precision; inner solvers stubbed in the source obligations return the dtype of their start value",
    "numpy primitive contracts (vt.primcheck, which also compares dtypes); CPython; loop extraction",
]
ASSUMPTIONS = [
    "entry points and option sets are those of the source obligations (C02, C03, C04, C06, C07, C08, C09, C10, C11, C13, C14, C19) - listed in the evidence; prox operators, NNLS solver bodies and metrics are covered only by the bounded native stand-in",
    "complex64 is used as the single-precision complex context; documented exceptions (leverage-score distributions, integer index/count outputs) are not among the covered results",
]
QUANTIFICATION = "forall mode sizes, ranks, values, paths, iterations (loop-cut bodies from an arbitrary iterate of the input dtype); enumerated: entry point, options, dtype in {float32, float64}"
EXPLANATION = "Abstract interpretation over dtype tags with numpy as the promotion oracle; all arrays in the result must carry the input precision."

SOURCES = ["c02", "c03", "c04", "c06", "c07", "c08", "c09", "c10", "c11", "c13", "c14", "c19"]
SINGLE = {"float64": "float32", "complex128": "complex64"}


class DtNS:
    """Proxy of SymNS / NumNS: inputs and harness-made constants are created in the target precision."""

    def __init__(self, S, single, mask_dtype=None):
        self._S, self._single, self._mask_dtype = S, single, mask_dtype

    def _map(self, dtype):
        return SINGLE.get(str(dtype), str(dtype)) if self._single else str(dtype)

    def input(self, name, dims, dtype="float64", nonneg=False):
        if name == "mask" and self._mask_dtype:
            return self._S.input(name, dims, self._mask_dtype, nonneg)   # a mask in a context of its own (boolean, integer, double)
        return self._S.input(name, dims, self._map(dtype), nonneg)

    def ones(self, shape, dtype="float64"):
        return self._S.ones(shape, self._map(dtype))

    def eye(self, n, dtype="float64"):
        return self._S.eye(n, self._map(dtype))

    def __getattr__(self, k):
        if k.startswith("_"):
            raise AttributeError(k)
        return getattr(self._S, k)


def leaves(x, path="result", seen=None, depth=0):
    """(path, array) for every tensor reachable in a result structure"""
    seen = seen if seen is not None else set()
    if x is None or isinstance(x, (str, bytes, bool, int, float, complex)) or depth > 8:
        return
    if isinstance(x, (G.GTensor, np.ndarray, np.generic)):
        yield path, x
        return
    if id(x) in seen:
        return
    seen.add(id(x))
    if isinstance(x, dict):
        for k, v in x.items():
            if isinstance(k, str) and k.startswith("_"):
                continue
            yield from leaves(v, f"{path}[{k!r}]", seen, depth + 1)
    elif isinstance(x, (list, tuple)):
        for i, v in enumerate(x):
            yield from leaves(v, f"{path}[{i}]", seen, depth + 1)
    elif hasattr(x, "__dict__") and type(x).__module__.startswith(("tensorly", "vt.")):
        for k, v in vars(x).items():
            if not k.startswith("_"):
                yield from leaves(v, f"{path}.{k}", seen, depth + 1)


def dtype_name(a):
    return a.dtype if isinstance(a, G.GTensor) else np.asarray(a).dtype.name


def allowed(dt, single):
    if dt.startswith(("int", "uint", "bool")):
        return True  # index / count outputs
    return dt in (("float32", "complex64") if single else ("float64", "complex128"))


# documented exception "index / count outputs are integers": results that are indices whatever dtype the harness hands them in
INDEX_OUTPUTS = [("sample_khatri_rao", ("result[1]", "result[2]"))]


class DtOb(GOb):
    backend_label = "dtype-tags (numpy as promotion oracle, all paths)"
    """the soundness monitor of a dtype obligation compares the dtype tags of the symbolic run with the dtypes numpy produces natively"""

    def _monitor_at(self, path, env):
        import copy
        from ..oblig import _native_backend, NumNS, concretize_args
        res, prims, pairs, _checks, path_inputs = path.value
        sym_sig = [l for l, _, _ in pairs if l.startswith("dtype signature ")]
        with _native_backend(self.tenalg):
            G.reset_execution()
            S = NumNS(env, np.random.RandomState(12345))
            I = concretize_args(self.setup(S), env)
            I0 = copy.deepcopy(I)
            nres = self.call(I)
            nat_sig = [l for l, _, _ in self.post(S, I0, nres) if l.startswith("dtype signature ")]
        if sym_sig != nat_sig:
            s_, n_ = set(sym_sig[0].split()[2:]), set(nat_sig[0].split()[2:])
            common = {x.split(":")[0] for x in s_} & {x.split(":")[0] for x in n_}
            diff = sorted(x for x in (s_ ^ n_) if x.split(":")[0] in common)
            if diff:
                return False, f"dtype tags of the symbolic run disagree with numpy's at {env}: {diff[:6]}"
            return True, f"monitor ok at {env} on the {len(common)} arrays present in both runs"
        return True, f"monitor ok at {env}"


def wrap(base, single, mask_dtype=None):
    tag = "float32" if single else "float64"
    def setup(S):
        I = base.setup(DtNS(S, single, mask_dtype))
        return I
    def post(S, I, res):
        out = []
        n = 0
        sig = []
        for path, a in leaves(res):
            if any(f in base.function and path.startswith(pre) for f, pres in INDEX_OUTPUTS for pre in pres):
                continue
            if mask_dtype and isinstance(a, G.GTensor) and a.body is getattr(I.get("mask"), "body", None):
                continue   # (the caller's mask itself, echoed by the harness)
            n += 1
            dt = dtype_name(a)
            sig.append(f"{path}:{dt}")
            if not allowed(dt, single):
                out.append((f"{path} has dtype {dt}, the inputs are {tag}", 0, 1))
        sig.sort()
        out.append((f"{n} arrays in the result, all in the {tag} context", 1, 1))
        out.append(("dtype signature " + " ".join(sig), 1, 1))
        if n == 0:
            out.append(("the result contains no array (vacuous)", 0, 1))
        return out
    ob = DtOb(PID, f"{PID}/{tag}" + (f",{mask_dtype} mask" if mask_dtype else "") + "/" + base.name.split("/", 1)[1], base.function, setup, base.call, post, tenalg=base.tenalg, assumptions=base.assumptions,
             side_nonzero=base.side_nonzero, instance=dict(base.instance, dtype=tag, source=base.pid), clause=f"every array of the result carries the {tag} context",
             forall=list(base.forall) + ["paths"], enumerated=list(base.enumerated) + ["dtype"])
    return ob


def _select(pid, obs, tier):
    """thin the instance families of the source property (quick): one obligation per (function, clause, option set), smallest order"""
    if tier != "quick":
        return obs
    seen, out = set(), []
    for ob in obs:
        inst = {k: v for k, v in ob.instance.items() if k not in ("order", "N", "n_slices", "slices", "rank", "mode", "modes", "unit", "skip", "skip_begin", "skip_end")}
        key = (ob.function, ob.clause, repr(sorted(inst.items(), key=lambda kv: kv[0])))
        if key in seen:
            continue
        seen.add(key)
        out.append(ob)
    return out


def obligations(tier):
    obs = []
    seen = set()
    for mod in SOURCES:
        m = importlib.import_module(f"vt.props.{mod}")
        src = [ob for ob in m.obligations(tier) if type(ob) is GOb and ob.raises is None and ob.post is not None and "dtype" not in ob.instance   # (an obligation about one particular dtype is not re-run in another)
               and not (tier != "quick" and ("CP_PLSR.transform" in ob.function or (ob.instance.get("order", 0) >= 4 and ":non_negative" in ob.function)))]
        for ob in _select(mod, src, tier):
            key = ob.name.split("/", 1)[1]   # (a call site one property re-discharges from another - C10 from C11 and C13, C20 from C04 - is re-run once)
            if key in seen:
                continue
            seen.add(key)
            obs.append(wrap(ob, True))
            if tier != "quick":
                obs.append(wrap(ob, False))

    obs += solver_obligations(tier) + mask_obligations(tier)
    obs.append(bounded_obligation())
    return obs


def solver_obligations(tier):
    """the NNLS solver bodies (their value obligations live on the dense engine, which carries no dtype tags): prefix, two sweeps and the exit of hals_nnls and
    fista on dtype-tagged symbolic tensors of every size; the top singular value used as step size is a dependency (dtype contract: real, input precision)"""
    import tensorly as tl
    import tensorly.solvers.nnls as nn
    from ..symint import atom
    from ..loopcut import LoopCut
    from ..iterative import stubbed, real_dtype
    obs = []
    r_, c_ = atom("r"), atom("c")
    def tsvd(S):
        def f(M, *a, **k):
            if S.name != "sym":
                from tensorly.tenalg.svd import truncated_svd as real
                return real(M, *a, **k)
            return None, [G.opaque_tensor("SIGMA", [], real_dtype(M), nonneg=True)], None
        return f
    for single in ((True, False) if tier != "quick" else (True,)):
        for name, opts in (("fista", dict()), ("fista", dict(sparsity_coef=0.1, ridge_coef=0.2)), ("hals_nnls", dict()), ("hals_nnls", dict(sparsity_coefficient=0.1, ridge_coefficient=0.2))):
            def setup(S, single=single, name=name):
                D_ = DtNS(S, single)
                rr = 2 if name == "hals_nnls" else r_     # (hals_nnls loops over the rows in Python: rank enumerated)
                return dict(_S=S, UtM=D_.input("UtM", [rr, c_]), UtU=D_.input("UtU", [rr, rr]), x=D_.input("x0", [rr, c_], nonneg=True))
            def call(I, name=name, opts=opts):
                S = I["_S"]
                func = getattr(nn, name)
                with stubbed(tl, truncated_svd=tsvd(S)):
                    if S.name != "sym":
                        return func(I["UtM"], I["UtU"], I["x"], **opts) if name == "hals_nnls" else func(I["UtM"], I["UtU"], x=I["x"], **opts)
                    cut = LoopCut(func)
                    st = cut.prefix(I["UtM"], I["UtU"], I["x"], **opts) if name == "hals_nnls" else cut.prefix(I["UtM"], I["UtU"], x=I["x"], **opts)
                    outs = []
                    for it in (0, 1):
                        kind, st = cut.body(st, it)
                        if kind == "return":
                            return [st]
                        outs.append({k: v for k, v in st.items() if isinstance(v, G.GTensor)})
                        if kind == "break":
                            break
                    outs.append(cut.suffix(st))
                    return outs
            def post(S, I, res, single=single):
                tag = "float32" if single else "float64"
                out, n = [], 0
                for path, a in leaves(res):
                    n += 1
                    if not allowed(dtype_name(a), single):
                        out.append((f"{path} has dtype {dtype_name(a)}, the inputs are {tag}", 0, 1))
                out.append((f"{n} arrays (iterates after each sweep, the result), all in the {tag} context", int(n >= 1), 1))
                return out
            tagn = ",".join(f"{k}={v}" for k, v in opts.items()) or "plain"
            obs.append(GOb(PID, f"{PID}/{'float32' if single else 'float64'}/solvers.nnls:{name}/iterates and result keep the input precision[{tagn}]", f"tensorly.solvers.nnls:{name}", setup, call, post,
                           tenalg="core", instance=dict(dtype="float32" if single else "float64", **opts), clause="every iterate and the result carry the input precision",
                           forall=["sizes", "values", "paths"], enumerated=["options", "dtype"], side_nonzero=True))
    return obs


def mask_obligations(tier):
    """a mask lives in a context of its own (boolean, integer, double): the masked decompositions keep the precision of the DATA - prefix, a sweep and the exits of
    parafac, non_negative_parafac and partial_tucker, and the imputation loop of svd_interface, with float32 data and a mask tagged bool / int64 / float64"""
    import tensorly.decomposition._cp as _cp
    import tensorly.decomposition._nn_cp as _nn
    import tensorly.decomposition._tucker as _tk
    import tensorly.tenalg.svd as sv
    from tensorly.cp_tensor import CPTensor
    from ..symint import atom
    from ..loopcut import LoopCut
    from ..iterative import stubbed, make_svd_stub, real_dtype
    obs = []
    R = atom("R")
    n = [atom(f"n{k}") for k in range(3)]
    def post(S, I, res):
        out, cnt = [], 0
        for path, a in leaves(res):
            cnt += 1
            if not allowed(dtype_name(a), True):
                out.append((f"{path} has dtype {dtype_name(a)}, the data are float32", 0, 1))
        out.append((f"{cnt} arrays of the state after the sweep and of the result, all float32", int(cnt >= 1), 1))
        return out
    for md in ("bool", "int64", "float64"):
        def setup(S, md=md):
            D_ = DtNS(S, True, md)
            return dict(_S=S, X=D_.input("X", n), mask=D_.input("mask", n), fs=[D_.input(f"U{k}", [n[k], R]) for k in range(3)], core=D_.input("G", [R, R, R]), M=D_.input("M", n[:2]), mask2=DtNS(S, True, md).input("mask", n[:2]))
        for fn, func, module in (("_cp:parafac", _cp.parafac, _cp), ("_nn_cp:non_negative_parafac", _nn.non_negative_parafac, _nn)):
            def call(I, func=func, module=module):
                S = I["_S"]
                if S.name != "sym":
                    return func(I["X"], I["fs"][0].shape[1], n_iter_max=2, mask=I["mask"], init=(None, [f.copy() for f in I["fs"]]))
                cut = LoopCut(func)
                with stubbed(module, initialize_cp=lambda *a, **k: CPTensor((None, list(I["fs"])))):
                    st = cut.prefix(I["X"], R, mask=I["mask"], return_errors=True)
                    st["factors"] = list(st["factors"])
                    kind, st2 = cut.body(st, 0)
                    ret = cut.suffix(st2)
                return dict(state={k: v for k, v in st2.items() if k in ("weights", "factors", "tensor", "rec_errors")}, ret=ret)
            obs.append(GOb(PID, f"{PID}/float32,{md} mask/{fn}/the data precision is kept through a masked sweep", f"tensorly.decomposition.{fn}", setup, call, post, tenalg="core",
                           instance=dict(dtype="float32", mask_dtype=md), clause="a mask of another dtype does not change the precision of the results", forall=["sizes", "rank", "values", "paths"], enumerated=["mask dtype"], side_nonzero=True))
        def tk_call(I):
            S = I["_S"]
            if S.name != "sym":
                r_ = I["core"].shape[0]
                return _tk.partial_tucker(I["X"], [r_] * 3, n_iter_max=2, mask=I["mask"], init=(I["core"].copy(), [np.linalg.qr(f)[0].astype(f.dtype) for f in I["fs"]]))
            cut = LoopCut(_tk.partial_tucker)
            with stubbed(_tk, initialize_tucker=lambda *a, **k: (I["core"], list(I["fs"])), svd_interface=make_svd_stub(S, None)):
                st = cut.prefix(I["X"], [R, R, R], mask=I["mask"])
                st["factors"] = list(st["factors"])
                kind, st2 = cut.body(st, 0)
                ret = cut.suffix(st2)
            return dict(state={k: v for k, v in st2.items() if k in ("core", "factors", "tensor", "rec_errors")}, ret=ret)
        obs.append(GOb(PID, f"{PID}/float32,{md} mask/_tucker:partial_tucker/the data precision is kept through a masked sweep", "tensorly.decomposition._tucker:partial_tucker", setup, tk_call, post, tenalg="core",
                       instance=dict(dtype="float32", mask_dtype=md), clause="a mask of another dtype does not change the precision of the results", forall=["sizes", "rank", "values", "paths"], enumerated=["mask dtype"],
                       assumptions=lambda I: [R <= x for x in n]))
        def si_call(I):
            S = I["_S"]
            def method(matrix, n_eigenvecs=None, **kw):
                if S.name != "sym":
                    return sv.truncated_svd(matrix, n_eigenvecs=n_eigenvecs)
                return (G.opaque_tensor("MU", [matrix.shape[0], n_eigenvecs], matrix.dtype), G.opaque_tensor("MS", [n_eigenvecs], real_dtype(matrix)), G.opaque_tensor("MV", [n_eigenvecs, matrix.shape[1]], matrix.dtype))
            return sv.svd_interface(I["M"], method=method, n_eigenvecs=2, mask=I["mask2"], n_iter_mask_imputation=2, flip_sign=False)
        obs.append(GOb(PID, f"{PID}/float32,{md} mask/tenalg.svd:svd_interface/the data precision is kept through the imputation loop", "tensorly.tenalg.svd:svd_interface", setup, si_call, post, tenalg="core",
                       instance=dict(dtype="float32", mask_dtype=md), clause="a mask of another dtype does not change the precision of the results", forall=["sizes", "values"], enumerated=["mask dtype"]))
    return obs


def bounded_obligation():
    from .c09 import BoundedOb
    from . import c18_native
    def fn():
        del c18_native.SKIPPED[:]
        return c18_native.run()
    return BoundedOb(f"{PID}/bounded/native dtype survey of the public entry points", "tensorly (decompositions, solvers, proximal operators, svd_interface, random, conversions, regressors, metrics)", fn,
                     dict(dtypes="float32/float64/complex128", entry_points="~110 per dtype"), "one seeded call per entry point / option set and dtype; entry points that raise for a dtype are skipped", pid=PID)


def canaries(tier):
    """a float64 constant mixed into a float32 computation must be flagged"""
    import tensorly as tl
    from ..symint import atom
    def setup(S):
        return dict(X=DtNS(S, True).input("X", [atom("n0"), atom("n1")]))
    def call(I):
        return tl.dot(I["X"], tl.ones((I["X"].shape[1], 2)))  # context-free allocation
    return [GOb(PID, f"{PID}/canary/context-free-ones", "tensorly:dot", setup, call,
                lambda S, I, r: [("dtype", int(allowed(dtype_name(r), True)), 1)], tenalg="core", instance={}, clause="canary")]
