"""C01  Unfold/fold/vectorise/matricize are exact inverse index bijections.

Contracts (sidecar) on the real functions of tensorly/base.py and Backend.moveaxis; engine E1-generic:
mode sizes are symbolic (every size >= 1, so size-1 modes are instances), entries are uninterpreted atoms, the
result body must be the bare entry atom (coefficient 1) laid out as documented.
"""
import itertools

from ..oblig import GOb
from ..symint import atom

PID = "C01"
LEVEL = "proof"
LAYOUT_PRIMS = {"reshape", "transpose", "moveaxis", "shape", "ndim"}
DTYPES = ("float32", "float64", "complex128", "int64")

TRUSTED_BASE = [
    "numpy layout primitives reshape/transpose/moveaxis (contract: row-major regrouping / axis permutation), validated on every run by vt.primcheck against the callables registered in NumpyBackend",
    "CPython executes the hosted repo code; shadows: int/np/math.prod (see assumptions)",
    "the VC generator (vt.gtensor/vt.expr); mitigated by canaries and the per-obligation soundness monitor",
]
ASSUMPTIONS = [
    "tensor order is enumerated (quick: 1..5, thorough: 1..6), not quantified; mode sizes and entries are universally quantified",
    "dtype is a tag propagated by the layout primitives (they do no arithmetic): swept over float32,float64,complex128,int64",
]
QUANTIFICATION = "forall mode sizes n_k >= 1, forall entries, forall dtype in the swept set; enumerated: order, mode, (skip_begin, skip_end, ravel), (row_modes, column_modes)"
EXPLANATION = ("Each obligation runs the real tensorly.base function on a symbolic tensor of shape n0 x ... x n_{N-1}; reshape is "
               "regrouping of mixed-radix digits, so the result is a closed form valid for all sizes; it must equal the documented "
               "layout / the original tensor in canonical form.")


def _dims(N, unit=()):
    return [1 if k in unit else atom(f"n{k}") for k in range(N)]


def _others(N, m):
    return [k for k in range(N) if k != m]


def obligations(tier):
    import tensorly.base as base
    from tensorly.backend.core import Backend

    maxN = 5 if tier == "quick" else 6
    obs = []

    def add(name, function, setup, call, post, instance, clause, **kw):
        obs.append(GOb(PID, f"{PID}/{function}/{clause}[{name}]", function, setup, call, post, instance=instance, clause=clause,
                       forall=["mode sizes", "entries"], enumerated=list(instance), **kw))

    for N in range(1, maxN + 1):
        unit_sets = [()] + ([(k,) for k in range(N)] if N <= 3 else [])
        for unit in unit_sets:
            utag = f",unit={list(unit)}" if unit else ""
            # ---- vec
            for dt in (DTYPES if not unit else ("float64",)):
                def setup(S, N=N, unit=unit, dt=dt):
                    return dict(X=S.input("X", _dims(N, unit), dt))
                add(f"N={N}{utag},dtype={dt}", "tensorly.base:tensor_to_vec", setup,
                    lambda I: base.tensor_to_vec(I["X"]),
                    lambda S, I, r, N=N: [("layout", r, S.group(I["X"], [list(range(N))]))],
                    dict(order=N, unit=list(unit), dtype=dt), "layout+frame+dtype", allowed_prims=LAYOUT_PRIMS, check_dtype=True)
            def setup(S, N=N, unit=unit):
                return dict(X=S.input("X", _dims(N, unit)))
            add(f"N={N}{utag}", "tensorly.base:vec_to_tensor", setup,
                lambda I: base.vec_to_tensor(base.tensor_to_vec(I["X"]), I["X"].shape),
                lambda S, I, r: [("inverse", r, I["X"])], dict(order=N, unit=list(unit)), "inverse(vec_to_tensor∘tensor_to_vec)")
            def setup_v(S, N=N, unit=unit):
                d = [s for s in _dims(N, unit) if not (isinstance(s, int) and s == 1)]
                return dict(V=S.input("V", [d]), shape=tuple(_dims(N, unit)))
            add(f"N={N}{utag}", "tensorly.base:tensor_to_vec", setup_v,
                lambda I: base.tensor_to_vec(base.vec_to_tensor(I["V"], I["shape"])),
                lambda S, I, r: [("inverse", r, I["V"])], dict(order=N, unit=list(unit)), "inverse(tensor_to_vec∘vec_to_tensor)")
            # ---- unfold / fold
            for m in range(N):
                for dt in (DTYPES if not unit else ("float64",)):
                    def setup(S, N=N, unit=unit, dt=dt):
                        return dict(X=S.input("X", _dims(N, unit), dt))
                    add(f"N={N},mode={m}{utag},dtype={dt}", "tensorly.base:unfold", setup,
                        lambda I, m=m: base.unfold(I["X"], m),
                        lambda S, I, r, N=N, m=m: [("layout", r, S.group(I["X"], [[m], _others(N, m)]))],
                        dict(order=N, mode=m, unit=list(unit), dtype=dt), "layout+frame+dtype", allowed_prims=LAYOUT_PRIMS, check_dtype=True)
                def setup(S, N=N, unit=unit):
                    return dict(X=S.input("X", _dims(N, unit)))
                add(f"N={N},mode={m}{utag}", "tensorly.base:fold", setup,
                    lambda I, m=m: base.fold(base.unfold(I["X"], m), m, I["X"].shape),
                    lambda S, I, r: [("inverse", r, I["X"])], dict(order=N, mode=m, unit=list(unit)), "inverse(fold∘unfold)",
                    allowed_prims=LAYOUT_PRIMS, check_dtype=True)
                def setup_u(S, N=N, m=m, unit=unit):
                    d = _dims(N, unit)
                    rest = [d[k] for k in _others(N, m) if not (isinstance(d[k], int) and d[k] == 1)]
                    return dict(U=S.input("U", [d[m], rest]), shape=tuple(d))
                add(f"N={N},mode={m}{utag}", "tensorly.base:unfold", setup_u,
                    lambda I, m=m: base.unfold(base.fold(I["U"], m, I["shape"]), m),
                    lambda S, I, r: [("inverse", r, I["U"])], dict(order=N, mode=m, unit=list(unit)), "inverse(unfold∘fold)")
        # ---- partial unfold / fold / vec
        for sb in range(0, N):
            for se in range(0, N - sb):
                inner = N - sb - se
                if inner < 1:
                    continue
                def setup(S, N=N):
                    return dict(X=S.input("X", _dims(N)))
                for ravel in (False, True):
                    for m in range(inner):
                        head = [[k] for k in range(sb)]
                        tail = [[k] for k in range(N - se, N)]
                        mid_others = [k for k in range(sb, N - se) if k != m + sb]
                        mid = [[m + sb] + mid_others] if ravel else [[m + sb], mid_others]
                        add(f"N={N},mode={m},skip_begin={sb},skip_end={se},ravel={ravel}", "tensorly.base:partial_unfold", setup,
                            lambda I, m=m, sb=sb, se=se, ravel=ravel: base.partial_unfold(I["X"], m, sb, se, ravel),
                            lambda S, I, r, g=head + mid + tail: [("layout", r, S.group(I["X"], g))],
                            dict(order=N, mode=m, skip_begin=sb, skip_end=se, ravel=ravel), "layout+frame", allowed_prims=LAYOUT_PRIMS, check_dtype=True)
                        add(f"N={N},mode={m},skip_begin={sb},skip_end={se},ravel={ravel}", "tensorly.base:partial_fold", setup,
                            lambda I, m=m, sb=sb, se=se, ravel=ravel: base.partial_fold(base.partial_unfold(I["X"], m, sb, se, ravel), m, I["X"].shape, sb, se),
                            lambda S, I, r: [("inverse", r, I["X"])],
                            dict(order=N, mode=m, skip_begin=sb, skip_end=se, ravel=ravel), "inverse(partial_fold∘partial_unfold)", allowed_prims=LAYOUT_PRIMS)
                        if not ravel:
                            def setup_pu(S, N=N, m=m, sb=sb, se=se, mid_others=mid_others):
                                d = _dims(N)
                                dims = [d[k] for k in range(sb)] + [d[m + sb], [d[k] for k in mid_others]] + [d[k] for k in range(N - se, N)]
                                return dict(U=S.input("U", dims), shape=tuple(d))
                            add(f"N={N},mode={m},skip_begin={sb},skip_end={se}", "tensorly.base:partial_unfold", setup_pu,
                                lambda I, m=m, sb=sb, se=se: base.partial_unfold(base.partial_fold(I["U"], m, I["shape"], sb, se), m, sb, se),
                                lambda S, I, r: [("inverse", r, I["U"])],
                                dict(order=N, mode=m, skip_begin=sb, skip_end=se), "inverse(partial_unfold∘partial_fold)")
                g = [[k] for k in range(sb)] + [list(range(sb, N - se))] + [[k] for k in range(N - se, N)]
                add(f"N={N},skip_begin={sb},skip_end={se}", "tensorly.base:partial_tensor_to_vec", setup,
                    lambda I, sb=sb, se=se: base.partial_tensor_to_vec(I["X"], sb, se),
                    lambda S, I, r, g=g: [("layout", r, S.group(I["X"], g))],
                    dict(order=N, skip_begin=sb, skip_end=se), "layout+frame", allowed_prims=LAYOUT_PRIMS, check_dtype=True)
                add(f"N={N},skip_begin={sb},skip_end={se}", "tensorly.base:partial_vec_to_tensor", setup,
                    lambda I, sb=sb, se=se: base.partial_vec_to_tensor(base.partial_tensor_to_vec(I["X"], sb, se), I["X"].shape, sb, se),
                    lambda S, I, r: [("inverse", r, I["X"])],
                    dict(order=N, skip_begin=sb, skip_end=se), "inverse(partial_vec_to_tensor∘partial_tensor_to_vec)")
        # ---- matricize: all ordered (row, column) partitions, and column_modes=None for every ordered row subset
        if N <= 4:
            def setup(S, N=N):
                return dict(X=S.input("X", _dims(N)))
            for k in range(0, N + 1):
                for rows in itertools.permutations(range(N), k):
                    rest = [i for i in range(N) if i not in rows]
                    add(f"N={N},rows={list(rows)},cols=None", "tensorly.base:matricize", setup,
                        lambda I, rows=rows: base.matricize(I["X"], list(rows)),
                        lambda S, I, r, rows=rows, rest=rest: [("layout", r, S.group(I["X"], [list(rows), rest]))],
                        dict(order=N, row_modes=list(rows), column_modes=None), "layout+frame", allowed_prims=LAYOUT_PRIMS, check_dtype=True)
                    col_perms = list(itertools.permutations(rest)) if (N <= 3 or tier == "thorough") else [tuple(rest), tuple(rest[::-1])]
                    for cols in dict.fromkeys(col_perms):
                        add(f"N={N},rows={list(rows)},cols={list(cols)}", "tensorly.base:matricize", setup,
                            lambda I, rows=rows, cols=cols: base.matricize(I["X"], list(rows), list(cols)),
                            lambda S, I, r, rows=rows, cols=cols: [("layout", r, S.group(I["X"], [list(rows), list(cols)]))],
                            dict(order=N, row_modes=list(rows), column_modes=list(cols)), "layout+frame", allowed_prims=LAYOUT_PRIMS, check_dtype=True)
            # rejection: modes that do not partition
            if N >= 2:
                for rows, cols in [((0,), tuple(range(N))), ((0,), tuple(range(2, N))), ((0, 0), tuple(range(1, N)))]:
                    obs.append(GOb(PID, f"{PID}/tensorly.base:matricize/rejects[N={N},rows={list(rows)},cols={list(cols)}]", "tensorly.base:matricize",
                                   setup, lambda I, rows=rows, cols=cols: base.matricize(I["X"], list(rows), list(cols)),
                                   raises=ValueError, instance=dict(order=N, row_modes=list(rows), column_modes=list(cols)), clause="rejects non-partition",
                                   forall=["mode sizes", "entries"], enumerated=["order", "row_modes", "column_modes"]))
        # ---- Backend.moveaxis (generic implementation) against the np.moveaxis contract the NumPy backend registers
        import tensorly as tl
        def setup(S, N=N):
            return dict(X=S.input("X", _dims(N)))
        for src in range(-N, N):
            for dst in range(-N, N):
                s, d = src % N, dst % N
                order = [k for k in range(N) if k != s]
                order.insert(d, s)
                add(f"N={N},source={src},destination={dst}", "tensorly.backend.core:Backend.moveaxis", setup,
                    lambda I, src=src, dst=dst: tl.moveaxis(I["X"], src, dst),
                    lambda S, I, r, order=order: [("layout", r, S.group(I["X"], [[k] for k in order]))],
                    dict(order=N, source=src, destination=dst), "layout(np.moveaxis contract)", allowed_prims=LAYOUT_PRIMS, check_dtype=True)
    return obs


def canaries(tier):
    """Obligations that MUST be refuted (vacuity guard for the engine)."""
    import tensorly.base as base
    N, m = 3, 1
    def setup(S):
        return dict(X=S.input("X", _dims(N)))
    return [
        GOb(PID, f"{PID}/canary/unfold-column-major", "tensorly.base:unfold", setup, lambda I: base.unfold(I["X"], m),
            lambda S, I, r: [("layout", r, S.group(I["X"], [[m], _others(N, m)[::-1]]))], instance=dict(order=N, mode=m), clause="canary"),
        GOb(PID, f"{PID}/canary/fold-wrong-mode", "tensorly.base:fold", setup, lambda I: base.fold(base.unfold(I["X"], 0), 0, I["X"].shape),
            lambda S, I, r: [("inverse", r, S.group(I["X"], [[1], [0], [2]]))], instance=dict(order=N), clause="canary"),
    ]
