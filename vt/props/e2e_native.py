"""End-to-end native surveys used by bounded stand-ins of C06 / C07 / C08 / C10 / C11 (never counted as proved).

The proofs of those properties are modular: callees (SVD, NNLS solvers, proximal operators, initialisers) enter by contract, iterates are
arbitrary, side conditions ('no zero column', 'well conditioned') are stated.  These surveys run the REAL public entry points, unstubbed, on
seeded native tensors and check the property's conclusion on what comes back - a bounded cross-check of the composed contracts, aimed at
what the contracts assume away (NaN / 0-by-0 on degenerate data, option combinations, zero budgets).

Every survey returns (number of evaluations, list of failures).  A call that raises numpy.linalg.LinAlgError('Singular matrix') is a
rank-deficient block problem (outside 'well conditioned'; nothing is returned, so nothing is claimed): counted in SKIPPED, not a failure.
Any other exception is a failure.  Seeds are fixed; tolerances are stated next to each comparison.
"""
import warnings

import numpy as np

SKIPPED = []


def _data(rng, shape, kind):
    if kind == "generic" or kind == "signed":
        return rng.standard_normal(shape)
    if kind == "nonneg":
        return rng.random(shape) + 0.05
    if kind == "integer":
        return rng.integers(-3, 4, size=shape).astype(float)
    if kind == "negative":
        return -rng.random(shape) - 0.05
    if kind == "sparse":
        s = rng.standard_normal(shape)
        s[rng.random(shape) < 0.6] = 0
        return s
    from tensorly.cp_tensor import cp_to_tensor
    fs = [(rng.standard_normal((s, 2)) if kind == "lowrank" else rng.random((s, 2))) for s in shape]
    return cp_to_tensor((None, fs))


def _guard(tag, f, fails):
    """runs f; returns its value or None (after recording a skip / failure)"""
    try:
        return f()
    except np.linalg.LinAlgError as e:
        if "Singular matrix" in str(e):
            SKIPPED.append(f"{tag}: LinAlgError Singular matrix (rank-deficient block problem)")
            return None
        fails.append(f"{tag}: raises LinAlgError: {e}")
    except Exception as e:  # noqa
        fails.append(f"{tag}: raises {type(e).__name__}: {str(e)[:100]}")
    return None


# ------------------------------------------------------------------------------------------------ C10
def c10(tier):
    """every returned factor / weight / core of the non-negative decompositions is finite and >= 0, on signed, non-negative, sparse, integer and
    all-negative tensors of order 2-4, SVD / random initialisation, normalisation, budgets 0, 1, 6"""
    warnings.simplefilter("ignore")
    import tensorly as tl
    from tensorly.decomposition import non_negative_parafac, non_negative_parafac_hals, non_negative_tucker, non_negative_tucker_hals
    fails, n = [], 0

    def bad(arrs):
        out = []
        for name, a in arrs:
            a = np.asarray(a)
            if not np.all(np.isfinite(a)):
                out.append(f"{name} is not finite")
            elif a.size and a.min() < 0:
                out.append(f"{name} has min {a.min():.3g}")
        return out
    rng = np.random.default_rng(0)
    shapes = [(3, 4), (2, 2), (3, 4, 2)] + ([(2, 3, 2, 2)] if tier == "thorough" else [])
    for shape in shapes:
        for kind in ("signed", "nonneg", "sparse", "integer", "negative"):
            T = _data(rng, shape, kind)
            for rank in ((1, 2) if tier == "quick" else (1, 2, 3)):
                for init in ("svd", "random"):
                    for budget in (0, 1, 6):
                        base = f"{shape} {kind} rank {rank} init {init} budget {budget}"
                        for norm in (False, True):
                            for fn in (non_negative_parafac, non_negative_parafac_hals):
                                n += 1
                                tag = f"{fn.__name__}[normalize={norm}] {base}"
                                r = _guard(tag, lambda: fn(tl.tensor(T), rank=rank, init=init, normalize_factors=norm, n_iter_max=budget, random_state=1), fails)
                                if r is not None:
                                    fails += [f"{tag}: {b}" for b in bad([("weights", r.weights)] + [(f"factor {i}", f) for i, f in enumerate(r.factors)])]
                        rk = [min(rank, s) for s in shape]
                        for fn, kw in ((non_negative_tucker, {}), (non_negative_tucker_hals, dict(algorithm="fista")), (non_negative_tucker_hals, dict(algorithm="active_set"))):
                            n += 1
                            tag = f"{fn.__name__}{kw or ''} {base}"
                            r = _guard(tag, lambda: fn(tl.tensor(T), rank=rk, init=init, n_iter_max=budget, random_state=1, **kw), fails)
                            if r is not None:
                                fails += [f"{tag}: {b}" for b in bad([("core", r.core)] + [(f"factor {i}", f) for i, f in enumerate(r.factors)])]
    return n, fails


# ------------------------------------------------------------------------------------------------ C11
def _feasible(kind, par, F):
    F = np.asarray(F)
    tol = 1e-8
    if not np.all(np.isfinite(F)):
        return "not finite"
    if kind == "non_negative":
        return None if F.min() >= 0 else f"min {F.min():.3g}"
    if kind == "simplex":
        s = F.sum(axis=0)
        return None if F.min() >= -tol and np.allclose(s, par, atol=1e-7) else f"column sums {s}, min {F.min():.3g}"
    if kind == "monotonicity":
        d = np.diff(F, axis=0)
        return None if d.size == 0 or (d >= -tol).all() else f"a column decreases by {-d.min():.3g}"
    if kind == "unimodality":
        for c in F.T:
            k = int(np.argmax(c))
            if (np.diff(c[:k + 1]) < -tol).any() or (np.diff(c[k:]) > tol).any():
                return f"column {c} is not unimodal"
        return None
    if kind == "hard_sparsity":          # acts on the whole factor, as documented: at most k non-zeros (hence at most k per column)
        return None if (F != 0).sum() <= par else f"{(F != 0).sum()} non-zeros > {par}"
    if kind == "normalized_sparsity":    # whole factor: at most k non-zeros, unit Frobenius norm
        return None if (F != 0).sum() <= par and abs(np.linalg.norm(F) - 1) < 1e-7 else f"{(F != 0).sum()} non-zeros, norm {np.linalg.norm(F):.6g}"
    if kind == "normalize":              # whole factor: max |entry| = 1
        return None if abs(np.abs(F).max() - 1) < 1e-9 else f"max |entry| {np.abs(F).max():.6g}"
    if kind == "soft_sparsity":
        s = np.abs(F).sum(axis=0)
        return None if (s <= par + 1e-7).all() else f"column l1 norms {s} > {par}"
    return None


def c11(tier):
    """constrained_parafac: the returned factor of every constrained mode is feasible, for the 8 hard constraints, scalar / dict / list specifications,
    ranks 1-3, SVD / random initialisation, outer/inner budgets (0,1), (1,1), (3,5), order 3 (and 4 thorough)"""
    warnings.simplefilter("ignore")
    import tensorly as tl
    from tensorly.decomposition import constrained_parafac
    kinds = dict(non_negative=True, simplex=1.0, monotonicity=True, unimodality=True, hard_sparsity=4, normalized_sparsity=4, normalize=True, soft_sparsity=1.5)
    fails, n = [], 0
    rng = np.random.default_rng(0)
    for shape in [(4, 3, 5)] + ([(3, 4, 2, 3)] if tier == "thorough" else []):
        for tk in ("signed", "nonneg"):
            T = _data(rng, shape, tk)
            for rank in (1, 2, 3):
                for init in ("svd", "random"):
                    for kind, par in kinds.items():
                        N = len(shape)
                        specs = [("scalar", par, list(range(N))), ("dict", {0: par, N - 1: par}, [0, N - 1]), ("list", [par if m == 1 else None for m in range(N)], [1])]
                        for sname, spec, modes in specs:
                            for (no, ni) in ((0, 1), (1, 1), (3, 5)):
                                n += 1
                                tag = f"constrained_parafac[{kind}={sname}] {shape} {tk} rank {rank} init {init} budget {no}/{ni}"
                                r = _guard(tag, lambda: constrained_parafac(tl.tensor(T), rank=rank, init=init, n_iter_max=no, n_iter_max_inner=ni, random_state=2, **{kind: spec}), fails)
                                if r is not None:
                                    fails += [f"{tag}: mode {m}: {_feasible(kind, par, r.factors[m])}" for m in modes if _feasible(kind, par, r.factors[m])]
    return n, fails


# ------------------------------------------------------------------------------------------------ C06 + C07
def c06_c07(tier, which):
    """C06: reported errors are finite and the last one equals the recomputed relative error of the returned decomposition (|diff| <= 1e-6 max(1, error));
    C07: for the exact block-coordinate algorithms the reported errors never rise by more than 1e-6 (the errors are square roots of differences: an exact
    fit is reported to about 1e-8)"""
    warnings.simplefilter("ignore")
    import tensorly.decomposition as D
    from tensorly.cp_tensor import cp_to_tensor
    from tensorly.tucker_tensor import tucker_to_tensor
    fails, n = [], 0
    rng = np.random.default_rng(0)

    def rel(X, Y):
        return np.linalg.norm(X - Y) / np.linalg.norm(X)
    for shape in [(4, 5), (4, 3, 5)] + ([(3, 4, 2, 3)] if tier == "thorough" else []):
        for kind in ("generic", "nonneg", "integer", "lowrank", "lowrank_nonneg"):
            X = _data(rng, shape, kind)
            for rank in ((1, 2) if tier == "quick" else (1, 2, 3)):
                for init in ("svd", "random"):
                    for budget in (1, 2, 8):
                        base = f"{shape} {kind} rank {rank} init {init} budget {budget}"

                        def run(tag, f, dense, mono=True):
                            nonlocal n
                            n += 1
                            out = _guard(f"{tag} {base}", f, fails if which == "C06" else [])
                            if out is None:
                                return
                            r, errs = out
                            errs = [float(e) for e in errs]
                            if which == "C06" and errs:
                                if not np.all(np.isfinite(errs)):
                                    fails.append(f"{tag} {base}: reported errors are not finite: {errs[-3:]}")
                                else:
                                    t = rel(X, dense(r))
                                    if abs(errs[-1] - t) > 1e-6 * max(1, t):
                                        fails.append(f"{tag} {base}: last reported error {errs[-1]:.9g}, recomputed {t:.9g}")
                            if which == "C07" and mono:
                                for i in range(1, len(errs)):
                                    if errs[i] > errs[i - 1] + 1e-6:
                                        fails.append(f"{tag} {base}: reported error rises at sweep {i}: {errs[i - 1]:.9g} -> {errs[i]:.9g}")
                                        break
                        rk = [min(rank, s) for s in shape]
                        for norm in (False, True):
                            run(f"parafac[normalize={norm}]", lambda: D.parafac(X, rank, n_iter_max=budget, init=init, normalize_factors=norm, random_state=1, return_errors=True, tol=0), cp_to_tensor)
                        run("parafac[linesearch]", lambda: D.parafac(X, rank, n_iter_max=budget, init=init, linesearch=True, random_state=1, return_errors=True, tol=1e-12), cp_to_tensor)
                        run("tucker", lambda: D.tucker(X, rk, n_iter_max=budget, init=init, random_state=1, return_errors=True, tol=0), tucker_to_tensor)
                        if kind in ("nonneg", "lowrank_nonneg", "generic"):
                            for norm in (False, True):
                                run(f"non_negative_parafac[normalize={norm}]", lambda: D.non_negative_parafac(X, rank, n_iter_max=budget, init=init, normalize_factors=norm, random_state=1, return_errors=True, tol=0), cp_to_tensor, mono=False)
                                run(f"non_negative_parafac_hals[normalize={norm}]", lambda: D.non_negative_parafac_hals(X, rank, n_iter_max=budget, init=init, normalize_factors=norm, random_state=1, return_errors=True, tol=0),
                                    cp_to_tensor, mono=(kind != "generic"))
                            run("non_negative_tucker", lambda: D.non_negative_tucker(X, rk, n_iter_max=budget, init=init, random_state=1, return_errors=True, tol=0), tucker_to_tensor, mono=False)
                            run("non_negative_tucker_hals", lambda: D.non_negative_tucker_hals(X, rk, n_iter_max=budget, init=init, random_state=1, return_errors=True, tol=0), tucker_to_tensor, mono=False)
    return n, fails


# ------------------------------------------------------------------------------------------------ C08
def c08(tier):
    """shapes, boundary ranks, orthonormality (1e-8), core = projection, left-orthogonal TT cores, orthonormal PARAFAC2 projections, and the normalisation
    contract (unit-norm columns within 1e-8 / weights all ones) for budgets 0, 1, 6 and a convergence stop"""
    warnings.simplefilter("ignore")
    import tensorly as tl
    import tensorly.decomposition as D
    fails, n = [], [0]

    def chk(tag, cond, msg):
        n[0] += 1
        if not cond:
            fails.append(f"{tag}: {msg}")

    def orth(F):
        return np.allclose(F.T @ F, np.eye(F.shape[1]), atol=1e-8)
    rng = np.random.default_rng(0)
    for shape in [(4, 5), (4, 3, 5), (6, 1, 4)] + ([(3, 4, 2, 3)] if tier == "thorough" else []):
        X, Xp = rng.standard_normal(shape), rng.random(shape) + 0.05
        N = len(shape)
        for rank in ((1, 3) if tier == "quick" else (1, 2, 3, 5)):
            for init in ("svd", "random"):
                for budget, tol in ((0, 0), (1, 0), (6, 0), (50, 1e-2)):
                    base = f"{shape} rank {rank} init {init} budget {budget} tol {tol}"
                    for name, f, data in (("parafac", D.parafac, X), ("non_negative_parafac", D.non_negative_parafac, Xp), ("non_negative_parafac_hals", D.non_negative_parafac_hals, Xp)):
                        for norm in (False, True):
                            tag = f"{name}[normalize={norm}] {base}"
                            r = _guard(tag, lambda: f(data, rank, n_iter_max=budget, init=init, normalize_factors=norm, random_state=1, tol=tol), fails)
                            if r is None:
                                continue
                            chk(tag, [g.shape for g in r.factors] == [(s, rank) for s in shape] and r.weights.shape == (rank,), f"shapes {[g.shape for g in r.factors]} {r.weights.shape}")
                            if norm:
                                nr = [np.linalg.norm(g, axis=0) for g in r.factors]
                                chk(tag, all(np.all((np.abs(x - 1) < 1e-8) | (x == 0)) for x in nr), f"column norms {nr}")
                            else:
                                chk(tag, bool(np.all(r.weights == 1)), f"weights {r.weights}")
                    for rk_name, rk in (("int", rank), ("list", [min(rank, s) for s in shape])):
                        tag = f"tucker[rank as {rk_name}] {base}"
                        r = _guard(tag, lambda: D.tucker(X, rk, n_iter_max=budget, init=init, random_state=1, tol=tol), fails)
                        if r is None:
                            continue
                        chk(tag, all(g.shape[0] == s for g, s in zip(r.factors, shape)) and r.core.shape == tuple(g.shape[1] for g in r.factors), f"core {r.core.shape}, factors {[g.shape for g in r.factors]}")
                        if rk_name == "list":
                            chk(tag, [g.shape[1] for g in r.factors] == rk, f"ranks {[g.shape[1] for g in r.factors]}, requested {rk}")
                        if budget > 0 or init == "svd":
                            chk(tag, all(orth(g) for g in r.factors if g.shape[1] <= g.shape[0]), "a factor is not orthonormal")
                        if budget > 0:
                            proj = tl.tenalg.multi_mode_dot(X, r.factors, transpose=True)
                            chk(tag, np.allclose(proj, r.core, atol=1e-8), f"the core is not the projection of the data (max difference {np.abs(proj - r.core).max():.3g})")
        for rk in (1, 2, 3, 50, "same", 0.5):
            tag = f"tensor_train {shape} rank {rk}"
            tt = _guard(tag, lambda: D.tensor_train(X, rk), fails)
            if tt is not None:
                rs = [c.shape for c in tt.factors]
                chk(tag, rs[0][0] == 1 and rs[-1][2] == 1 and all(a[2] == b[0] for a, b in zip(rs, rs[1:])) and [c[1] for c in rs] == list(shape), f"core shapes {rs}")
                for c in tt.factors[:-1]:
                    M = c.reshape(-1, c.shape[2])
                    chk(tag, np.allclose(M.T @ M, np.eye(M.shape[1]), atol=1e-8), "a core is not left-orthogonal")
            for mode in range(N):
                tag = f"tensor_ring {shape} rank {rk} mode {mode}"
                try:
                    tr = D.tensor_ring(X, rk if not isinstance(rk, int) else [rk] * (N + 1), mode=mode)
                except ValueError:
                    continue   # documented rank-validation errors
                except Exception as e:  # noqa
                    chk(tag, False, f"raises {type(e).__name__}: {str(e)[:80]}")
                    continue
                rs = [c.shape for c in tr.factors]
                chk(tag, rs[0][0] == rs[-1][2] and all(a[2] == b[0] for a, b in zip(rs, rs[1:])) and [c[1] for c in rs] == list(shape), f"core shapes {rs}")
    # every class wrapper, constructed with nothing but its rank (default options), returns the decomposition it stores
    import contextlib
    import io
    from tensorly.decomposition._tucker import Tucker_NN, Tucker_NN_HALS
    from tensorly.decomposition._tr_als import TensorRingALSSampled
    Xc, Xm = rng.random((4, 5, 3)) + 0.1, rng.random((2, 3, 2, 3)) + 0.1
    wrappers = [(D.CP, dict(rank=2), Xc), (D.RandomizedCP, dict(rank=2, n_samples=20), Xc), (D.CPPower, dict(rank=2), Xc), (D.CP_NN, dict(rank=2), Xc), (D.CP_NN_HALS, dict(rank=2), Xc),
                (D.Tucker, dict(rank=[2, 2, 2]), Xc), (Tucker_NN, dict(rank=[2, 2, 2]), Xc), (Tucker_NN_HALS, dict(rank=[2, 2, 2]), Xc), (D.Parafac2, dict(rank=2), Xc),
                (D.ConstrainedCP, dict(rank=2, non_negative=True), Xc), (D.TensorTrain, dict(rank=[1, 2, 2, 1]), Xc), (D.TensorTrainMatrix, dict(rank=[1, 2, 1]), Xm),
                (D.TensorRing, dict(rank=[2, 2, 2, 2]), Xc), (D.TensorRingALS, dict(rank=[2, 2, 2, 2]), Xc), (TensorRingALSSampled, dict(rank=[2, 2, 2, 2], n_samples=10), Xc)]
    for K_, kw, data in wrappers:
        tag = f"{K_.__name__}({', '.join(f'{a}={b}' for a, b in kw.items())}).fit_transform with default options"
        with contextlib.redirect_stdout(io.StringIO()):
            est = K_(**kw)
            out = _guard(tag, lambda: est.fit_transform(data), fails)
        if out is not None:
            chk(tag, out is getattr(est, "decomposition_", None), "the returned object is not the stored decomposition_")
    for I_, J, K in ((3, 4, 5), (2, 3, 4)):
        slices = [rng.standard_normal((J + (i % 2), K)) for i in range(I_)]
        for rank in (1, 2, 3):
            for init in ("svd", "random"):
                for norm in (False, True):
                    for budget in (0, 1, 5):
                        tag = f"parafac2 {I_} slices rank {rank} init {init} normalize {norm} budget {budget}"
                        r = _guard(tag, lambda: D.parafac2(slices, rank, n_iter_max=budget, init=init, normalize_factors=norm, random_state=1, tol=0), fails)
                        if r is None:
                            continue
                        w, (A, B, C), P = r
                        chk(tag, len(P) == I_ and all(p.shape == (s.shape[0], rank) for p, s in zip(P, slices)) and A.shape == (I_, rank) and B.shape == (rank, rank) and C.shape == (K, rank), "shapes")
                        chk(tag, all(np.allclose(p.T @ p, np.eye(rank), atol=1e-8) for p in P), "a projection is not orthonormal")
                        if norm:
                            nr = [np.linalg.norm(g, axis=0) for g in (A, B, C)]
                            chk(tag, all(np.allclose(x, 1, atol=1e-8) for x in nr), f"column norms {nr}")
                        else:
                            chk(tag, bool(np.all(w == 1)), f"weights {w}")
    return n[0], fails


# ------------------------------------------------------------------------------------------------ C14
def c14(tier):
    """user-supplied initialisations (unit / positive / negative / mixed / no weights): a zero budget returns the same tensor (1e-9), absorbing the weights
    into the last factor gives the same iterates after two sweeps (1e-7), fixed modes other than the last (the known finding) come back bit-identical in any
    listing order; Tucker with fixed factors (every subset, all fixed included) and non_negative_tucker_hals likewise"""
    warnings.simplefilter("ignore")
    import copy
    import itertools
    import tensorly.decomposition as D
    from tensorly.cp_tensor import cp_to_tensor, CPTensor
    from tensorly.tucker_tensor import tucker_to_tensor
    fails, n = [], 0
    rng = np.random.default_rng(0)

    def close(a, b, tol=1e-9):
        return np.allclose(a, b, atol=tol * max(1, np.abs(b).max()))
    for shape in [(4, 5), (4, 3, 5)] + ([(3, 4, 2, 3)] if tier == "thorough" else []):
        N = len(shape)
        X, Xp = rng.standard_normal(shape), rng.random(shape) + 0.05
        for rank in ((1, 3) if tier == "quick" else (1, 2, 3)):
            for wk in ("unit", "positive", "negative", "mixed", "none"):
                fs = [rng.random((s, rank)) + 0.1 for s in shape]
                w = dict(unit=np.ones(rank), positive=rng.random(rank) + 0.5, negative=-(rng.random(rank) + 0.5),
                         mixed=(rng.random(rank) + 0.5) * np.where(np.arange(rank) % 2 == 0, 1, -1), none=None)[wk]
                init = CPTensor((None if w is None else w.copy(), [f.copy() for f in fs]))
                dense0 = cp_to_tensor((w, fs))
                nonneg_ok = wk in ("unit", "positive", "none")
                algos = [("parafac", lambda init, **k: D.parafac(X, rank, init=init, **k), True, dict(tol=0)),
                         ("non_negative_parafac", lambda init, **k: D.non_negative_parafac(Xp, rank, init=init, **k), nonneg_ok, dict(tol=0)),
                         ("non_negative_parafac_hals", lambda init, **k: D.non_negative_parafac_hals(Xp, rank, init=init, **k), nonneg_ok, dict(tol=0)),
                         ("constrained_parafac", lambda init, **k: D.constrained_parafac(X, rank, init=init, l2_square_reg=0.1, **k), True, {})]
                for name, f, applicable, kw in algos:
                    if not applicable:
                        continue
                    tag = f"{name} {shape} rank {rank} weights {wk}"
                    n += 1
                    r = _guard(f"{tag} zero budget", lambda: f(copy.deepcopy(init), n_iter_max=0), fails)
                    if r is not None and not close(cp_to_tensor(r), dense0):
                        fails.append(f"{tag}: a zero budget changes the represented tensor (relative difference {np.linalg.norm(cp_to_tensor(r) - dense0) / np.linalg.norm(dense0):.3g})")
                    if w is not None:
                        n += 1
                        fs2 = [g.copy() for g in fs]
                        fs2[-1] = fs2[-1] * w
                        a = _guard(f"{tag} two sweeps", lambda: f(copy.deepcopy(init), n_iter_max=2, **kw), fails)
                        b = _guard(f"{tag} two sweeps from the absorbed form", lambda: f(CPTensor((None, fs2)), n_iter_max=2, **kw), fails)
                        if a is not None and b is not None and not close(cp_to_tensor(a), cp_to_tensor(b), 1e-7):
                            fails.append(f"{tag}: absorbing the weights into the last factor gives different iterates")
                    for k in range(1, N):
                        for fm in itertools.combinations(range(N - 1), k):
                            for order in (list(fm), list(fm)[::-1]):
                                n += 1
                                r = _guard(f"{tag} fixed_modes={order}", lambda: f(copy.deepcopy(init), n_iter_max=3, fixed_modes=list(order)), fails)
                                if r is not None and any(not np.array_equal(r.factors[m], init.factors[m]) for m in fm):
                                    fails.append(f"{tag}: fixed_modes={order}: a fixed factor changed")
                            if name == "parafac":   # accepted line-search jumps extrapolate every factor: a fixed one must come out bit-identical all the same
                                n += 1
                                r = _guard(f"{tag} fixed_modes={list(fm)} with line search", lambda: D.parafac(X, rank, init=copy.deepcopy(init), n_iter_max=12, tol=1e-16, linesearch=True, fixed_modes=list(fm)), fails)
                                if r is not None and any(not np.array_equal(r.factors[m], init.factors[m]) for m in fm):
                                    fails.append(f"{tag}: fixed_modes={list(fm)} with line search: a fixed factor is not bit-identical to the supplied one")
            rk = [min(rank, s) for s in shape]
            core = rng.standard_normal(rk)
            tf = [np.linalg.qr(rng.standard_normal((s, r_)))[0] for s, r_ in zip(shape, rk)]
            for k in range(1, N + 1):
                for fm in itertools.combinations(range(N), k):
                    n += 1
                    tag = f"tucker {shape} rank {rk} fixed_factors={list(fm)}"
                    r = _guard(tag, lambda: D.tucker(X, rk, init=(core.copy(), [g.copy() for g in tf]), fixed_factors=list(fm), n_iter_max=3), fails)
                    if r is not None and any(not np.array_equal(r.factors[m], tf[m]) for m in fm):
                        fails.append(f"{tag}: a fixed factor changed")
                    if r is not None and k == N and not np.array_equal(r.core, core):
                        fails.append(f"{tag}: every factor fixed, but the core changed")
            # data of another dtype than the initialisation (float32 data, integer-valued float data stored as int64; float64 initialisation): fixed factors stay bit-identical,
            # a zero budget returns the initialisation's tensor
            for dname, Xd in (("float32", X.astype(np.float32)), ("int64", np.round(3 * X).astype(np.int64))):
                fm = list(range(N - 1))
                n += 2
                r = _guard(f"tucker {shape} rank {rk} {dname} data, fixed_factors={fm}", lambda: D.tucker(Xd, rk, init=(core.copy(), [g.copy() for g in tf]), fixed_factors=fm, n_iter_max=2), fails)
                if r is not None and any(not np.array_equal(r.factors[m], tf[m]) for m in fm):
                    fails.append(f"tucker {shape} rank {rk} {dname} data, float64 initialisation: a fixed factor is not returned as supplied")
                r = _guard(f"tucker {shape} rank {rk} {dname} data, zero budget", lambda: D.tucker(Xd, rk, init=(core.copy(), [g.copy() for g in tf]), n_iter_max=0), fails)
                if r is not None and not close(np.asarray(tucker_to_tensor(r), dtype=float), tucker_to_tensor((core, tf)), 1e-5):
                    fails.append(f"tucker {shape} rank {rk} {dname} data, float64 initialisation: a zero budget changes the represented tensor")
                if dname == "float32":
                    Xpd = Xp.astype(np.float32)
                    acd, afd = np.abs(core), [np.abs(g) for g in tf]
                    n += 1
                    r = _guard(f"non_negative_tucker_hals {shape} rank {rk} float32 data, fixed_modes={fm}", lambda: D.non_negative_tucker_hals(Xpd, rk, init=(acd.copy(), [g.copy() for g in afd]), n_iter_max=2, fixed_modes=fm), fails)
                    if r is not None and any(not np.array_equal(r.factors[m], afd[m]) for m in fm):
                        fails.append(f"non_negative_tucker_hals {shape} rank {rk} float32 data, float64 initialisation: a fixed factor is not returned as supplied")
            n += 1
            r = _guard(f"tucker {shape} rank {rk} zero budget", lambda: D.tucker(X, rk, init=(core.copy(), [g.copy() for g in tf]), n_iter_max=0), fails)
            if r is not None and not close(tucker_to_tensor(r), tucker_to_tensor((core, tf))):
                fails.append(f"tucker {shape} rank {rk}: a zero budget changes the represented tensor")
            ac, af = np.abs(core), [np.abs(g) for g in tf]
            n += 1
            r = _guard(f"non_negative_tucker_hals {shape} rank {rk} zero budget", lambda: D.non_negative_tucker_hals(Xp, rk, init=(ac.copy(), [g.copy() for g in af]), n_iter_max=0), fails)
            if r is not None and not close(tucker_to_tensor(r), tucker_to_tensor((ac, af))):
                fails.append(f"non_negative_tucker_hals {shape} rank {rk}: a zero budget changes the represented tensor")
            for k in range(1, N):
                for fm in itertools.combinations(range(N - 1), k):
                    n += 1
                    tag = f"non_negative_tucker_hals {shape} rank {rk} fixed_modes={list(fm)}"
                    r = _guard(tag, lambda: D.non_negative_tucker_hals(Xp, rk, init=(ac.copy(), [g.copy() for g in af]), n_iter_max=3, fixed_modes=list(fm)), fails)
                    if r is not None and any(not np.array_equal(r.factors[m], af[m]) for m in fm):
                        fails.append(f"{tag}: a fixed factor changed")
    return n, fails


# ------------------------------------------------------------------------------------------------ C12
def c12(tier):
    """every operator against an independent reference (closed form, pool-adjacent-violators, sort-based simplex projection, numpy SVD) or its optimality
    condition, lengths 1-8, signed / all-negative / all-positive / ties-and-zeros vectors scaled 1e-3, 1, 1e3, three parameter values; idempotence of the
    projections; firm non-expansiveness of the convex operators on 60 pairs; tolerance 1e-9 relative to the scale.  The two known findings (l1 ball from
    inside, optimality of the unimodal fit) are not re-tested here."""
    warnings.simplefilter("ignore")
    import tensorly as tl
    import tensorly.tenalg.proximal as px
    st = dict(n=0)
    fails = []
    rng = np.random.default_rng(0)
    def vecs(nn):
        for scale in (1e-3, 1.0, 1e3):
            yield "signed", rng.standard_normal(nn) * scale
            yield "negative", -np.abs(rng.standard_normal(nn)) * scale
            yield "positive", np.abs(rng.standard_normal(nn)) * scale
            t = rng.integers(-2, 3, size=nn).astype(float) * scale
            yield "ties+zeros", t
    def pava(v):   # isotonic (non-decreasing) regression, reference
        v = list(map(float, v)); blocks = []
        for x in v:
            blocks.append([x, 1])
            while len(blocks) > 1 and blocks[-2][0] > blocks[-1][0]:
                a, b = blocks.pop(), blocks.pop()
                blocks.append([(a[0] * a[1] + b[0] * b[1]) / (a[1] + b[1]), a[1] + b[1]])
        return np.concatenate([[m] * c for m, c in blocks])
    def simplex_ref(v, s):
        u = np.sort(v)[::-1]; css = np.cumsum(u) - s
        k = np.nonzero(u - css / (np.arange(len(v)) + 1) > 0)[0][-1]
        return np.maximum(v - css[k] / (k + 1), 0)
    def chk(tag, got, want, scale):
        st["n"] += 1
        got = np.asarray(got, dtype=float)
        if got.shape != np.shape(want): fails.append(f"{tag}: shape {got.shape} vs {np.shape(want)}"); return
        if not np.all(np.isfinite(got)): fails.append(f"{tag}: non-finite {got}"); return
        if not np.allclose(got, want, atol=1e-9 * max(scale, 1e-300), rtol=1e-9): fails.append(f"{tag}: got {got} want {want}")
    for nn in range(1, 9):
        for kind, v in vecs(nn):
            sc = max(np.abs(v).max(), 1e-300)
            for t in (0.3 * sc, 2.0 * sc, 1e-6 * sc):
                base = f"n={nn} {kind} scale {sc:.1e} t={t:.2e}"
                chk(f"soft_thresholding {base}", px.soft_thresholding(tl.tensor(v), t), np.sign(v) * np.maximum(np.abs(v) - t, 0), sc)
                nv = np.linalg.norm(v)
                chk(f"l2_prox {base}", px.l2_prox(tl.tensor(v), t), v * (1 - t / max(nv, t)), sc)
                tt = t / sc
                chk(f"l2_square_prox {base}", px.l2_square_prox(tl.tensor(v), tt), v / (1 + 2 * tt), sc)
                if nn >= 2:
                    x = np.asarray(px.smoothness_prox(tl.tensor(v), tt)); ext = np.concatenate([[0], x, [0]])
                    res = x - v + tt * (2 * ext[1:-1] - ext[:-2] - ext[2:])
                    chk(f"smoothness_prox stationarity {base}", res, np.zeros(nn), sc)
                chk(f"simplex_prox {base}", px.simplex_prox(tl.tensor(v), t), simplex_ref(v, t), max(sc, t))
                # l1 ball
                if np.abs(v).sum() > t:
                    want = np.sign(v) * simplex_ref(np.abs(v), t)
                    chk(f"soft_sparsity_prox (outside) {base}", px.soft_sparsity_prox(tl.tensor(v), t), want, sc)
            chk(f"non_negative n={nn} {kind} {sc:.1e}", px.proximal_operator(tl.tensor(v), non_negative=True), np.maximum(v, 0), sc)
            chk(f"monotonicity increasing n={nn} {kind} {sc:.1e}", np.ravel(px.monotonicity_prox(tl.tensor(v))), pava(v), sc)
            chk(f"monotonicity decreasing n={nn} {kind} {sc:.1e}", np.ravel(px.monotonicity_prox(tl.tensor(v), decreasing=True)), pava(v[::-1])[::-1], sc)
            # idempotence of projections
            for name, f in (("non_negative", lambda z: px.proximal_operator(z, non_negative=True)), ("monotonicity", lambda z: np.ravel(px.monotonicity_prox(z))),
                            ("simplex", lambda z: px.simplex_prox(z, sc))):
                y = np.asarray(f(tl.tensor(v)), dtype=float); chk(f"idempotence {name} n={nn} {kind} {sc:.1e}", f(tl.tensor(y.copy())), y, sc)
            u = np.ravel(px.unimodality_prox(tl.tensor(v))); k = int(np.argmax(u)); st["n"] += 1
            if (np.diff(u[:k + 1]) < -1e-9 * sc).any() or (np.diff(u[k:]) > 1e-9 * sc).any(): fails.append(f"unimodality n={nn} {kind}: not unimodal {u}")
            for k in range(1, nn + 1):
                h = np.asarray(px.hard_thresholding(tl.tensor(v), k)); st["n"] += 1
                keep = np.sort(np.abs(v))[::-1][:k]
                if (h != 0).sum() > k or not np.allclose(np.sort(np.abs(h))[::-1][:k], np.where(keep != 0, keep, 0), atol=0) or not np.all((h == 0) | (h == v)):
                    fails.append(f"hard_thresholding n={nn} k={k} {kind}: {v} -> {h}")
                if np.abs(v).max() > 0:
                    ns = np.asarray(px.normalized_sparsity_prox(tl.tensor(v), k)); st["n"] += 1
                    if (ns != 0).sum() > k or abs(np.linalg.norm(ns) - 1) > 1e-9 or not np.allclose(ns * np.linalg.norm(h), h, atol=1e-9 * sc):
                        fails.append(f"normalized_sparsity n={nn} k={k} {kind}: {v} -> {ns}")
            if np.abs(v).max() > 0:
                m = np.asarray(px.proximal_operator(tl.tensor(v), normalize=True)); chk(f"normalize n={nn} {kind} {sc:.1e}", m, v / np.abs(v).max(), 1)
    # firm non-expansiveness of convex operators
    for nn in (2, 5, 8):
        for trial in range(20):
            a, b = rng.standard_normal(nn) * 3, rng.standard_normal(nn) * 3
            for name, f in (("soft_thresholding", lambda z: px.soft_thresholding(z, 0.7)), ("l2_prox", lambda z: px.l2_prox(z, 0.7)), ("l2_square", lambda z: px.l2_square_prox(z, 0.7)),
                            ("smoothness", lambda z: px.smoothness_prox(z, 0.7)), ("simplex", lambda z: px.simplex_prox(z, 1.3)), ("monotone", lambda z: np.ravel(px.monotonicity_prox(z))),
                            ("non_negative", lambda z: px.proximal_operator(z, non_negative=True)), ("l1 ball", lambda z: px.soft_sparsity_prox(z, 1.3) if np.abs(z).sum() > 1.3 else z)):
                pa, pb = np.asarray(f(tl.tensor(a.copy())), float), np.asarray(f(tl.tensor(b.copy())), float); st["n"] += 1
                if np.dot(pa - pb, pa - pb) > np.dot(pa - pb, a - b) + 1e-9: fails.append(f"firm non-expansiveness {name} n={nn}: {a} {b}")
    # spectral operators
    for (r, c) in ((3, 3), (4, 2), (2, 5), (1, 4)):
        for trial in range(5):
            M = rng.standard_normal((r, c)); U, s, Vt = np.linalg.svd(M, full_matrices=False)
            chk(f"svd_thresholding {r}x{c}", px.svd_thresholding(tl.tensor(M), 0.5), (U * np.maximum(s - 0.5, 0)) @ Vt, 1)
            P = np.asarray(px.procrustes(tl.tensor(M))); chk(f"procrustes {r}x{c}", P, U @ Vt, 1)

    return st["n"], fails


# ------------------------------------------------------------------------------------------------ C19
def c19(tier):
    """fitted CP / Tucker regressors: weight_tensor_ = reconstruction of the exposed factors = what predict contracts with, vec_W_ its vectorisation (1e-8),
    for cap and convergence exits; CP_PLSR: transform(training X) = scores, unit-norm X and Y loadings, invariance of loadings / scores / predictions-minus-
    offset under constant shifts of X and Y, and equivariance under a permutation of the samples (1e-6).  Under-determined unregularised fits that raise
    LinAlgError(Singular matrix) are skipped."""
    warnings.simplefilter("ignore")
    import tensorly as tl
    from tensorly.regression import CPRegressor, TuckerRegressor, CP_PLSR
    from tensorly.cp_tensor import cp_to_tensor
    from tensorly.tucker_tensor import tucker_to_tensor
    st = dict(n=0)
    fails = []
    rng = np.random.default_rng(0)
    def chk(tag, got, want, tol=1e-8):
        st["n"] += 1
        got, want = np.asarray(got, float), np.asarray(want, float)
        if got.shape != want.shape: fails.append(f"{tag}: shape {got.shape} vs {want.shape}"); return
        if not np.all(np.isfinite(got)): fails.append(f"{tag}: non-finite"); return
        if not np.allclose(got, want, atol=tol * max(1, np.abs(want).max()), rtol=0): fails.append(f"{tag}: max diff {np.abs(got - want).max():.3g} (scale {np.abs(want).max():.3g})")
    for ns in (6, 11):
        for xshape in ((4, 3), (3, 2, 4)):
            X = rng.standard_normal((ns,) + xshape)
            for yk in ("scalar", "vector"):
                y = rng.standard_normal(ns) if yk == "scalar" else rng.standard_normal((ns, 3))
                for rank in (1, 2):
                    for reg in (0.0, 0.5):
                        for seed in (0, 3):
                            for cap, tol in ((1, 1e-12), (4, 1e-12), (60, 1e-2)):
                                base = f"X{xshape} y {yk} rank {rank} reg {reg} seed {seed} cap {cap} tol {tol}"
                                try:
                                    est = CPRegressor(weight_rank=rank, reg_W=reg, n_iter_max=cap, tol=tol, random_state=seed, verbose=0); est.fit(X, y)
                                    W = est.weight_tensor_
                                    chk(f"CPRegressor weight_tensor_ = cp_to_tensor(cp_weight_) {base}", W, cp_to_tensor(est.cp_weight_))
                                    chk(f"CPRegressor vec_W_ {base}", est.vec_W_, W.reshape(-1) if yk == "scalar" else W.reshape(-1), 1e-8) if np.size(est.vec_W_) == W.size else fails.append(f"vec_W_ size {base}")
                                    lx = "bcd"[:len(xshape)]
                                    pred = np.einsum(f"a{lx},{lx}{'o' if yk == 'vector' else ''}->a{'o' if yk == 'vector' else ''}", X, W)
                                    chk(f"CPRegressor predict {base}", est.predict(X), pred)
                                except Exception as e:
                                    fails.append(f"CPRegressor {base}: raises {type(e).__name__}: {str(e)[:80]}")
                                if yk == "scalar":
                                    try:
                                        est = TuckerRegressor(weight_ranks=[min(rank, s) for s in xshape], reg_W=reg, n_iter_max=cap, tol=tol, random_state=seed, verbose=0); est.fit(X, y)
                                        W = est.weight_tensor_
                                        chk(f"TuckerRegressor weight_tensor_ = tucker_to_tensor {base}", W, tucker_to_tensor(est.tucker_weight_))
                                        chk(f"TuckerRegressor predict {base}", est.predict(X), X.reshape(ns, -1) @ W.reshape(-1))
                                        chk(f"TuckerRegressor vec_W_ {base}", est.vec_W_, W.reshape(-1))
                                    except Exception as e:
                                        fails.append(f"TuckerRegressor {base}: raises {type(e).__name__}: {str(e)[:80]}")
    # CP_PLSR
    for ns in (7, 12):
        for xshape in ((5,), (4, 3), (3, 2, 4)):
            X = rng.standard_normal((ns,) + xshape)
            for yshape in ((), (2,), (3,)):
                Y = rng.standard_normal((ns,) + yshape)
                for nc in (1, 2, 3):
                    if nc > min(ns - 1, int(np.prod(xshape))): continue
                    base = f"X{xshape} Y{yshape} components {nc} samples {ns}"
                    try:
                        p = CP_PLSR(nc); p.fit(X, Y)
                        chk(f"PLSR transform(training X) = scores {base}", p.transform(X), p.X_factors[0], 1e-7)
                        for m, F in enumerate(p.X_factors[1:], 1):
                            chk(f"PLSR X loading {m} unit norm {base}", np.linalg.norm(F, axis=0), np.ones(nc), 1e-8)
                        for m, F in enumerate(p.Y_factors[1:], 1):
                            chk(f"PLSR Y loading {m} unit norm {base}", np.linalg.norm(F, axis=0), np.ones(nc), 1e-8)
                        pred = p.predict(X)
                        # shift invariance
                        cX = rng.standard_normal(xshape); cY = rng.standard_normal(yshape) if yshape else rng.standard_normal()
                        q = CP_PLSR(nc); q.fit(X + cX, Y + cY)
                        for m in range(1, len(p.X_factors)): chk(f"PLSR shift: X loading {m} {base}", q.X_factors[m], p.X_factors[m], 1e-6)
                        chk(f"PLSR shift: scores {base}", q.X_factors[0], p.X_factors[0], 1e-6)
                        chk(f"PLSR shift: predictions minus offset {base}", q.predict(X + cX) - cY, pred, 1e-6)
                        # permutation
                        perm = rng.permutation(ns)
                        r = CP_PLSR(nc); r.fit(X[perm], Y[perm])
                        chk(f"PLSR permutation: scores {base}", r.X_factors[0], p.X_factors[0][perm], 1e-6)
                        for m in range(1, len(p.X_factors)): chk(f"PLSR permutation: X loading {m} {base}", r.X_factors[m], p.X_factors[m], 1e-6)
                        chk(f"PLSR permutation: predictions {base}", r.predict(X[perm]), pred[perm], 1e-6)
                        # the same data in units nine orders of magnitude smaller: loadings are scale-free
                        t = CP_PLSR(nc); t.fit(X * 1e-9, Y * 1e-9)
                        for m, F in enumerate(t.X_factors[1:], 1):
                            chk(f"PLSR X loading {m} unit norm, data scaled by 1e-9 {base}", np.linalg.norm(F, axis=0), np.ones(nc), 1e-8)
                        for m, F in enumerate(t.Y_factors[1:], 1):
                            chk(f"PLSR Y loading {m} unit norm, data scaled by 1e-9 {base}", np.linalg.norm(F, axis=0), np.ones(nc), 1e-8)
                    except Exception as e:
                        fails.append(f"CP_PLSR {base}: raises {type(e).__name__}: {str(e)[:80]}")

    fails = [f for f in fails if "LinAlgError: Singular m" not in f or SKIPPED.append(f)]
    return st["n"], fails


# ------------------------------------------------------------------------------------------------ secondary entry points (C06, C07, C08, C09, C10)
_EXTRAS = {}


def extras(tier, pid):
    """entry points and options the first surveys leave out: PARAFAC2 (line search on / off, nn_modes None / [0] / [0, 2] / all, normalisation), TR-ALS (both
    solvers, errors through the callback), constrained CP, randomised CP, CP-ALS with a mask and with the sparse component, the normalisation exits of both
    non-negative Tucker routines, CMTF, TT-matrix.  Each failure message starts with the property it belongs to; `pid` selects."""
    if tier not in _EXTRAS:
        _EXTRAS[tier] = _extras(tier)
    n, fails = _EXTRAS[tier]
    return n, [f for f in fails if f" {pid} " in f]


def _extras(tier):
    warnings.simplefilter("ignore")
    import tensorly as tl
    import tensorly.decomposition as D
    from tensorly.decomposition._cmtf_als import coupled_matrix_tensor_3d_factorization as cmtf
    from tensorly.cp_tensor import cp_to_tensor
    from tensorly.parafac2_tensor import parafac2_to_slices
    from tensorly.tr_tensor import tr_to_tensor
    from tensorly.tt_matrix import tt_matrix_to_tensor
    st = dict(n=0)
    fails = []
    rng = np.random.default_rng(0)
    def rel(X, Y): return np.linalg.norm(X - Y) / np.linalg.norm(X)
    def bad(tag, cond, msg):
        st["n"] += 1
        if not cond: fails.append(f"{tag}: {msg}")
    # ---------------- C06/C07: parafac2, TR-ALS, randomised, constrained, CMTF
    for I_, J, K in (((3, 4, 5),) if tier == "quick" else ((3, 4, 5), (4, 3, 4))):
        slices = [rng.standard_normal((J + (i % 2), K)) for i in range(I_)]
        pos = [np.abs(s) + 0.1 for s in slices]
        nrm = np.sqrt(sum(np.linalg.norm(s) ** 2 for s in slices)); nrmp = np.sqrt(sum(np.linalg.norm(s) ** 2 for s in pos))
        for rank in (1, 2, 3):
            for init in ("svd", "random"):
                for ls in (False, True):
                    for nn, data, nm in ((None, slices, nrm), ([0], pos, nrmp), ([0, 2], pos, nrmp), ("all", pos, nrmp)):
                        for norm in (False, True):
                            tag = f"parafac2 I={I_} rank {rank} init {init} linesearch {ls} nn_modes {nn} normalize {norm}"
                            try:
                                r, errs = D.parafac2(data, rank, n_iter_max=8, init=init, linesearch=ls, nn_modes=nn, normalize_factors=norm, random_state=1, return_errors=True, tol=1e-12)
                            except TypeError as e:
                                fails.append(f"{tag}: C06 C07 C08 C10 raises {type(e).__name__}: {e}"); continue
                            except Exception as e:
                                fails.append(f"{tag}: C06 C07 C08 C10 raises {type(e).__name__}: {str(e)[:80]}"); continue
                            errs = [float(e) for e in errs]
                            bad(tag, np.all(np.isfinite(errs)), f"C06 errors not finite {errs[-3:]}")
                            rec = parafac2_to_slices(r); t = np.sqrt(sum(np.linalg.norm(a - b) ** 2 for a, b in zip(data, rec))) / nm
                            bad(tag, abs(errs[-1] - t) <= 1e-6 * max(1, t), f"C06 last error {errs[-1]:.9g} vs true {t:.9g}")
                            if nn is None or True:
                                bad(tag, all(errs[i] <= errs[i - 1] + 1e-6 for i in range(1, len(errs))), f"C07 errors rise: {[round(e, 8) for e in errs]}")
                            w, (A, B, C), P = r
                            if nn is not None:
                                modes = [0, 1, 2] if nn == "all" else nn
                                for m in modes:
                                    F = (A, B, C)[m]
                                    bad(tag, np.all(np.isfinite(F)) and F.min() >= 0, f"C10 factor {m} min {F.min():.3g}")
    for shape in (((4, 3, 5),) if tier == "quick" else ((4, 3, 5), (3, 4, 2, 3))):
        X = rng.standard_normal(shape)
        for rank in ((1, 2) if tier == "quick" else (1, 2, 3)):
            class CB:
                def __init__(s): s.errs = []
                def __call__(s, d, e): s.errs.append(float(e)); s.last = d
            for ls_solve in ("lstsq", "normal_eq"):
                cb = CB(); tag = f"tensor_ring_als {shape} rank {rank} {ls_solve}"
                try:
                    tr = D.tensor_ring_als(X, [rank] * (len(shape) + 1), ls_solve=ls_solve, n_iter_max=6, tol=0, random_state=1, callback=cb)
                    bad(tag, np.all(np.isfinite(cb.errs)), "C06 errors not finite")
                    t = rel(X, tr_to_tensor(tr))
                    bad(tag, abs(cb.errs[-1] - t) <= 1e-6 * max(1, t), f"C06 last error {cb.errs[-1]:.9g} vs true {t:.9g}")
                    bad(tag, all(cb.errs[i] <= cb.errs[i - 1] + 1e-6 for i in range(1, len(cb.errs))), f"C07 errors rise {cb.errs}")
                    rs = [c.shape for c in tr.factors]
                    bad(tag, rs[0][0] == rs[-1][2] and all(a[2] == b[0] for a, b in zip(rs, rs[1:])) and [c[1] for c in rs] == list(shape), f"C08 core shapes {rs}")
                except Exception as e:
                    fails.append(f"{tag}: C06 C07 C08 C10 raises {type(e).__name__}: {str(e)[:80]}")
            for kind, par in (("non_negative", True), ("l2_square_reg", 0.1), ("l1_reg", 0.05)):
                tag = f"constrained_parafac[{kind}] {shape} rank {rank}"
                try:
                    r, errs = D.constrained_parafac(X, rank, n_iter_max=5, n_iter_max_inner=4, random_state=1, return_errors=True, **{kind: par})
                    errs = [float(e) for e in errs]
                    bad(tag, np.all(np.isfinite(errs)), f"C06 errors not finite {errs}")
                    t = rel(X, cp_to_tensor(r))
                    bad(tag, abs(errs[-1] - t) <= 1e-6 * max(1, t), f"C06 last error {errs[-1]:.9g} vs true {t:.9g}")
                    if kind == "non_negative":
                        bad(tag, all(np.all(np.isfinite(f)) and f.min() >= 0 for f in r.factors), "C10 negative / non-finite factor")
                except np.linalg.LinAlgError: pass
                except Exception as e:
                    fails.append(f"{tag}: C06 C07 C08 C10 raises {type(e).__name__}: {str(e)[:80]}")
            tag = f"randomised_parafac {shape} rank {rank}"
            try:
                r, errs = D.randomised_parafac(X, rank, n_samples=30, n_iter_max=5, random_state=1, return_errors=True, tol=0)
                errs = [float(e) for e in errs]
                bad(tag, np.all(np.isfinite(errs)), f"C06 errors not finite {errs}")
                t = rel(X, cp_to_tensor(r))
                bad(tag, abs(errs[-1] - t) <= 1e-6 * max(1, t), f"C06 last error {errs[-1]:.9g} vs true {t:.9g}")
            except Exception as e:
                fails.append(f"{tag}: C06 C07 C08 C10 raises {type(e).__name__}: {str(e)[:80]}")
            # masks / sparsity in parafac
            mask = (rng.random(shape) > 0.2).astype(float)
            for init in ("svd", "random"):
                tag = f"parafac[mask] {shape} rank {rank} init {init}"
                try:
                    r, errs = D.parafac(X, rank, mask=mask, n_iter_max=5, init=init, random_state=1, return_errors=True, tol=0)
                    bad(tag, np.all(np.isfinite([float(e) for e in errs])), "C06 errors not finite")
                    bad(tag, all(np.all(np.isfinite(f)) for f in r.factors), "C06 non-finite factors")
                except Exception as e:
                    fails.append(f"{tag}: C06 C07 C08 C10 raises {type(e).__name__}: {str(e)[:80]}")
                tag = f"parafac[sparsity] {shape} rank {rank} init {init}"
                try:
                    (r, sp), errs = D.parafac(X, rank, sparsity=0.2, n_iter_max=5, init=init, random_state=1, return_errors=True, tol=0)
                    errs = [float(e) for e in errs]
                    bad(tag, np.all(np.isfinite(errs)), "C06 errors not finite")
                    t = rel(X, cp_to_tensor(r) + sp)
                    bad(tag, abs(errs[-1] - t) <= 1e-6 * max(1, t), f"C06 last error {errs[-1]:.9g} vs true {t:.9g}")
                except Exception as e:
                    fails.append(f"{tag}: C06 C07 C08 C10 raises {type(e).__name__}: {str(e)[:80]}")
        # nn tucker normalisation exits
        Xp = rng.random(shape) + 0.05
        for f in (D.non_negative_tucker, D.non_negative_tucker_hals):
            for budget, tol in ((0, 0), (1, 0), (5, 0), (60, 1e-2)):
                for init in ("svd", "random"):
                    tag = f"{f.__name__}[normalize] {shape} budget {budget} tol {tol} init {init}"
                    try:
                        r = f(Xp, [2] * len(shape), n_iter_max=budget, tol=tol, init=init, normalize_factors=True, random_state=1)
                        nr = [np.linalg.norm(g, axis=0) for g in r.factors]
                        bad(tag, all(np.all((np.abs(x - 1) < 1e-8) | (x == 0)) for x in nr), f"C08 column norms {nr}")
                    except Exception as e:
                        fails.append(f"{tag}: C06 C07 C08 C10 raises {type(e).__name__}: {str(e)[:80]}")
    # CMTF
    for shape, m in (((4, 5, 3), 6), ((3, 3, 4), 2)):
        X = rng.standard_normal(shape); Y = rng.standard_normal((shape[0], m))
        for rank in (1, 2, 3):
            for norm in (False, True):
                tag = f"cmtf {shape} rank {rank} normalize {norm}"
                try:
                    tm, mm, errs = cmtf(X, Y, rank, n_iter_max=8, tol=0, normalize_factors=norm)
                    errs = [float(e) for e in errs]
                    bad(tag, np.all(np.isfinite(errs)), "C06 errors not finite")
                    bad(tag, all(errs[i] <= errs[i - 1] + 1e-6 * max(1, errs[i - 1]) for i in range(1, len(errs))), f"C07 errors rise {errs}")
                except Exception as e:
                    fails.append(f"{tag}: C06 C07 C08 C10 raises {type(e).__name__}: {str(e)[:80]}")
    # tensor_train_matrix
    for shape in ((2, 3, 2, 3), (2, 2, 2, 3, 2, 2), (4, 3)):
        X = rng.standard_normal(shape)
        for rk in (1, 2, 50):
            tag = f"tensor_train_matrix {shape} rank {rk}"
            try:
                ttm = D.tensor_train_matrix(X, rk)
                d = len(shape) // 2
                rs = [c.shape for c in ttm.factors]
                bad(tag, len(rs) == d and rs[0][0] == 1 and rs[-1][3] == 1 and all(a[3] == b[0] for a, b in zip(rs, rs[1:])) and [c[1] for c in rs] == list(shape[:d]) and [c[2] for c in rs] == list(shape[d:]), f"C08 core shapes {rs}")
                if rk == 50: bad(tag, rel(X, tt_matrix_to_tensor(ttm)) < 1e-8, "C09 not exact at sufficient rank")
            except Exception as e:
                fails.append(f"{tag}: C06 C07 C08 C10 raises {type(e).__name__}: {str(e)[:80]}")

    return st["n"], fails
