"""Mechanical loop cutting (DESIGN §2.5): the real source of a function is re-read on every run and split, by AST
surgery, into  prefix (function start -> loop),  body (one iteration, from an arbitrary state),  suffix (after the loop).
Nothing is dropped: the three pieces are the function's own statements, compiled in the function's own module
namespace; they are executed separately and joined by the loop invariant supplied by the contract.

    cut = LoopCut(func)                      # iteration loop located by role (range(<n_iter...>)), else ordinal
    state = cut.prefix(*args, **kwargs)      # dict of the function's locals at loop entry  (or ('return', value))
    kind, state2 = cut.body(state, it)       # kind in {'end', 'break', 'return'}; for 'return' state2 is the value
    value = cut.suffix(state)                # the function's return value
"""
import ast
import inspect
import textwrap

from .symint import EngineError


class LoopCutError(EngineError):
    pass


class _RetRewriter(ast.NodeTransformer):
    """inside the cut loop body, `return X` becomes `return ('__return__', X)`; nested defs are left alone"""

    def visit_FunctionDef(self, node):
        return node

    visit_AsyncFunctionDef = visit_FunctionDef
    visit_Lambda = visit_FunctionDef

    def visit_Return(self, node):
        val = node.value or ast.Constant(None)
        return ast.copy_location(ast.Return(ast.Tuple([ast.Constant("__return__"), val], ast.Load())), node)


def _is_iter_loop(node):
    if not isinstance(node, ast.For):
        return False
    it = node.iter
    if isinstance(it, ast.Call) and isinstance(it.func, ast.Name) and it.func.id == "range" and it.args:
        a = it.args[-1] if len(it.args) <= 2 else it.args[1]
        for n in ast.walk(a):
            if isinstance(n, ast.Name) and ("n_iter" in n.id or "max_iter" in n.id or n.id in ("n_iteration", "maxiter")):
                return True
            if isinstance(n, ast.Attribute) and ("n_iter" in n.attr or "max_iter" in n.attr):
                return True
    return False


class LoopCut:
    def __init__(self, func, ordinal=None, role=True):
        self.func = inspect.unwrap(getattr(func, "__func__", func))  # (an interception wrapper is bypassed: the cut needs the real source and globals)
        src = textwrap.dedent(inspect.getsource(self.func))
        tree = ast.parse(src)
        fd = tree.body[0]
        if not isinstance(fd, ast.FunctionDef):
            raise LoopCutError("not a function definition")
        loops = [i for i, n in enumerate(fd.body) if isinstance(n, (ast.For, ast.While))]
        idx = None
        if role and ordinal is None:
            for i in loops:
                if _is_iter_loop(fd.body[i]):
                    idx = i
                    break
        if idx is None:
            if not loops:
                raise LoopCutError(f"no top-level loop in {self.func.__qualname__}")
            idx = loops[ordinal or 0] if (ordinal or 0) < len(loops) else None
            if idx is None:
                raise LoopCutError("loop ordinal out of range")
        self.loop = fd.body[idx]
        if not isinstance(self.loop, ast.For):
            raise LoopCutError("while-loops are not cut by this version")
        if self.loop.orelse:
            raise LoopCutError("for-else loop")
        self.fd = fd
        self.pre = fd.body[:idx]
        self.post = fd.body[idx + 1:]
        args = fd.args
        self.params = [a.arg for a in args.posonlyargs + args.args + args.kwonlyargs]
        if args.vararg:
            self.params.append(args.vararg.arg)
        if args.kwarg:
            self.params.append(args.kwarg.arg)
        stored = set()
        for n in ast.walk(fd):
            if isinstance(n, ast.Name) and isinstance(n.ctx, (ast.Store, ast.Del)):
                stored.add(n.id)
            elif isinstance(n, (ast.Global, ast.Nonlocal)):
                raise LoopCutError("global/nonlocal declaration")
            elif isinstance(n, (ast.FunctionDef, ast.AsyncFunctionDef, ast.ClassDef)) and n is not fd:
                stored.add(n.name)
            elif isinstance(n, ast.alias):
                stored.add((n.asname or n.name).split(".")[0])
            elif isinstance(n, ast.ExceptHandler) and n.name:
                stored.add(n.name)
        self.locals_ = sorted(set(self.params) | stored)
        self.target = ast.unparse(self.loop.target)
        self.loop_var_names = sorted({n.id for n in ast.walk(self.loop.target) if isinstance(n, ast.Name)})
        self.assigned_in_loop = sorted({n.id for n in ast.walk(self.loop) if isinstance(n, ast.Name) and isinstance(n.ctx, ast.Store)})
        self._compile()

    # ---- code generation
    def _unpack(self):
        out = []
        for name in self.locals_:
            out.append(ast.parse(f"if {name!r} in __vt_state: {name} = __vt_state[{name!r}]").body[0])
        return out

    def _locals_ret(self, kind):
        # return (kind, {name: value for bound locals})
        return ast.parse(
            f"return ({kind!r}, {{__k: __v for __k, __v in locals().items() if not __k.startswith('__vt')}})").body[0]

    def _compile(self):
        name = self.func.__name__
        fd = self.fd
        # prefix: same signature, statements before the loop, then return locals
        rw = _RetRewriter()
        pre_body = [s if isinstance(s, (ast.FunctionDef, ast.AsyncFunctionDef)) else rw.visit(s) for s in ast.parse(ast.unparse(ast.Module(self.pre, []))).body]
        pre = ast.FunctionDef(name=f"{name}__vt_prefix", args=fd.args, body=pre_body + [self._locals_ret("state")],
                              decorator_list=[], returns=None, type_comment=None, type_params=[])
        # body
        loop_body = [s if isinstance(s, (ast.FunctionDef, ast.AsyncFunctionDef)) else rw.visit(s) for s in ast.parse(ast.unparse(ast.Module(self.loop.body, []))).body]
        one = ast.For(target=self.loop.target, iter=ast.parse("[__vt_it]").body[0].value, body=loop_body,
                      orelse=[ast.parse("__vt_exit = 'end'").body[0]], type_comment=None)
        body_fn = ast.FunctionDef(name=f"{name}__vt_body", args=ast.arguments(posonlyargs=[], args=[ast.arg("__vt_state"), ast.arg("__vt_it")], kwonlyargs=[], kw_defaults=[], defaults=[]),
                                  body=self._unpack() + [ast.parse("__vt_exit = 'break'").body[0], one,
                                                         ast.parse("return (__vt_exit, {__k: __v for __k, __v in locals().items() if not __k.startswith('__vt')})").body[0]],
                                  decorator_list=[], returns=None, type_comment=None, type_params=[])
        # suffix
        suf = ast.FunctionDef(name=f"{name}__vt_suffix", args=ast.arguments(posonlyargs=[], args=[ast.arg("__vt_state")], kwonlyargs=[], kw_defaults=[], defaults=[]),
                              body=self._unpack() + (list(self.post) or [ast.Pass()]), decorator_list=[], returns=None, type_comment=None, type_params=[])
        mod = ast.Module([pre, body_fn, suf], [])
        ast.fix_missing_locations(mod)
        code = compile(mod, f"<vt loopcut of {self.func.__module__}.{self.func.__qualname__}>", "exec")
        ns = self.func.__globals__
        scratch = {}
        exec(code, ns, scratch)
        self._prefix, self._body, self._suffix = scratch[pre.name], scratch[body_fn.name], scratch[suf.name]
        # defaults of the original function apply to the prefix
        self._prefix.__defaults__ = self.func.__defaults__
        self._prefix.__kwdefaults__ = self.func.__kwdefaults__

    # ---- execution
    INJECTED = []
    EXTRA_KWARGS = {}  # effect obligations (C16) inject e.g. random_state into every cut function that has the parameter

    def prefix(self, *args, **kwargs):
        for k, v in LoopCut.EXTRA_KWARGS.items():
            if k in self.params:  # overrides an explicit value of the call site
                kwargs[k] = v
                LoopCut.INJECTED.append((self.func.__qualname__, k))
        r = self._prefix(*args, **kwargs)
        if isinstance(r, tuple) and len(r) == 2 and r[0] == "state":
            return r[1]
        if isinstance(r, tuple) and len(r) == 2 and r[0] == "__return__":
            return ("return", r[1])
        raise LoopCutError("unexpected prefix result")

    CARRIED = []   # (function, variable, first iteration run) of every warm-up made for a loop-carried variable the given iterate lacks

    def body(self, state, it):
        """One sweep from `state` at iteration index `it`.  If the body reads a variable that is assigned inside the loop and
        that the given iterate does not define (a loop-carried local the obligation's author did not know of), the sweep is
        preceded by the real sweep(s) at it-1 (.. down to 0) from the same iterate: every state the real loop can be in at
        iteration `it` is the image of a sweep from some state, so the argument stays inductive, and an exit taken during the
        warm-up is itself a real exit and is returned as such."""
        self._known(state)
        try:
            r = self._body(dict(state), it)
        except NameError as e:   # UnboundLocalError included
            name = getattr(e, "name", None)
            if name is None:   # CPython does not fill .name for UnboundLocalError
                import re
                m = re.search(r"variable '([^']+)'", str(e))
                name = m.group(1) if m else None
            if name is None or name in state or name not in self.assigned_in_loop or not isinstance(it, int) or it <= 0:
                raise
            kind, st1 = self.body(state, it - 1)
            LoopCut.CARRIED.append((self.func.__qualname__, name, it - 1))
            del LoopCut.CARRIED[:-50]
            if kind != "end":
                return kind, st1
            r = self._body(dict(st1), it)
        if isinstance(r, tuple) and len(r) == 2 and r[0] == "__return__":
            return "return", r[1]
        kind, st = r
        return kind, st

    def suffix(self, state):
        self._known(state)
        return self._suffix(dict(state))

    def _known(self, state):
        """an iterate that names a variable the function does not have (renamed by a refactoring) would silently not be installed, and the sweep would run
        from whatever the prefix left: the harness is out of date - undecided, never a verdict"""
        unknown = sorted(k for k in state if k not in self.locals_ and not k.startswith("_"))
        if unknown:
            raise LoopCutError(f"the iterate names {unknown}, not local variables of {self.func.__qualname__}")

    def loop_var_uses(self):
        """How the loop variable is used inside the body: list of AST contexts (for the iteration-class argument)."""
        uses = []
        parents = {}
        for n in ast.walk(self.loop):
            for c in ast.iter_child_nodes(n):
                parents[c] = n
        for n in ast.walk(ast.Module(self.loop.body, [])):
            if isinstance(n, ast.Name) and n.id in self.loop_var_names and isinstance(n.ctx, ast.Load):
                p = parents.get(n)
                uses.append(type(p).__name__ + ":" + ast.unparse(p)[:60])
        return uses
